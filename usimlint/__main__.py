"""
usimlint command line

  python -m usimlint check <Cnn> [quick|thorough]
  python -m usimlint explain <replay.json>
  python -m usimlint --version
"""
import importlib
import json
import os
import sys
import traceback

from . import __version__
from .engine import Analysis
from .model import AnalysisError
from .report import Check

PROPS = ['C%02d' % n for n in range(1, 21)]
#: properties whose path sets stay enumerable with three unrolled iterations per loop
DEEP_UNROLLING = frozenset(('C05', 'C06', 'C09', 'C10', 'C11', 'C12', 'C13', 'C14', 'C16',
                            'C17', 'C18', 'C20'))


def run_property(prop_id: str, tier: str, seed: int, only: str = None, root: str = None,
                 overlay: dict = None, quiet: bool = False, write: bool = True) -> int:
    check = Check(prop_id, tier, seed, only=only, quiet=quiet)
    try:
        module = importlib.import_module('usimlint.props.%s' % prop_id.lower())
        analysis = Analysis(root=root, overlay=overlay)
        module.run(check, analysis)
        if tier == 'thorough' and only is None:
            if hasattr(module, 'run_thorough'):
                module.run_thorough(check, analysis)
            _thorough_extras(check, module, prop_id, root, overlay)
    except AnalysisError as err:
        check.error(str(err))
    except RecursionError:
        check.error('internal: recursion limit')
    except Exception as err:  # an analyser bug must never look like a violation
        trace = traceback.format_exc().strip().splitlines()
        check.error('internal %s: %s | %s' % (type(err).__name__, err, ' / '.join(trace[-6:])))
    return check.finish(write=write)


def _thorough_extras(check, module, prop_id, root, overlay):
    """thorough tier: second pass without asserts + the property's self-test variants"""
    from .selftest import run_selftest, summarise
    # (1) the same rules with every `assert` removed (python -O): instances that only hold
    #     thanks to a usage assertion are recorded, not failed -- C02 scopes -O to programs
    #     that violate no usage assertion
    shadow = Check(prop_id, 'noassert', check.seed, quiet=True)
    try:
        module.run(shadow, Analysis(root=root, overlay=overlay, asserts=False))
        failing = sorted('%s %s' % (i.rule, i.construct) for i in shadow.instances
                         if not i.ok)
        base = set('%s %s' % (i.rule, i.construct) for i in check.instances if not i.ok)
        only_noassert = [f for f in failing if f not in base]
        check.stats['noassert_pass_instances'] = len(shadow.instances)
        check.stats['assert_only_guards'] = only_noassert
        for item in only_noassert:
            check.note('holds only under a usage assertion (assert-only): %s' % item)
    except AnalysisError as err:
        check.note('no-assert pass not completed: %s' % err)
    # (1b) the same rules with every loop unrolled three times instead of twice, where the
    #      path sets stay enumerable (measured; the others are named in DESIGN.md 12.6)
    if prop_id in DEEP_UNROLLING:
        deep = Check(prop_id, 'deep', check.seed, quiet=True)
        try:
            module.run(deep, Analysis(root=root, overlay=overlay, loop_bound=3))
            base = set('%s %s' % (i.rule, i.construct) for i in check.instances if not i.ok)
            extra = [i for i in deep.instances
                     if not i.ok and '%s %s' % (i.rule, i.construct) not in base]
            check.stats['deep_unrolling_instances'] = len(deep.instances)
            check.stats['deep_unrolling_paths'] = deep.stats.get('paths_enumerated')
            for inst in extra:
                # a rule must hold for every unrolling: this is a violation like any other
                check.instance(inst.rule, inst.construct + ' [3 iterations]', False,
                               inst.where, inst.detail, inst.path)
        except AnalysisError as err:
            check.note('deep unrolling not completed: %s' % err)
    # (2) firing variants and silent twins, analysed in memory
    if overlay is None:
        results = run_selftest(prop_id, root, seed=check.seed, twin_sample=int(
            os.environ.get('VERIF_TWIN_SAMPLE', '46')))
        summary = summarise(results)
        summary['details'] = [
            {k: r.get(k) for k in ('id', 'kind', 'status', 'what', 'reported')}
            for r in results]
        check.selftest = summary
        check.stats['selftest_variants'] = summary['variants']
        check.stats['selftest_mutants_detected'] = summary['mutants_detected']
        check.stats['selftest_twins_silent'] = summary['twins_silent']
        for vid in summary['mutants_missed']:
            check.note('self-test: mutant %s not reported on this tree' % vid)
        for vid in summary['twin_false_alarms']:
            check.note('self-test: twin %s reported on this tree' % vid)


def main(argv) -> int:
    if not argv or argv[0] in ('-h', '--help'):
        print(__doc__)
        return 0
    if argv[0] == '--version':
        print('usimlint', __version__)
        return 0
    sys.setrecursionlimit(10000)
    seed = int(os.environ.get('VERIF_SEED', '0') or 0)
    if argv[0] == 'check':
        prop_id = argv[1].upper()
        tier = argv[2] if len(argv) > 2 else os.environ.get('VERIF_TIER', 'quick')
        if prop_id not in PROPS:
            print('ANALYSIS-ERROR unknown property %s' % prop_id)
            return 2
        return run_property(prop_id, tier, seed)
    if argv[0] == 'selftest':
        from .selftest import main as selftest_main
        return selftest_main(argv[1:])
    if argv[0] == 'explain':
        with open(argv[1]) as stream:
            replay = json.load(stream)
        only = '%s %s' % (replay['rule'], replay['construct'])
        return run_property(replay['property'], 'quick', seed, only=only, write=False)
    print(__doc__)
    return 2


if __name__ == '__main__':
    sys.exit(main(sys.argv[1:]))
