"""
usimlint command line

  python -m usimlint check <Cnn> [quick|thorough]
  python -m usimlint explain <replay.json>
  python -m usimlint --version
"""
import importlib
import json
import os
import sys
import traceback

from . import __version__
from .engine import Analysis
from .model import AnalysisError
from .report import Check

PROPS = ['C%02d' % n for n in range(1, 21)]


def run_property(prop_id: str, tier: str, seed: int, only: str = None, root: str = None,
                 overlay: dict = None, quiet: bool = False, write: bool = True) -> int:
    check = Check(prop_id, tier, seed, only=only, quiet=quiet)
    try:
        module = importlib.import_module('usimlint.props.%s' % prop_id.lower())
        analysis = Analysis(root=root, overlay=overlay)
        module.run(check, analysis)
        if tier == 'thorough' and hasattr(module, 'run_thorough') and only is None:
            module.run_thorough(check, analysis)
    except AnalysisError as err:
        check.error(str(err))
    except RecursionError:
        check.error('internal: recursion limit')
    except Exception as err:  # an analyser bug must never look like a violation
        trace = traceback.format_exc().strip().splitlines()
        check.error('internal %s: %s | %s' % (type(err).__name__, err, ' / '.join(trace[-6:])))
    return check.finish(write=write)


def main(argv) -> int:
    if not argv or argv[0] in ('-h', '--help'):
        print(__doc__)
        return 0
    if argv[0] == '--version':
        print('usimlint', __version__)
        return 0
    sys.setrecursionlimit(10000)
    seed = int(os.environ.get('VERIF_SEED', '0') or 0)
    if argv[0] == 'check':
        prop_id = argv[1].upper()
        tier = argv[2] if len(argv) > 2 else os.environ.get('VERIF_TIER', 'quick')
        if prop_id not in PROPS:
            print('ANALYSIS-ERROR unknown property %s' % prop_id)
            return 2
        return run_property(prop_id, tier, seed)
    if argv[0] == 'explain':
        with open(argv[1]) as stream:
            replay = json.load(stream)
        only = '%s %s' % (replay['rule'], replay['construct'])
        return run_property(replay['property'], 'quick', seed, only=only, write=False)
    print(__doc__)
    return 2


if __name__ == '__main__':
    sys.exit(main(sys.argv[1:]))
