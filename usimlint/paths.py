"""
E5/E6/E7 -- path enumeration over the syntax tree with a predicate environment.

Every function is abstractly executed *as syntax*: no value is computed, usim is never
imported.  A path is the sequence of events (calls, stores, tests, suspension sites,
handler entries, ...) from function entry to one exit, including the exceptional exits
of every suspension site -- that is where usim's signals (Interrupt, CancelTask,
CancelScope, GeneratorExit) can arrive.  Loops are unrolled ``LOOP_BOUND`` times.

Facts (``test expression -> truth value``) prune paths that are infeasible because the
same expression was tested before with nothing in between that could change it; they are
killed by suspension sites, stores and impure calls.
"""
import ast
from typing import List, Optional, Tuple

from .model import Program, FunctionInfo, AnalysisError
from .types import TypeEngine, Frame, Callee, UNKNOWN

HIBERNATE = 'usim._core.loop.Hibernate'
CORE_INTERRUPT = 'usim._core.loop.Interrupt'
CANCEL_TASK = 'usim._primitives.task.CancelTask'
CANCEL_SCOPE = 'usim._primitives.context.CancelScope'
GENEXIT = 'ext:GeneratorExit'
#: what can arrive at a suspension point
SIGNALS = (CORE_INTERRUPT, CANCEL_TASK, CANCEL_SCOPE, GENEXIT)
USER_EXC = 'ext:Exception'

LOOP_BOUND = 2
MAX_PATHS = 100000

NORMAL = ('normal',)

#: external operations that may raise an exception which usim code catches locally
EXTERNAL_RAISES = {
    ('extmeth', 'deque', 'popleft'): 'ext:IndexError',
    ('extmeth', 'deque', 'pop'): 'ext:IndexError',
    ('extmeth', 'list', 'pop'): 'ext:IndexError',
    ('extmeth', 'list', 'remove'): 'ext:ValueError',
    ('extmeth', 'SortedList', 'pop'): 'ext:IndexError',
    ('extmeth', 'SortedKeyList', 'pop'): 'ext:IndexError',
    ('extmeth', 'SortedKeyList', 'remove'): 'ext:ValueError',
    ('extmeth', 'dict', 'pop'): 'ext:KeyError',
    ('extfn', 'next'): 'ext:StopIteration',
    ('extfn', 'heappop'): 'ext:IndexError',
    ('extmeth', 'awaitable', 'send'): 'ext:StopIteration',
    ('extmeth', 'awaitable', 'throw'): 'ext:StopIteration',
}
#: pure builtins / externals -- calling them changes nothing the facts talk about
PURE_EXTERNALS = {
    'len', 'isinstance', 'issubclass', 'type', 'bool', 'all', 'any', 'sum', 'getattr',
    'hasattr', 'repr', 'str', 'tuple', 'list', 'sorted', 'frozenset', 'min', 'max',
    'float', 'int', 'id', 'iter', 'enumerate', 'zip', 'map', 'dict', 'set', 'object',
    'super', 'callable', 'format', 'pow', 'abs', 'reversed', 'next', 'takewhile',
    'islice', 'join', 'keys', 'values', 'items', 'copy', 'get', 'index', 'count',
    'upper', 'lower', 'startswith', 'endswith', 'split', 'rpartition',
    'getcoroutinestate', 'getgeneratorstate',
}


_CONTAINER_TYPES = frozenset((
    'list', 'deque', 'dict', 'set', 'frozenset', 'tuple', 'WeakSet', 'SortedDict',
    'SortedList', 'SortedKeyList', 'WeakValueDictionary', 'WeakKeyDictionary',
    'OrderedDict'))


class Exc:
    """abstract exception: class name + the event that produced it"""
    __slots__ = ('cls', 'origin', 'tag')

    def __init__(self, cls: str, origin=None, tag=None):
        self.cls = cls
        self.origin = origin
        self.tag = tag

    def __repr__(self):
        return 'Exc(%s)' % self.cls.rsplit('.', 1)[-1]


class Event:
    __slots__ = ('kind', 'node', 'fn', 'recv', 'depth', 'data')

    def __init__(self, kind, node, frame, depth, **data):
        self.kind = kind
        self.node = node
        self.fn = frame.fn
        self.recv = frame.recv
        self.depth = depth
        self.data = data

    def __getitem__(self, item):
        return self.data[item]

    def get(self, item, default=None):
        return self.data.get(item, default)

    @property
    def line(self):
        return getattr(self.node, 'lineno', 0)

    @property
    def where(self):
        return '%s:%d' % (self.fn.module.relpath if self.fn else '?', self.line)

    def text(self) -> str:
        node = self.node
        try:
            src = ast.unparse(node) if node is not None else ''
        except Exception:
            src = '?'
        src = src.split('\n')[0][:70]
        extra = ''
        if self.kind == 'susp':
            extra = ' [%s%s%s]' % (self.data.get('susp'),
                                   ' base' if self.data.get('base') else '',
                                   ' exit=' + self.data['exit'] if self.data.get('exit')
                                   else '')
        elif self.kind == 'test':
            extra = ' = %s' % self.data.get('value')
        elif self.kind == 'handler':
            extra = ' catches %s' % self.data.get('exc')
        return '%s:%d %s %s%s' % (self.fn.module.relpath if self.fn else '?', self.line,
                                  self.kind, src, extra)

    def __repr__(self):
        return '<%s>' % self.text()


class St:
    """state of one path"""
    __slots__ = ('events', 'facts', 'exc_stack', 'pending', 'truncated')

    def __init__(self):
        self.events = []
        self.facts = {}
        self.exc_stack = []
        self.pending = []
        self.truncated = False

    def fork(self) -> 'St':
        new = St.__new__(St)
        new.events = list(self.events)
        new.facts = dict(self.facts)
        new.exc_stack = list(self.exc_stack)
        new.pending = list(self.pending)
        new.truncated = self.truncated
        return new


class Path:
    __slots__ = ('events', 'outcome', 'facts')

    def __init__(self, events, outcome, facts):
        self.events = events
        self.outcome = outcome
        self.facts = facts

    @property
    def kind(self):
        return self.outcome[0]

    @property
    def normal(self):
        return self.outcome[0] in ('normal', 'return')

    def must_suspended(self, start=0, stop=None) -> bool:
        for event in self.events[start:stop]:
            if event.kind == 'susp' and event.data.get('suspended') == 'MUST':
                return True
        return False

    def may_suspended(self, start=0, stop=None) -> bool:
        for event in self.events[start:stop]:
            if event.kind in ('susp', 'yield', 'hole') and \
                    event.data.get('suspended', 'MAY') != 'NEVER':
                return True
        return False

    def describe(self, limit=40) -> List[str]:
        lines = [event.text() for event in self.events
                 if event.kind not in ('enter', 'leave')][:limit]
        lines.append('=> %s' % (self.outcome[0] if self.outcome[0] != 'raise'
                                else 'raise %s' % self.outcome[1].cls))
        return lines


class Summary:
    __slots__ = ('susp', 'may_raise', 'returns', 'ret_truth', 'n_paths', 'cyclic',
                 'paths', 'step', 'end_susp')

    def __init__(self):
        self.susp = 'MAY'
        self.may_raise = frozenset()
        self.returns = True
        self.ret_truth = 'may'
        self.n_paths = 0
        self.cyclic = False
        self.paths = None
        self.step = None
        self.end_susp = None

    def __repr__(self):
        return '<Summary %s raises=%s returns=%s>' % (
            self.susp, sorted(c.rsplit('.', 1)[-1] for c in self.may_raise), self.returns)


class DynFrame:
    """dynamic frame: static frame + hole callback + inline depth"""
    __slots__ = ('frame', 'hole', 'depth', 'assume', 'single_assign', 'ptypes',
                 'want_truth', 'bindings', 'fid', 'helper_depth', 'manager')
    _next_fid = [0]

    def __init__(self, frame: Frame, depth=0, hole=None, assume=None, ptypes=None,
                 want_truth=False, bindings=None, helper_depth=0):
        self.frame = frame
        self.hole = hole
        self.depth = depth
        self.assume = assume
        self.single_assign = None
        self.ptypes = ptypes or {}
        self.want_truth = want_truth
        #: transparent helper frames: parameter -> (argument expression, index of the
        #: 'enter' event in the path) so that rules can follow values into the caller
        self.bindings = bindings
        self.helper_depth = helper_depth
        #: (position of the with-enter event, constructor expression, class) when this
        #: frame runs __enter__/__exit__ of a context manager object in place
        self.manager = None
        DynFrame._next_fid[0] += 1
        self.fid = DynFrame._next_fid[0]

    @property
    def fn(self) -> FunctionInfo:
        return self.frame.fn


def _access_paths(expr) -> set:
    """dotted access paths read by an expression: {'self', 'self._value', ...}"""
    result = set()
    for node in ast.walk(expr):
        if isinstance(node, ast.Name):
            result.add(node.id)
        elif isinstance(node, ast.Attribute):
            try:
                text = ast.unparse(node)
            except Exception:
                continue
            if all(part.isidentifier() for part in text.split('.')):
                result.add(text)
    return result


class Interp:
    """Path enumerator; one instance per analysis run (memoises summaries)"""

    def __init__(self, program: Program, types: TypeEngine = None,
                 asserts: bool = True, inline=None, max_depth: int = 0):
        self.p = program
        self.te = types or TypeEngine(program)
        self.asserts = asserts
        self.inline = inline
        self.max_depth = max_depth
        #: transparently inline private helpers of the same object / module (rule paths)
        self.helpers = False
        self.loop_bound = LOOP_BOUND
        self.budget = None
        self._helper_stack = []
        self._summaries = {}
        self._busy = set()
        self._try_stack = []
        self._n = 0
        self._resolve_cache = {}
        self._type_cache = {}
        self._pure = {}
        self.unresolved = []  # (where, text)
        self.user_sites = []
        self.stats = {'paths': 0, 'truncated': 0, 'functions': set(), 'susp_sites': set(),
                      'call_sites': set(), 'call_sites_resolved': set()}

    # ----------------------------------------------------------------- typing
    def etype(self, expr, fr: DynFrame):
        if fr.ptypes and isinstance(expr, ast.Name) and expr.id in fr.ptypes:
            return fr.ptypes[expr.id]
        key = (id(expr), fr.frame.key())
        found = self._type_cache.get(key)
        if found is None:
            found = self.te.expr_type(expr, fr.frame)
            self._type_cache[key] = found
        return found

    # -------------------------------------------------------------- top level
    def paths_of(self, callee: Callee, assume: dict = None, hole=None,
                 which: str = None) -> List[Path]:
        """all paths of one function under a receiver and optional initial facts"""
        self._n = 0
        saved = self._try_stack
        self._try_stack = []
        try:
            return self._paths_of(callee, assume, hole,
                                  ptypes=self.ptypes_for(callee, which) if which else None,
                                  want_truth=callee.fn.name in ('__aexit__', '__exit__'))
        finally:
            self._try_stack = saved

    def _paths_of(self, callee: Callee, assume=None, hole=None, depth=0, ptypes=None,
                  want_truth=False) -> List[Path]:
        st = St()
        if assume:
            st.facts.update(assume)
        fr = DynFrame(Frame(callee.fn, callee.recv), depth=depth, hole=hole, assume=assume,
                      ptypes=ptypes, want_truth=want_truth)
        self.stats['functions'].add(callee.key())
        results = self.exec_body(callee.fn, st, fr)
        paths = []
        for out, s in results:
            if s.truncated:
                continue
            paths.append(Path(s.events, out, s.facts))
        self.stats['paths'] += len(paths)
        return paths

    def exec_body(self, fn: FunctionInfo, st: St, fr: DynFrame):
        node = fn.node
        if isinstance(node, ast.Lambda):
            raised = []
            sts = self.ev(node.body, [st], fr, raised)
            return [(('return', node.body), s) for s in sts] + raised
        saved = self._try_stack
        if fr.depth == 0:
            self._try_stack = []
        try:
            return self.exec_block(node.body, st, fr)
        finally:
            self._try_stack = saved

    # ------------------------------------------------------------- summaries
    def assume_for(self, callee: Callee, which: str) -> dict:
        """initial facts for an ``__aexit__``/``__exit__`` under 'none'/'genexit'/'exc'"""
        args = callee.fn.node.args.posonlyargs + callee.fn.node.args.args
        if len(args) < 2:
            return {}
        name = args[1].arg
        none_key = ('isnone', name)
        gen_key = ('is', 'GeneratorExit', name)
        if which == 'none':
            return {none_key: True, gen_key: False}
        if which == 'genexit' or which == 'exc:' + GENEXIT:
            return {none_key: False, gen_key: True}
        return {none_key: False, gen_key: False}

    def ptypes_for(self, callee: Callee, which: str) -> dict:
        """parameter types of an exit function for a pending exception class"""
        if which == 'genexit':
            which = 'exc:' + GENEXIT
        if not which or not which.startswith('exc:'):
            return {}
        cls = which[4:]
        args = callee.fn.node.args.posonlyargs + callee.fn.node.args.args
        if len(args) < 3:
            return {}
        if cls.startswith('ext:'):
            inst = frozenset({('ext', cls[4:])})
            klass = frozenset({('extfn', cls[4:])})
        else:
            inst = frozenset({('inst', cls)})
            klass = frozenset({('cls', cls)})
        return {args[1].arg: klass, args[2].arg: inst}

    def summary(self, callee: Callee, which: str = None) -> Summary:
        key = callee.key() + (which,)
        found = self._summaries.get(key)
        if found is not None:
            return found
        if key in self._busy:
            cyc = Summary()
            cyc.cyclic = True
            cyc.may_raise = frozenset(SIGNALS) if callee.fn.kind != 'sync' else frozenset()
            cyc.susp = 'MAY' if callee.fn.kind != 'sync' else 'NEVER'
            return cyc
        if any(d.split('.')[-1] == 'abstractmethod' for d in callee.fn.decorators):
            # never the real callee: the concrete override is generated or external
            summ = Summary()
            summ.susp = 'NEVER'
            summ.ret_truth = 'may'
            summ.paths = []
            self._summaries[key] = summ
            return summ
        self._busy.add(key)
        saved_try = self._try_stack
        self._try_stack = []
        # summaries are always inline-free, whoever asks for them
        saved_inline = (self.inline, self.max_depth, self.helpers)
        self.inline, self.max_depth, self.helpers = None, 0, False
        try:
            assume = self.assume_for(callee, which) if which else None
            hole = self._default_hole_ev if callee.fn.kind == 'ctxgen' else None
            paths = self._paths_of(callee, assume, hole,
                                   ptypes=self.ptypes_for(callee, which),
                                   want_truth=callee.fn.name in ('__aexit__', '__exit__'))
            summ = self._summarise(callee, paths)
        finally:
            self._busy.discard(key)
            self._try_stack = saved_try
            self.inline, self.max_depth, self.helpers = saved_inline
        self._summaries[key] = summ
        return summ

    def _default_hole(self, st: St, fr: DynFrame, node):
        results = [(NORMAL, st)]
        classes = list(SIGNALS + (USER_EXC,))
        # the body of a `with` block may raise anything: every class an enclosing handler
        # of the generator names specifically is a way out of its own
        for level in self._try_stack:
            for caught in level:
                if caught not in classes and caught not in (
                        'ext:BaseException', 'ext:Exception', 'ext:object'):
                    classes.append(caught)
        for cls in classes:
            s = st.fork()
            results.append((('raise', Exc(cls, tag='hole')), s))
        return results

    def _summarise(self, callee: Callee, paths: List[Path]) -> Summary:
        summ = Summary()
        summ.n_paths = len(paths)
        normal = [p for p in paths if p.normal]
        raises = set()
        for path in paths:
            if path.kind == 'raise':
                raises.add(path.outcome[1].cls)
        summ.may_raise = frozenset(raises)
        summ.returns = bool(normal)
        any_susp = any(p.may_suspended() for p in paths)
        if not any_susp:
            summ.susp = 'NEVER'
        elif normal and all(p.must_suspended() for p in normal):
            summ.susp = 'MUST'
        elif not normal:
            summ.susp = 'MUST'  # vacuous: never returns normally
        else:
            summ.susp = 'MAY'
        truths = set()
        for path in normal:
            if path.kind == 'return':
                if len(path.outcome) > 2:
                    truths.add(path.outcome[2])
                else:
                    truths.add(_const_truth(path.outcome[1]))
            else:
                truths.add(False)
        if truths <= {False}:
            summ.ret_truth = 'never'
        elif truths == {True}:
            summ.ret_truth = 'always'
        else:
            summ.ret_truth = 'may'
        if callee.fn.kind == 'asyncgen':
            summ.step, summ.end_susp = self._step_summary(paths)
        if len(paths) <= 4000:
            summ.paths = paths
        return summ

    def _step_summary(self, paths: List[Path]) -> Tuple[str, str]:
        """(MUST/MAY/NEVER for entry|yield -> yield segments, same for yield -> end)"""
        seg_must, seg_may, n_seg = True, False, 0
        end_must, end_may, n_end = True, False, 0
        for path in paths:
            last = 0
            for index, event in enumerate(path.events):
                if event.kind == 'yield' and event.depth == 0:
                    n_seg += 1
                    seg_must &= path.must_suspended(last, index)
                    seg_may |= _segment_may(path, last, index)
                    last = index + 1
            if path.normal:
                n_end += 1
                end_must &= path.must_suspended(last)
                end_may |= _segment_may(path, last, None)
        step = 'MUST' if (n_seg and seg_must) else ('MAY' if seg_may else 'NEVER')
        end = 'MUST' if (n_end and end_must) else ('MAY' if end_may else 'NEVER')
        return step, end

    # ---------------------------------------------------------------- purity
    def is_pure(self, callee: Callee) -> bool:
        """no store to attributes/subscripts/globals, no suspension, only pure callees"""
        key = callee.key()
        if key in self._pure:
            return self._pure[key]
        self._pure[key] = True  # optimistic for recursion
        result = self._is_pure(callee)
        self._pure[key] = result
        return result

    def _is_pure(self, callee: Callee) -> bool:
        fn = callee.fn
        if any(d.split('.')[-1] == 'abstractmethod' for d in fn.decorators):
            return True
        if fn.kind not in ('sync', 'lambda'):
            return False
        frame = Frame(fn, callee.recv)
        body = [fn.node.body] if isinstance(fn.node, ast.Lambda) else fn.node.body
        stack = list(body)
        while stack:
            node = stack.pop()
            if isinstance(node, (ast.FunctionDef, ast.AsyncFunctionDef, ast.ClassDef,
                                 ast.Lambda)):
                continue
            if isinstance(node, (ast.Assign, ast.AugAssign, ast.AnnAssign)):
                targets = node.targets if isinstance(node, ast.Assign) else [node.target]
                for target in targets:
                    for sub in ast.walk(target):
                        if isinstance(sub, (ast.Attribute, ast.Subscript)) and \
                                isinstance(sub.ctx, ast.Store):
                            return False
            if isinstance(node, (ast.Delete, ast.Global, ast.Nonlocal, ast.Await,
                                 ast.Yield, ast.YieldFrom)):
                return False
            if isinstance(node, ast.Call):
                callees, externals = self.te.resolve_callees(node, frame)
                for sub in callees:
                    if sub.fn.name in ('__init__', '__new__'):
                        # constructing a fresh object is pure if its init only
                        # writes to the new object and calls pure functions
                        if not self._init_is_local(sub):
                            return False
                    elif not self.is_pure(sub):
                        return False
                for ext in externals:
                    if ext[0] in ('construct', 'callable'):
                        continue
                    name = ext[-1].split('.')[-1]
                    if name not in PURE_EXTERNALS and not _is_exception_name(name):
                        return False
            stack.extend(ast.iter_child_nodes(node))
        return True

    def _init_is_local(self, callee: Callee) -> bool:
        """an ``__init__`` that only stores to ``self`` and calls pure functions/inits"""
        key = ('init',) + callee.key()
        if key in self._pure:
            return self._pure[key]
        self._pure[key] = True
        fn = callee.fn
        frame = Frame(fn, callee.recv)
        args = fn.node.args.posonlyargs + fn.node.args.args
        self_name = args[0].arg if args else None
        result = True
        for node in ast.walk(fn.node):
            if isinstance(node, (ast.Attribute, ast.Subscript)) and \
                    isinstance(node.ctx, ast.Store):
                root = node.value
                if not (isinstance(root, ast.Name) and root.id == self_name):
                    result = False
            elif isinstance(node, (ast.Await, ast.Yield, ast.YieldFrom, ast.Global)):
                result = False
            elif isinstance(node, ast.Call):
                callees, externals = self.te.resolve_callees(node, frame)
                for sub in callees:
                    if sub.fn.name in ('__init__', '__new__'):
                        if not self._init_is_local(sub):
                            result = False
                    elif not self.is_pure(sub):
                        result = False
                for ext in externals:
                    if ext[0] == 'construct':
                        continue
                    ext_name = ext[-1].split('.')[-1]
                    if ext[0] == 'callable' or _is_exception_name(ext_name):
                        continue
                    if ext_name not in PURE_EXTERNALS | {
                            'deque', 'WeakSet', 'SortedDict', 'SortedList', 'Flag',
                            'WeakValueDictionary', 'WeakKeyDictionary', '__init__'}:
                        result = False
        self._pure[key] = result
        return result

    # ------------------------------------------------------------- statements
    def _count(self):
        self._n += 1
        if self._n > (self.budget or MAX_PATHS * 6):
            raise AnalysisError('path budget exceeded')

    def exec_block(self, stmts, st: St, fr: DynFrame):
        results = []
        current = [st]
        for stmt in stmts:
            nxt = []
            for s in current:
                for out, s2 in self.exec_stmt(stmt, s, fr):
                    if out[0] == 'normal':
                        nxt.append(s2)
                    else:
                        results.append((out, s2))
            current = nxt
            if not current:
                break
        results.extend((NORMAL, s) for s in current)
        return results

    def exec_stmt(self, stmt, st: St, fr: DynFrame):
        self._count()
        method = getattr(self, 'st_' + type(stmt).__name__, None)
        if method is None:
            raise AnalysisError('unsupported statement %s at %s:%d' % (
                type(stmt).__name__, fr.fn.module.relpath, stmt.lineno))
        return method(stmt, st, fr)

    _FACT_KINDS = frozenset(('call', 'store', 'raise', 'del', 'susp', 'return', 'yield',
                             'enter', 'hole'))

    def _emit(self, st: St, kind, node, fr: DynFrame, **data) -> Event:
        event = Event(kind, node, fr.frame, fr.depth, **data)
        if kind in self._FACT_KINDS:
            event.data['facts'] = dict(st.facts)
        event.data['fid'] = fr.fid
        event.data['pos'] = len(st.events)
        if fr.bindings is not None:
            event.data['bind'] = fr.bindings
        if fr.manager is not None:
            event.data['mgr'] = fr.manager
        st.events.append(event)
        return event

    def _simple(self, exprs, st, fr):
        """evaluate expressions in order; returns (normal states, raised results)"""
        raised = []
        sts = [st]
        for expr in exprs:
            if expr is None:
                continue
            sts = self.ev(expr, sts, fr, raised)
        return sts, raised

    def st_Expr(self, stmt, st, fr):
        sts, raised = self._simple([stmt.value], st, fr)
        return [(NORMAL, s) for s in sts] + raised

    def st_Pass(self, stmt, st, fr):
        return [(NORMAL, st)]

    def st_Import(self, stmt, st, fr):
        return [(NORMAL, st)]

    st_ImportFrom = st_Global = st_Nonlocal = st_Import

    def st_FunctionDef(self, stmt, st, fr):
        self._kill_name(st, stmt.name)
        return [(NORMAL, st)]

    st_AsyncFunctionDef = st_ClassDef = st_FunctionDef

    def st_Assign(self, stmt, st, fr):
        # `ok = self.helper(x)` ... `if ok:` decides like `if self.helper(x):`
        if len(stmt.targets) == 1 and isinstance(stmt.targets[0], ast.Name):
            inner, negated = stmt.value, False
            if isinstance(inner, ast.UnaryOp) and isinstance(inner.op, ast.Not):
                inner, negated = inner.operand, True
            if isinstance(inner, ast.Call):
                raised = []
                decided = self._truth_inline(inner, st, fr, raised, 'test')
                if decided is not None:
                    results = []
                    for truth, s in decided:
                        self._store(stmt.targets[0], stmt.value, s, fr, stmt)
                        s.facts[('truth', stmt.targets[0].id)] = bool(truth) != negated
                        results.append((NORMAL, s))
                    return results + raised
        sts, raised = self._simple([stmt.value], st, fr)
        accumulates = len(stmt.targets) == 1 and isinstance(stmt.targets[0], ast.Name) and \
            isinstance(stmt.value, ast.BinOp) and isinstance(stmt.value.left, ast.Name) and \
            stmt.value.left.id == stmt.targets[0].id and \
            isinstance(stmt.value.op, (ast.Add, ast.Sub, ast.Mult)) and not any(
                isinstance(n, ast.Name) and n.id == stmt.targets[0].id
                for n in ast.walk(stmt.value.right))
        for s in sts:
            if accumulates:
                # `x = x + e` on a local: recorded as the update `x += e` it is (of the
                # value; rules do not follow aliases of local numbers)
                self._store(stmt.targets[0], stmt.value.right, s, fr, stmt,
                            aug=stmt.value.op)
                continue
            for target in stmt.targets:
                self._store(target, stmt.value, s, fr, stmt)
        sub_exprs = []
        for target in stmt.targets:
            sub_exprs.extend(_target_subexprs(target))
        if sub_exprs:
            out = []
            for s in sts:
                more, r2 = self._simple(sub_exprs, s, fr)
                out.extend(more)
                raised.extend(r2)
            sts = out
        return [(NORMAL, s) for s in sts] + raised

    def st_AnnAssign(self, stmt, st, fr):
        if stmt.value is None:
            return [(NORMAL, st)]
        sts, raised = self._simple([stmt.value], st, fr)
        for s in sts:
            self._store(stmt.target, stmt.value, s, fr, stmt)
        return [(NORMAL, s) for s in sts] + raised

    def st_AugAssign(self, stmt, st, fr):
        sts, raised = self._simple([stmt.value], st, fr)
        for s in sts:
            self._store(stmt.target, stmt.value, s, fr, stmt, aug=stmt.op)
        return [(NORMAL, s) for s in sts] + raised

    def st_Delete(self, stmt, st, fr):
        exprs = []
        for target in stmt.targets:
            exprs.extend(_target_subexprs(target))
        sts, raised = self._simple(exprs, st, fr)
        results = []
        for s in sts:
            for target in stmt.targets:
                self._emit(s, 'del', target, fr, path=_dotted(target),
                           base=_dotted(target.value) if isinstance(
                               target, (ast.Subscript, ast.Attribute)) else None)
                self._kill_store(s, target)
                if isinstance(target, ast.Subscript) and self._caught('ext:KeyError'):
                    r = s.fork()
                    results.append((('raise', Exc('ext:KeyError', r.events[-1])), r))
            results.append((NORMAL, s))
        return results + raised

    def _store(self, target, value, st, fr, stmt, aug=None):
        if isinstance(target, (ast.Tuple, ast.List)):
            parts = [None] * len(target.elts)
            if isinstance(value, (ast.Tuple, ast.List)) and \
                    len(value.elts) == len(target.elts) and not any(
                    isinstance(e, ast.Starred) for e in list(value.elts) + list(target.elts)):
                parts = list(value.elts)  # a, b = x, y
            elif value is not None and not any(isinstance(e, ast.Starred)
                                               for e in target.elts):
                # a, b = pair: every element is the matching item of the pair
                parts = [ast.copy_location(ast.Subscript(
                    value=value, slice=ast.Constant(value=index), ctx=ast.Load()), value)
                    for index in range(len(target.elts))]
            returned = self._helper_returned(value, st)
            for position, (elt, part) in enumerate(zip(target.elts, parts)):
                self._store(elt, part, st, fr, stmt, aug)
                if isinstance(returned, ast.Tuple) and \
                        len(returned.elts) == len(target.elts) and \
                        isinstance(elt, ast.Name) and aug is None:
                    self._constant_flag(st, elt.id, returned.elts[position])
                    self._display_length(st, elt.id, returned.elts[position])
                    self._returned_facts(st, elt.id, returned.elts[position])
            return
        if isinstance(target, ast.Starred):
            return self._store(target.value, None, st, fr, stmt, aug)
        path = _dotted(target)
        base = None
        if isinstance(target, (ast.Attribute, ast.Subscript)):
            base = _dotted(target.value)
        self._emit(st, 'store', target, fr, path=path, base=base, value=value, aug=aug,
                   stmt=stmt, local=isinstance(target, ast.Name))
        self._kill_store(st, target, fr)
        if isinstance(target, ast.Name) and aug is None and _is_fresh_empty(value):
            st.facts[('truth', target.id)] = False
        if isinstance(target, ast.Name) and aug is None and isinstance(
                value, (ast.ListComp, ast.SetComp, ast.DictComp)) and \
                len(value.generators) == 1 and not value.generators[0].is_async:
            # a comprehension result is empty exactly when no element was produced
            st.facts[('truth', target.id)] = bool(
                st.facts.pop(('comp-elements', str(id(value))), False))
        if isinstance(target, ast.Name) and aug is None:
            if isinstance(value, ast.IfExp):
                # `x = a if c else None`: the branch taken on this path
                value = self._taken_branch(value, st, fr)
            self._constant_flag(st, target.id, value)
            self._display_length(st, target.id, value)
            if self._never_none(value, fr):
                st.facts[('isnone', target.id)] = False  # a fresh instance, a class
            if isinstance(value, ast.Subscript) and isinstance(
                    value.value, (ast.Call, ast.Await)) and isinstance(
                    value.slice, ast.Constant) and isinstance(value.slice.value, int):
                # `x = self._helper()[0]`: the item of the pair the helper returned
                pair = self._helper_returned(value.value, st, stored=value)
                if isinstance(pair, ast.Tuple) and not any(
                        isinstance(e, ast.Starred) for e in pair.elts) and \
                        -len(pair.elts) <= value.slice.value < len(pair.elts):
                    item = pair.elts[value.slice.value]
                    self._constant_flag(st, target.id, item)
                    self._returned_facts(st, target.id, item)
            copied = _copied_source(value) if value is not None else None
            if copied is not None and st.facts.get(('truth', copied)) is not None:
                # a fresh copy is empty exactly when the sequence it was made from is
                st.facts[('truth', target.id)] = st.facts[('truth', copied)]
            member = self._enum_member(value, fr.frame.fn)
            if member is not None:
                st.facts[('enumval', target.id)] = member
            if isinstance(value, (ast.Call, ast.Await)):
                # `ok = self._helper()` where the helper, run in place, returned a constant
                returned = self._helper_returned(value, st)
                self._constant_flag(st, target.id, returned)
                self._returned_facts(st, target.id, returned)
                member = None
                for made in reversed(st.events[-4:]):
                    if made.kind == 'leave' and made.node is value and \
                            made.data.get('callee') is not None:
                        member = self._enum_member(returned, made.data['callee'].fn)
                if member is not None:
                    # the member of an enumeration the helper answered with
                    st.facts[('enumval', target.id)] = member
                if isinstance(returned, ast.Call) and st.events:
                    # ... or a record: what is known about each of its fields
                    from . import rules
                    made_by = None
                    for made in reversed(st.events[-4:]):
                        if made.kind == 'leave' and made.node is value:
                            made_by = made.data.get('callee')
                    display = rules._record_display(returned, made_by.fn) \
                        if made_by is not None else None
                    if display is not None:
                        for field, item in zip(display.record_fields, display.elts):
                            dotted = '%s.%s' % (target.id, field)
                            self._constant_flag(st, dotted, item)
                            self._returned_facts(st, dotted, item)

    def _taken_branch(self, value, st: St, fr: DynFrame):
        """the operand a (nested) conditional expression evaluated to on this path, by the
        outcomes of its tests just recorded; the expression itself when undecided"""
        def observed(test):
            if isinstance(test, ast.UnaryOp) and isinstance(test.op, ast.Not):
                inner = observed(test.operand)
                return None if inner is None else not inner
            if isinstance(test, ast.BoolOp):
                is_and = isinstance(test.op, ast.And)
                for part in test.values:
                    got = observed(part)
                    if got is None:
                        return None
                    if got != is_and:
                        return got
                return is_and
            for event in reversed(st.events[-40:]):
                if event.kind == 'test' and event.node is test and \
                        event.data.get('fid') == fr.fid:
                    return bool(event.data.get('value'))
            return None
        while isinstance(value, ast.IfExp):
            taken = observed(value.test)
            if taken is None:
                break
            value = value.body if taken else value.orelse
        return value

    @staticmethod
    def _constant_flag(st: St, name: str, value):
        if isinstance(value, ast.Constant) and (isinstance(value.value, bool)
                                                or value.value is None):
            # a local flag: private to this frame, it keeps its value across suspensions
            st.facts[('truth', name)] = bool(value.value)
            st.facts[('isnone', name)] = value.value is None
            st.facts[('constflag', name)] = True

    @staticmethod
    def _returned_facts(st: St, name: str, returned):
        """what the helper that just ran in place knew about the value it returned"""
        if _is_fresh_empty(returned):
            st.facts[('truth', name)] = False
            return
        if not isinstance(returned, ast.Name) or not st.events:
            return
        # the leave event of the helper is the last one before the stores of this statement
        leave = None
        for event in reversed(st.events[-8:]):
            if event.kind == 'leave' and event.data.get('how') == 'helper':
                leave = event
                break
        inner = leave.data.get('inner_facts') if leave is not None else None
        if not inner:
            return
        local = returned.id
        if inner.get(('isnone', local)) is not None:
            st.facts[('isnone', name)] = inner[('isnone', local)]
        elif any(key[0] == 'truth' and value is True and
                 key[1].startswith('isinstance(%s,' % local) for key, value in inner.items()):
            st.facts[('isnone', name)] = False  # an instance of something is not None
        if inner.get(('truth', local)) is not None:
            st.facts[('truth', name)] = inner[('truth', local)]

    @staticmethod
    def _display_length(st: St, name: str, value):
        """a local bound to a tuple display is walked exactly len(display) times"""
        if isinstance(value, ast.Tuple) and not any(
                isinstance(e, ast.Starred) for e in value.elts):
            st.facts[('itercount', name)] = len(value.elts)
            st.facts[('truth', name)] = bool(value.elts)

    @staticmethod
    def _helper_returned(value, st: St, stored=None):
        """the return expression of the helper that was just run in place for ``value``
        (``stored``: the expression being stored, when ``value`` is only a part of it)"""
        if not isinstance(value, (ast.Call, ast.Await)) or not st.events:
            return None
        at = len(st.events) - 1
        while at > 0 and at > len(st.events) - 4 and (
                (st.events[at].kind == 'store' and st.events[at].data.get('value') in (
                    value, stored if stored is not None else value))
                or (st.events[at].kind in ('test', 'retval', 'assert')
                    and st.events[at].node is value and st.events[at].data.get('inlined'))):
            at -= 1  # the store of the result / the truth of it, recorded after the helper
        last = st.events[at]
        if last.kind == 'leave' and last.data.get('how') == 'helper' and \
                last.node is value and last.data.get('outcome') == 'return':
            return last.data.get('ret')
        return None

    def _kill_store(self, st: St, target, fr=None):
        path = _dotted(target)
        if isinstance(target, ast.Subscript):
            path = _dotted(target.value)
        if path is None:
            # unknown target: be conservative
            for key in [k for k in st.facts if _fact_has_attr(k)]:
                del st.facts[key]
            return
        self._kill_path(st, path, fr)

    def _kill_name(self, st, name):
        self._kill_path(st, name)

    def _truth_reads(self, recv: str):
        """attributes of ``self`` that the truth value of an instance depends on
        (None: unknown / everything)"""
        key = ('truth-reads', recv)
        if key in self._pure:
            return self._pure[key]
        self._pure[key] = None
        method = self.p.find_method(recv, '__bool__') or self.p.find_method(recv, '__len__')
        if method is None:
            self._pure[key] = frozenset()
            return self._pure[key]
        reads, todo, seen = set(), [method], set()
        known = True
        while todo and known:
            fn = todo.pop()
            if fn.qn in seen:
                continue
            seen.add(fn.qn)
            for node in ast.walk(fn.node):
                if isinstance(node, ast.Attribute) and isinstance(node.value, ast.Name) and \
                        node.value.id == 'self':
                    reads.add(node.attr)
                    other = self.p.find_method(recv, node.attr)
                    if other is not None and other is not fn:
                        todo.append(other)
                elif isinstance(node, ast.Call) and isinstance(node.func, ast.Attribute) and \
                        isinstance(node.func.value, ast.Call) and \
                        isinstance(node.func.value.func, ast.Name) and \
                        node.func.value.func.id == 'super':
                    known = False
            if len(seen) > 6:
                known = False
        self._pure[key] = frozenset(reads) if known else None
        return self._pure[key]

    def _kill_path(self, st: St, path: str, fr=None):
        dead = []
        for key in st.facts:
            for dep in _fact_deps(key):
                if dep == path or dep.startswith(path + '.'):
                    dead.append(key)
                    break
                if path.startswith(dep + '.'):
                    # a store to `obj.attr` and a fact about `obj` itself: the truth of
                    # `self` changes only with the attributes its __bool__ reads
                    if key[0] == 'truth' and dep == 'self' and fr is not None and \
                            fr.frame.recv is not None and key[1] == 'self':
                        reads = self._truth_reads(fr.frame.recv)
                        attr = path[len(dep) + 1:].split('.')[0]
                        if reads is not None and attr not in reads:
                            continue
                    dead.append(key)
                    break
        for key in dead:
            del st.facts[key]

    MUTATORS = frozenset((
        'append', 'appendleft', 'pop', 'popleft', 'popitem', 'remove', 'clear', 'add',
        'discard', 'insert', 'extend', 'extendleft', 'update', 'setdefault', 'sort',
        'reverse', 'rotate', 'push', 'send', 'throw', 'close', 'enter_context'))

    def mod_of(self, callee: Callee):
        """(attribute names possibly written transitively, unknown effects?)"""
        key = ('mod',) + callee.key()
        found = self._pure.get(key)
        if found is not None:
            return found
        self._pure[key] = (frozenset(), False)  # recursion: optimistic, fixed below
        fn = callee.fn
        frame = Frame(fn, callee.recv)
        attrs, unknown = set(), False
        body = [fn.node.body] if isinstance(fn.node, ast.Lambda) else fn.node.body
        stack = list(body)
        while stack:
            node = stack.pop()
            if isinstance(node, (ast.FunctionDef, ast.AsyncFunctionDef, ast.ClassDef,
                                 ast.Lambda)):
                continue
            if isinstance(node, (ast.Attribute, ast.Subscript)) and \
                    isinstance(node.ctx, (ast.Store, ast.Del)):
                target = node if isinstance(node, ast.Attribute) else node.value
                if isinstance(target, ast.Attribute):
                    attrs.add(target.attr)
                elif not isinstance(target, ast.Name):
                    unknown = True
            elif isinstance(node, ast.Call):
                callees, externals = self.te.resolve_callees(node, frame)
                for sub in callees:
                    sub_attrs, sub_unknown = self.mod_of(sub)
                    attrs |= sub_attrs
                    unknown |= sub_unknown
                for ext in externals:
                    if ext[0] == 'construct':
                        continue
                    name = ext[-1].split('.')[-1]
                    if ext[0] == 'extmeth' and name in self.MUTATORS:
                        recv = node.func.value if isinstance(node.func, ast.Attribute) \
                            else None
                        if isinstance(recv, ast.Attribute):
                            attrs.add(recv.attr)
                        elif isinstance(recv, ast.Subscript) and \
                                isinstance(recv.value, ast.Attribute):
                            attrs.add(recv.value.attr)
                        elif not isinstance(recv, ast.Name):
                            unknown = True
                    elif ext[0] == 'unknown':
                        unknown = True
                    elif ext[0] == 'extfn' and name in ('heappush', 'heappop'):
                        first = node.args[0] if node.args else None
                        if isinstance(first, ast.Attribute):
                            attrs.add(first.attr)
                        elif not isinstance(first, ast.Name):
                            unknown = True
                    elif ext[0] == 'extfn' and name in ('exec', 'setattr', 'delattr'):
                        unknown = True
            stack.extend(ast.iter_child_nodes(node))
        result = (frozenset(attrs), unknown)
        self._pure[key] = result
        return result

    def _kill_call(self, st: St, call: ast.Call, callees=None, externals=None, fr=None):
        """an impure call: facts on what it may write and on the receiver die"""
        recv = None
        if isinstance(call, ast.Call) and isinstance(call.func, ast.Attribute):
            recv = _dotted(call.func.value)
        if not callees and externals and fr is not None and all(
                ext[0] == 'extmeth' and ext[1] in _CONTAINER_TYPES for ext in externals):
            # a method of a builtin container changes that container only: facts die if
            # they are about the receiver or about something that may alias a container
            dead = []
            for key in st.facts:
                for dep in _fact_deps(key):
                    if recv is not None and (dep == recv or dep.startswith(recv + '.')
                                             or recv.startswith(dep + '.')):
                        dead.append(key)
                        break
                    if '.' in dep and self._may_be_container(dep, fr):
                        dead.append(key)
                        break
            for key in dead:
                del st.facts[key]
            if recv is not None and '.' not in recv and isinstance(call, ast.Call) and \
                    call.func.attr in ('append', 'appendleft', 'add', 'insert') and \
                    call.args:
                # a local container that just received an element is not empty
                st.facts[('truth', recv)] = True
            return
        attrs, unknown = None, True
        if callees:
            attrs, unknown = set(), False
            for callee in callees:
                sub_attrs, sub_unknown = self.mod_of(callee)
                attrs |= sub_attrs
                unknown |= sub_unknown
        dead = []
        for key in st.facts:
            if _fact_has_attr(key):
                if self._about_record_fields(key, fr):
                    continue  # fields of an immutable record held by a stable local
                if unknown or attrs is None or _fact_attr_names(key) & attrs or \
                        '(' in ''.join(key[1:]):
                    dead.append(key)
            elif recv is not None and any(
                    dep == recv or dep.startswith(recv + '.') or recv.startswith(dep + '.')
                    for dep in _fact_deps(key)):
                dead.append(key)
        for key in dead:
            del st.facts[key]

    def _about_record_fields(self, key, fr) -> bool:
        """every attribute path in the fact is ``<local>.<field>`` of a local that is bound
        once and whose static type is a typing.NamedTuple record of the package"""
        if fr is None or key[0] in ('constflag',) and False:
            return False
        deps = [d for d in _fact_deps(key) if '.' in d]
        if not deps or any('(' in part or '[' in part for part in key[1:]):
            return False
        from . import rules
        stable = self._stable_locals(fr)
        for dep in deps:
            parts = dep.split('.')
            if len(parts) != 2 or parts[0] not in stable:
                return False
            found = self.te.expr_type(ast.Name(id=parts[0], ctx=ast.Load()), fr.frame)
            classes = {t[1] for t in found if t[0] == 'inst'}
            if len(classes) != 1 or any(t[0] not in ('inst', 'none') for t in found):
                return False
            fields = rules.record_fields(self.p, next(iter(classes)))
            if not fields or parts[1] not in [n for n, _d in fields]:
                return False
        return True

    def _kill_suspend(self, st: St, fr: DynFrame):
        """other activities may run: only identity facts on stable locals survive"""
        stable = self._stable_locals(fr)
        dead = []
        for key in st.facts:
            if key[0] in ('isnone', 'is', 'lt', 'le', 'eq') and all(
                    dep in stable for dep in _fact_deps(key)
                    if dep not in ('None', 'GeneratorExit')) and \
                    not any('(' in part or '[' in part for part in key[1:]):
                # comparisons between never re-bound locals/constants cannot change
                continue
            if key[0] in ('truth', 'isnone', 'constflag') and len(key) == 2 and \
                    st.facts.get(('constflag', key[1])):
                continue  # a local holding a constant: only this frame can change it
            dead.append(key)
        for key in dead:
            del st.facts[key]

    def _stable_locals(self, fr: DynFrame) -> set:
        """parameters / locals that are bound at most once in the function"""
        if fr.single_assign is None:
            fn = fr.fn
            counts = {}
            node = fn.node
            args = node.args
            for arg in args.posonlyargs + args.args + args.kwonlyargs:
                counts[arg.arg] = 1
            if not isinstance(node, ast.Lambda):
                for sub in ast.walk(node):
                    if isinstance(sub, ast.Name) and isinstance(sub.ctx, (ast.Store, ast.Del)):
                        counts[sub.id] = counts.get(sub.id, 0) + 1
                    elif isinstance(sub, ast.ExceptHandler) and sub.name:
                        counts[sub.name] = counts.get(sub.name, 0) + 2
            fr.single_assign = {name for name, n in counts.items() if n == 1}
        return fr.single_assign

    def st_Return(self, stmt, st, fr):
        if fr.want_truth and stmt.value is not None:
            raised = []
            results = []
            for truth, s in self.eval_test(stmt.value, st, fr, raised, record='retval'):
                self._emit(s, 'return', stmt, fr, value=stmt.value, truth=truth)
                results.append((('return', stmt.value, truth), s))
            return results + raised
        sts, raised = self._simple([stmt.value], st, fr)
        for s in sts:
            self._emit(s, 'return', stmt, fr, value=stmt.value)
        return [(('return', stmt.value), s) for s in sts] + raised

    def st_Break(self, stmt, st, fr):
        return [(('break',), st)]

    def st_Continue(self, stmt, st, fr):
        return [(('continue',), st)]

    def st_Assert(self, stmt, st, fr):
        if not self.asserts:
            return [(NORMAL, st)]
        results = []
        raised = []
        outcomes = list(self.eval_test(stmt.test, st, fr, raised, record='assert'))
        # (whether what is known on this path decides the assertion: rules about steps that
        # must not be skipped ask for it)
        could_fail = any(value is False for value, _s in outcomes)
        for value, s in outcomes:
            if value is False:
                continue  # a failing kernel assertion is a guard, not an exit (rule D)
            self._emit(s, 'assert', stmt, fr, could_fail=could_fail)
            results.append((NORMAL, s))
        return results + raised

    def st_Raise(self, stmt, st, fr):
        if stmt.exc is None:
            if st.exc_stack:
                exc = st.exc_stack[-1]
            else:
                exc = Exc('ext:BaseException', tag='reraise-unknown')
            self._emit(st, 'raise', stmt, fr, exc=exc.cls, reraise=True)
            return [(('raise', exc), st)]
        sts, raised = self._simple([stmt.exc, stmt.cause], st, fr)
        results = []
        for s in sts:
            classes = self._raised_classes(stmt.exc, fr, s)
            for index, (cls, exc_obj) in enumerate(classes):
                target = s if index == len(classes) - 1 else s.fork()
                event = self._emit(target, 'raise', stmt, fr, exc=cls, reraise=False)
                exc = exc_obj if exc_obj is not None else Exc(cls, event)
                results.append((('raise', exc), target))
        return results + raised

    def _raised_classes(self, expr, fr, st) -> List[Tuple[str, Optional[Exc]]]:
        # `raise err` of the exception currently handled
        if isinstance(expr, ast.Name) and st.exc_stack:
            top = st.exc_stack[-1]
            if top.tag and isinstance(top.tag, tuple) and top.tag[0] == 'bound' \
                    and top.tag[1] == expr.id:
                return [(top.cls, top)]
        result = []
        for term in sorted(self.etype(expr, fr), key=repr):
            if term[0] in ('inst', 'cls'):
                result.append((term[1], None))
            elif term[0] == 'ext':
                result.append(('ext:' + term[1], None))
            elif term[0] == 'extfn':
                result.append(('ext:' + term[1].split('.')[-1], None))
            elif term[0] == 'none':
                continue
        if not result:
            result.append((USER_EXC, None))
        uniq = []
        for item in result:
            if item[0] not in [u[0] for u in uniq]:
                uniq.append(item)
        return uniq

    def st_If(self, stmt, st, fr):
        results = []
        raised = []
        for value, s in self.eval_test(stmt.test, st, fr, raised):
            block = stmt.body if value else stmt.orelse
            results.extend(self.exec_block(block, s, fr))
        return results + raised

    def st_While(self, stmt, st, fr):
        results = []
        frontier = [(st, 0)]
        while frontier:
            s, count = frontier.pop()
            raised = []
            for value, s2 in self.eval_test(stmt.test, s, fr, raised):
                if not value:
                    results.extend(self.exec_block(stmt.orelse, s2, fr))
                    continue
                if count >= self.loop_bound:
                    self.stats['truncated'] += 1
                    continue
                for out, s3 in self.exec_block(stmt.body, s2, fr):
                    if out[0] in ('normal', 'continue'):
                        frontier.append((s3, count + 1))
                    elif out[0] == 'break':
                        results.append((NORMAL, s3))
                    else:
                        results.append((out, s3))
            results.extend(raised)
        return results

    def st_For(self, stmt, st, fr):
        sts, raised = self._simple([stmt.iter], st, fr)
        results = list(raised)
        frontier = [(s, 0) for s in sts]
        source = _dotted(stmt.iter) if isinstance(stmt.iter, (ast.Name, ast.Attribute)) \
            else None
        while frontier:
            s, count = frontier.pop()
            # exhausted -- two loops over the same unchanged sequence run equally often
            known = s.facts.get(('itercount', source)) if source else None
            least = s.facts.get(('itermin', source), 0) if source else 0
            known, least = _count_from_truth(s, source, known, least)
            if source is None:
                # a fresh copy of a sequence has as many elements as the sequence had
                known, least = _count_from_truth(s, _copied_source(stmt.iter), known, least)
            if (known is None or known == count) and count >= least:
                done = s.fork()
                if source:
                    done.facts[('itercount', source)] = count
                self._emit(done, 'iter-end', stmt, fr)
                results.extend(self.exec_block(stmt.orelse, done, fr))
            if known is not None and count >= known:
                continue
            if count >= self.loop_bound:
                self.stats['truncated'] += 1
                continue
            self._emit(s, 'iter-next', stmt, fr, iter=stmt.iter)
            self._store(stmt.target, None, s, fr, stmt)
            for out, s3 in self.exec_block(stmt.body, s, fr):
                if out[0] in ('normal', 'continue'):
                    frontier.append((s3, count + 1))
                elif out[0] == 'break':
                    if source and ('itercount', source) not in s3.facts:
                        # left early: the sequence has at least this many elements
                        s3.facts[('itermin', source)] = max(
                            s3.facts.get(('itermin', source), 0), count + 1)
                    self._emit(s3, 'iter-stop', stmt, fr)
                    results.append((NORMAL, s3))
                else:
                    results.append((out, s3))
        return results

    def st_AsyncFor(self, stmt, st, fr):
        sts, raised = self._simple([stmt.iter], st, fr)
        results = list(raised)
        frontier = [(s, 0) for s in sts]
        types = self.etype(stmt.iter, fr)
        while frontier:
            s, count = frontier.pop()
            done = s.fork()
            for out, s2 in self.do_anext(stmt, types, done, fr, end=True):
                if out[0] == 'normal':
                    results.extend(self.exec_block(stmt.orelse, s2, fr))
                else:
                    results.append((out, s2))
            if count >= self.loop_bound:
                self.stats['truncated'] += 1
                continue
            for out, s2 in self.do_anext(stmt, types, s, fr, end=False):
                if out[0] != 'normal':
                    results.append((out, s2))
                    continue
                self._store(stmt.target, None, s2, fr, stmt)
                for out3, s3 in self.exec_block(stmt.body, s2, fr):
                    if out3[0] in ('normal', 'continue'):
                        frontier.append((s3, count + 1))
                    elif out3[0] == 'break':
                        # leaving the loop early closes the iterator (aclose)
                        self._emit(s3, 'aclose', stmt, fr)
                        results.append((NORMAL, s3))
                    else:
                        results.append((out3, s3))
        return results

    def st_Try(self, stmt, st, fr):
        caught = []
        for handler in stmt.handlers:
            caught.extend(self.te.exception_classes(handler.type, fr.fn.module))
        self._try_stack.append(caught)
        try:
            body_results = self.exec_block(stmt.body, st, fr)
        finally:
            self._try_stack.pop()
        after = []
        for out, s in body_results:
            if out[0] == 'raise':
                handler = self._match_handler(stmt, out[1], fr)
                if handler is None:
                    after.append((out, s))
                    continue
                exc = out[1]
                if handler.name:
                    exc = Exc(exc.cls, exc.origin, ('bound', handler.name, exc.tag))
                    self._kill_name(s, handler.name)
                self._emit(s, 'handler', handler, fr, exc=exc.cls, excobj=exc,
                           types=self.te.exception_classes(handler.type, fr.fn.module))
                s.exc_stack.append(exc)
                for hout, hs in self.exec_block(handler.body, s, fr):
                    if hs.exc_stack:
                        hs.exc_stack.pop()
                    after.append((hout, hs))
            elif out[0] == 'normal':
                after.extend(self.exec_block(stmt.orelse, s, fr))
            else:
                after.append((out, s))
        if not stmt.finalbody:
            return after
        final = []
        for out, s in after:
            self._emit(s, 'finally', stmt, fr, pending=out[0])
            for fout, fs in self.exec_block(stmt.finalbody, s, fr):
                if fout[0] == 'normal':
                    final.append((out, fs))
                else:
                    final.append((fout, fs))
        return final

    def _match_handler(self, stmt: ast.Try, exc: Exc, fr: DynFrame):
        for handler in stmt.handlers:
            for cls in self.te.exception_classes(handler.type, fr.fn.module):
                if self.p.is_subclass(exc.cls, cls):
                    return handler
        return None

    def _caught_exactly(self, cls: str) -> bool:
        """an enclosing try names exactly ``cls`` (not merely a base class of it)"""
        for level in self._try_stack:
            if cls in level:
                return True
        return False

    def _caught(self, cls: str) -> bool:
        """whether an enclosing try of the current function chain catches ``cls``"""
        for level in self._try_stack:
            for caught in level:
                if self.p.is_subclass(cls, caught):
                    return True
        return False

    # ------------------------------------------------------------------- with
    def _suppress_as_try(self, stmt, index, fr):
        """``with suppress(E, ...): body`` is ``try: body`` / ``except (E, ...): pass``"""
        item = stmt.items[index]
        call = item.context_expr
        if not (isinstance(call, ast.Call) and not call.keywords and call.args and
                ast.unparse(call.func) in ('suppress', 'contextlib.suppress')):
            return None
        binding = self.p.resolve_dotted(fr.fn.module, call.func)
        if not binding or binding[0] != 'ext' or binding[1] != 'contextlib.suppress':
            return None   # some other `suppress`
        cache = getattr(stmt, '_suppress_try', None)
        if cache is None:
            cache = {}
            stmt._suppress_try = cache
        if index not in cache:
            inner = stmt.body if index + 1 >= len(stmt.items) else [ast.copy_location(
                type(stmt)(items=stmt.items[index + 1:], body=stmt.body), stmt)]
            caught = call.args[0] if len(call.args) == 1 else ast.Tuple(
                elts=list(call.args), ctx=ast.Load())
            handler = ast.ExceptHandler(type=caught, name=None, body=[ast.Pass()])
            node = ast.Try(body=inner, handlers=[handler], orelse=[], finalbody=[])
            for sub in (handler, handler.body[0], node, caught):
                ast.copy_location(sub, call)
            ast.fix_missing_locations(node)
            cache[index] = node
        return cache[index]

    def st_With(self, stmt, st, fr, index=0):
        if index >= len(stmt.items):
            return self.exec_block(stmt.body, st, fr)
        item = stmt.items[index]
        as_try = self._suppress_as_try(stmt, index, fr) if item.optional_vars is None \
            else None
        if as_try is not None:
            return self.st_Try(as_try, st, fr)
        types = self.etype(item.context_expr, fr)
        sts, raised = self._simple([item.context_expr], st, fr)
        results = list(raised)

        def body(s):
            if item.optional_vars is not None:
                self._store(item.optional_vars, None, s, fr, stmt)
            return self.st_With(stmt, s, fr, index + 1)

        for s in sts:
            ctx_terms = [t for t in types if t[0] == 'ctx']
            if ctx_terms and len(types) == 1:
                term = ctx_terms[0]
                callee = Callee(self.p.functions[term[1]], term[2])
                results.extend(self.exec_ctx_with(stmt, callee, body, s, fr))
            elif types == frozenset({('ext', 'ExitStack')}):
                results.extend(self.exec_exitstack(stmt, item, body, s, fr))
            else:
                results.extend(self.exec_plain_with(stmt, item, types, body, s, fr))
        return results

    def exec_ctx_with(self, stmt, callee: Callee, body, st: St, fr: DynFrame):
        """inline a @contextmanager generator around the with-body"""
        sentinel = ('nohole', id(stmt), len(st.pending))
        st.pending.append(sentinel)
        self._emit(st, 'ctx-enter', stmt, fr, callee=callee)

        def hole(s: St, gfr: DynFrame, node):
            self._emit(s, 'hole', node, gfr, suspended='NEVER')
            mapped = []
            for out, s2 in body(s):
                self._emit(s2, 'hole-exit', node, gfr, outcome=out[0])
                if out[0] == 'raise':
                    s2.pending[-1] = ('raised',)
                    mapped.append((out, s2))
                else:
                    s2.pending[-1] = out
                    mapped.append((NORMAL, s2))
            return mapped

        gframe = DynFrame(Frame(callee.fn, callee.recv), depth=fr.depth + 1, hole=hole)
        self.stats['functions'].add(callee.key())
        saved = self._try_stack
        results = []
        for out, s in self.exec_block(callee.fn.node.body, st, gframe):
            pend = s.pending.pop() if s.pending else sentinel
            self._emit(s, 'ctx-exit', stmt, fr, callee=callee, outcome=out[0])
            if out[0] in ('normal', 'return'):
                if pend == sentinel:
                    raise AnalysisError('context manager %s ends without yielding (%s)'
                                        % (callee, fr.fn.where))
                if pend == ('raised',):
                    # the generator swallowed the exception
                    results.append((NORMAL, s))
                else:
                    results.append((pend, s))
            else:
                results.append((out, s))
        self._try_stack = saved
        return results

    def exec_exitstack(self, stmt, item, body, st: St, fr: DynFrame):
        """ExitStack: exits every entered context; may swallow what they swallow"""
        entered, managers = [], []
        # `enter = stack.enter_context` ... `enter(ctx)`: local names of the bound method
        aliases = {t.id for node in ast.walk(stmt) if isinstance(node, ast.Assign)
                   and isinstance(node.value, ast.Attribute)
                   and node.value.attr == 'enter_context'
                   for t in node.targets if isinstance(t, ast.Name)}
        for node in ast.walk(stmt):
            if isinstance(node, ast.Call) and node.args and (
                    (isinstance(node.func, ast.Attribute)
                     and node.func.attr == 'enter_context')
                    or (isinstance(node.func, ast.Name) and node.func.id in aliases)):
                for term in self.etype(node.args[0], fr):
                    if term[0] == 'ctx':
                        callee = Callee(self.p.functions[term[1]], term[2])
                        if callee not in entered:
                            entered.append(callee)
                    elif term[0] == 'inst' and self.p.find_method(term[1], '__exit__') \
                            and self.p.find_method(term[1], '__enter__'):
                        callee = Callee(self.p.find_method(term[1], '__exit__'), term[1])
                        if callee not in managers:
                            managers.append(callee)
                    else:
                        raise AnalysisError('enter_context of unresolved %s at %s:%d' % (
                            ast.unparse(node.args[0]), fr.fn.module.relpath, node.lineno))
        swallow = set()
        for callee in entered:
            summ = self.summary(callee)
            swallow |= self._ctx_swallows(callee, summ)
        for callee in managers:
            # a context manager class: __exit__ may answer true for these exceptions
            for cls in SIGNALS + (USER_EXC,):
                if self.summary(callee, 'exc:' + cls).ret_truth in ('may', 'always'):
                    swallow.add(cls)
        # `stack.callback(f, a, b)`: f(a, b) runs when the stack is left, whatever is
        # pending (last registered first), if the registration was reached on the path
        stack_name = item.optional_vars.id if isinstance(item.optional_vars, ast.Name) \
            else None
        callbacks = [node for node in ast.walk(stmt) if isinstance(node, ast.Call)
                     and isinstance(node.func, ast.Attribute) and node.func.attr == 'callback'
                     and isinstance(node.func.value, ast.Name)
                     and node.func.value.id == stack_name and node.args
                     and not any(isinstance(a, ast.Starred) for a in node.args)]
        self._emit(st, 'exitstack-enter', stmt, fr, entered=entered, managers=managers)
        entry = len(st.events)
        results = []
        outcomes = body(st)
        if callbacks:
            after = []
            for out, s in outcomes:
                current = [(out, s)]
                for registration in reversed(callbacks):
                    nxt = []
                    for out2, s2 in current:
                        if not any(e.node is registration and e.kind == 'call'
                                   for e in s2.events[entry:]):
                            nxt.append((out2, s2))
                            continue
                        for out3, s3 in self.exec_block(
                                [self._callback_stmt(registration)], s2, fr):
                            # an exception of the callback replaces what was pending
                            nxt.append((out3 if out3[0] == 'raise' else out2, s3))
                    current = nxt
                after.extend(current)
            outcomes = after
        for out, s in outcomes:
            self._emit(s, 'exitstack-exit', stmt, fr, entered=entered, managers=managers, outcome=out[0])
            if out[0] == 'raise' and any(self.p.is_subclass(out[1].cls, c) for c in swallow):
                s2 = s.fork()
                self._emit(s2, 'swallow', stmt, fr, exc=out[1].cls)
                results.append((NORMAL, s2))
            results.append((out, s))
        return results

    _CALLBACKS = {}

    def _callback_stmt(self, registration: ast.Call):
        """the statement ``stack.callback(f, a, k=v)`` stands for at exit: ``f(a, k=v)``;
        ``setattr(obj, 'name', v)`` as the store ``obj.name = v`` it is"""
        found = self._CALLBACKS.get(id(registration))
        if found is not None and found[0] is registration:
            return found[1]
        func, args = registration.args[0], list(registration.args[1:])
        if isinstance(func, ast.Name) and func.id == 'setattr' and len(args) == 3 and \
                not registration.keywords and isinstance(args[1], ast.Constant) and \
                isinstance(args[1].value, str) and args[1].value.isidentifier():
            stmt = ast.Assign(targets=[ast.Attribute(value=args[0], attr=args[1].value,
                                                     ctx=ast.Store())], value=args[2])
        else:
            stmt = ast.Expr(value=ast.Call(func=func, args=args,
                                           keywords=list(registration.keywords)))
        ast.copy_location(stmt, registration)
        ast.fix_missing_locations(stmt)
        self._CALLBACKS[id(registration)] = (registration, stmt)
        return stmt

    def _ctx_swallows(self, callee: Callee, summ: Summary) -> set:
        """exception classes for which the generator may end normally after the hole"""
        result = set()
        for path in summ.paths or ():
            if not path.normal:
                continue
            for index, event in enumerate(path.events):
                if event.kind == 'handler' and event.depth == 0 and \
                        event['excobj'].tag is not None and \
                        _tag_root(event['excobj'].tag) == 'hole':
                    result.add(event['exc'])
        return result

    def exec_plain_with(self, stmt, item, types, body, st: St, fr: DynFrame):
        enter, leave = [], []
        for term in types:
            if term[0] == 'inst':
                m_enter = self.p.find_method(term[1], '__enter__')
                m_exit = self.p.find_method(term[1], '__exit__')
                if m_enter:
                    enter.append(Callee(m_enter, term[1]))
                if m_exit:
                    leave.append(Callee(m_exit, term[1]))
        self._emit(st, 'with-enter', stmt, fr, callees=enter, expr=item.context_expr)
        modelled = bool(types) and all(t[0] == 'inst' for t in types) and \
            len(enter) == len(leave) == len(types) and \
            all(c.fn.kind == 'sync' for c in enter + leave)
        if not modelled:
            results = []
            for out, s in body(st):
                self._emit(s, 'with-exit', stmt, fr, callees=leave, outcome=out[0],
                           expr=item.context_expr)
                results.append((out, s))
            return results
        # a context manager class of the package: entering calls __enter__; leaving calls
        # __exit__ with what is pending, and a true result swallows it
        raised = []
        in_place = self.helpers and len(enter) == 1 and \
            fr.helper_depth < self.HELPER_DEPTH and not self.summary(enter[0]).cyclic and \
            self.summary(enter[0]).n_paths <= 48 and \
            self.summary(leave[0], 'none').n_paths <= 48
        manager = (len(st.events) - 1, item.context_expr, enter[0].recv)
        if in_place:
            entered = []
            for out, s in self._manager_frame(item, enter[0], st, fr, 'with-enter', None,
                                              manager):
                if out[0] == 'raise':
                    raised.append((out, s))
                else:
                    entered.append(s)
        else:
            entered = self._call_effect(item.context_expr, enter, [], st, fr, raised,
                                        how='with-enter')
        results = list(raised)
        for start in entered:
            for out, s in body(start):
                if out[0] == 'raise':
                    which = 'genexit' if out[1].cls == GENEXIT else 'exc:' + out[1].cls
                else:
                    which = 'none'
                self._emit(s, 'with-exit', stmt, fr, callees=leave, outcome=out[0],
                           expr=item.context_expr, which=which)
                if in_place:
                    for res, s2 in self._manager_frame(item, leave[0], s, fr, 'with-exit',
                                                       which, manager):
                        if res[0] == 'raise':
                            results.append((res, s2))
                        elif out[0] == 'raise' and res[0] == 'return' and \
                                len(res) > 2 and res[2]:
                            self._emit(s2, 'swallow', item.context_expr, fr,
                                       exc=out[1].cls)
                            results.append((NORMAL, s2))
                        else:
                            results.append((out, s2))
                else:
                    results.extend(self._with_exit(item, leave, out, s, fr, which))
        return results

    def _manager_frame(self, item, callee: Callee, st: St, fr: DynFrame, how, which,
                       manager):
        """run ``__enter__`` / ``__exit__`` of a context manager object in place (rule
        paths): same depth as the ``with`` statement, the frame tagged with the manager so
        that rules can follow its attributes to the constructor's arguments"""
        node = item.context_expr
        self._emit(st, 'enter', node, fr, callee=callee, how=how, which=which, expr=node)
        sub = DynFrame(Frame(callee.fn, callee.recv), depth=fr.depth,
                       assume=self.assume_for(callee, which) if which else None,
                       ptypes=self.ptypes_for(callee, which) if which else None,
                       want_truth=how == 'with-exit', helper_depth=fr.helper_depth + 1)
        sub.manager = manager
        saved = st.facts
        st.facts = dict(sub.assume) if sub.assume else {}
        self.stats['functions'].add(callee.key())
        results = []
        for out, s in self.exec_block(callee.fn.node.body, st, sub):
            s.facts = {k: v for k, v in saved.items() if not _fact_has_attr(k)}
            self._emit(s, 'leave', node, fr, callee=callee, how=how, outcome=out[0],
                       ret=out[1] if out[0] == 'return' else None)
            if out[0] not in ('normal', 'return', 'raise'):
                raise AnalysisError('break/continue escaping %s' % callee)
            results.append((out, s))
        return results

    def _with_exit(self, item, leave, pending, st: St, fr: DynFrame, which):
        """[(outcome, state)] after ``__exit__`` ran for the ``pending`` outcome"""
        node = item.context_expr
        results = []
        if fr.depth < self.max_depth and self.inline is not None and len(leave) == 1 and \
                self.inline(leave[0], fr.depth) and not self.summary(leave[0], which).cyclic:
            callee = leave[0]
            self._emit(st, 'enter', node, fr, callee=callee, how='with-exit', which=which,
                       expr=node)
            sub = DynFrame(Frame(callee.fn, callee.recv), depth=fr.depth + 1,
                           assume=self.assume_for(callee, which),
                           ptypes=self.ptypes_for(callee, which), want_truth=True)
            saved_facts = st.facts
            st.facts = dict(sub.assume) if sub.assume else {}
            self.stats['functions'].add(callee.key())
            for out, s in self.exec_block(callee.fn.node.body, st, sub):
                s.facts = {k: v for k, v in saved_facts.items()
                           if k[0] in ('isnone', 'is') and not _fact_has_attr(k)}
                self._emit(s, 'leave', node, fr, callee=callee, how='with-exit',
                           outcome=out[0], ret=out[1] if out[0] == 'return' else None)
                if out[0] == 'raise':
                    results.append((out, s))
                elif out[0] in ('normal', 'return'):
                    truth = out[2] if out[0] == 'return' and len(out) > 2 else False
                    if pending[0] == 'raise' and truth:
                        self._emit(s, 'swallow', node, fr, exc=pending[1].cls)
                        results.append((NORMAL, s))
                    else:
                        results.append((pending, s))
                else:
                    raise AnalysisError('break/continue escaping %s' % callee)
            return results
        summaries = [self.summary(c, which) for c in leave]
        raises = set()
        for summ in summaries:
            raises |= summ.may_raise
        for cls in sorted(raises):
            s = st.fork()
            event = self._emit(s, 'call', node, fr, exit=cls, callees=leave, externals=[],
                               how='with-exit', pure=False)
            self._kill_call_generic(s)
            results.append((('raise', Exc(cls, event)), s))
        if any(summ.returns for summ in summaries):
            self._emit(st, 'call', node, fr, exit='normal', callees=leave, externals=[],
                       how='with-exit', pure=False)
            self._kill_call_generic(st)
            if pending[0] == 'raise':
                truth = _join_truth([summ.ret_truth for summ in summaries])
                if truth in ('may', 'always'):
                    s2 = st.fork() if truth == 'may' else st
                    self._emit(s2, 'swallow', node, fr, exc=pending[1].cls)
                    results.append((NORMAL, s2))
                if truth in ('may', 'never'):
                    results.append((pending, st))
            else:
                results.append((pending, st))
        return results

    def st_AsyncWith(self, stmt, st, fr, index=0):
        if index >= len(stmt.items):
            return self.exec_block(stmt.body, st, fr)
        item = stmt.items[index]
        types = self.etype(item.context_expr, fr)
        sts, raised = self._simple([item.context_expr], st, fr)
        results = list(raised)
        enters, exits = [], []
        unresolved = False
        for term in sorted(types, key=repr):
            if term[0] == 'inst':
                m_enter = self.p.find_method(term[1], '__aenter__')
                m_exit = self.p.find_method(term[1], '__aexit__')
                if m_enter is not None and m_exit is not None:
                    enters.append(Callee(m_enter, term[1]))
                    exits.append(Callee(m_exit, term[1]))
                    continue
            unresolved = True
        if unresolved or not enters:
            self._unresolved(stmt, item.context_expr, fr)
        for s in sts:
            for out, s2 in self.do_suspend(stmt, 'aenter', enters, s, fr,
                                           expr=item.context_expr):
                if out[0] != 'normal':
                    results.append((out, s2))
                    continue
                if item.optional_vars is not None:
                    self._store(item.optional_vars, None, s2, fr, stmt)
                for bout, bs in self.st_AsyncWith(stmt, s2, fr, index + 1):
                    results.extend(self._aexit(stmt, item, exits, bout, bs, fr))
        return results

    def _aexit(self, stmt, item, exits, bout, bs: St, fr: DynFrame):
        if bout[0] == 'raise':
            which = 'genexit' if bout[1].cls == GENEXIT else 'exc:' + bout[1].cls
        else:
            which = 'none'
        results = []
        for out, s in self.do_suspend(stmt, 'aexit', exits, bs, fr, which=which,
                                      expr=item.context_expr, pending=bout):
            if out[0] != 'normal':
                results.append((out, s))
                continue
            if bout[0] == 'raise':
                truth = _join_truth([self.summary(c, which).ret_truth for c in exits])
                if truth in ('may', 'always'):
                    s2 = s.fork() if truth == 'may' else s
                    self._emit(s2, 'swallow', stmt, fr, exc=bout[1].cls)
                    results.append((NORMAL, s2))
                if truth in ('may', 'never'):
                    results.append((bout, s))
            else:
                results.append((bout, s))
        return results

    # ------------------------------------------------------------ suspension
    def _unresolved(self, node, expr, fr):
        entry = ('%s:%d' % (fr.fn.module.relpath, node.lineno), ast.unparse(expr)[:60],
                 fr.fn.qn)
        if entry not in self.unresolved:
            self.unresolved.append(entry)

    def resolve_awaitable(self, node, expr, fr: DynFrame, how: str):
        """(callees, base, user, plain) for the target of await / yield from"""
        types = self.etype(expr, fr)
        callees, base, user, plain, unresolved = [], False, False, False, False
        for term in sorted(types, key=repr):
            kind = term[0]
            if kind in ('coro', 'gen'):
                callees.append(Callee(self.p.functions[term[1]], term[2]))
            elif kind == 'inst':
                if term[1] == HIBERNATE:
                    base = True
                    continue
                name = '__await__' if how == 'await' else '__iter__'
                method = self.p.find_method(term[1], name) or \
                    self.p.find_method(term[1], '__await__')
                if method is not None:
                    callees.append(Callee(method, term[1]))
                else:
                    unresolved = True
            elif kind == 'awaitable':
                user = True
            elif kind in ('cont', 'tuple') and how == 'yield from':
                plain = True
            else:
                unresolved = True
        if unresolved:
            self._unresolved(node, expr, fr)
            user = True
        if user:
            entry = ('%s:%d' % (fr.fn.module.relpath, node.lineno), ast.unparse(expr)[:60])
            if entry not in self.user_sites:
                self.user_sites.append(entry)
        return callees, base, user, plain

    def do_suspend(self, node, how, callees, st: St, fr: DynFrame, base=False, user=False,
                   which=None, expr=None, pending=None):
        """
        A suspension site: emits the event and forks its exceptional exits

        The ``suspended`` datum is per exit: MUST / MAY / NEVER *for this continuation*.
        """
        site = (fr.fn.qn, getattr(node, 'lineno', 0), getattr(node, 'col_offset', 0), how)
        self.stats['susp_sites'].add(site)
        summaries = [self.summary(c, which) for c in callees]
        if how in ('await', 'yield from') and len(callees) == 1 and not base and \
                not user and isinstance(node, (ast.Await, ast.YieldFrom)) and \
                isinstance(node.value, ast.Call) and \
                (how == 'await') == (callees[0].fn.kind == 'coroutine') and \
                self._is_helper(node, callees[0], fr):
            results = []
            for out, s in self._inline_helper(node, node.value, how, callees[0], st, fr):
                if out[0] in ('normal', 'return'):
                    results.append((NORMAL, s))
                elif out[0] == 'raise':
                    results.append((out, s))
                else:
                    raise AnalysisError('break/continue escaping %s' % callees[0])
            return results
        if fr.depth < self.max_depth and self.inline is not None and len(callees) == 1 \
                and not base and not user and self.inline(callees[0], fr.depth) \
                and not summaries[0].cyclic:
            return self._inline_call(node, how, callees[0], st, fr, which, expr, pending)
        levels = [s.susp for s in summaries]
        if base:
            levels.append('MUST')
        if user:
            levels.append('MAY')
        if not levels:
            levels = ['MAY']
        if all(level == 'MUST' for level in levels):
            susp = 'MUST'
        elif all(level == 'NEVER' for level in levels):
            susp = 'NEVER'
        else:
            susp = 'MAY'
        raises = set()
        for summ in summaries:
            raises |= summ.may_raise
        if base or user:
            raises |= set(SIGNALS)
        if user:
            raises.add(USER_EXC)
            # user code may raise anything: every class an enclosing handler of this
            # function chain names specifically is a way out of its own
            for level in self._try_stack:
                for caught in level:
                    if caught.startswith('ext:') and caught in (
                            'ext:BaseException', 'ext:Exception', 'ext:object'):
                        continue
                    if any(self.p.is_subclass(caught, signal) or
                           self.p.is_subclass(signal, caught) for signal in SIGNALS):
                        continue
                    raises.add(caught)
        returns = base or user or any(s.returns for s in summaries) or not summaries
        results = []
        common = dict(how=how, callees=callees, base=base, user=user, susp=susp,
                      which=which, expr=expr, pending=pending)
        for cls in sorted(raises):
            s = st.fork()
            is_signal = cls in SIGNALS
            suspended = 'NEVER'
            if is_signal and susp != 'NEVER':
                suspended = 'MUST'  # a signal is only ever delivered to a parked activity
            elif susp != 'NEVER':
                suspended = 'MAY'
            event = self._emit(s, 'susp', node, fr, exit=cls, suspended=suspended, **common)
            if susp != 'NEVER':
                self._kill_suspend(s, fr)
            else:
                self._kill_call_generic(s)
            results.append((('raise', Exc(cls, event)), s))
        if returns:
            self._emit(st, 'susp', node, fr, exit='normal', suspended=susp, **common)
            if susp != 'NEVER':
                self._kill_suspend(st, fr)
            else:
                self._kill_call_generic(st)
            if how == 'await' and expr is not None and self._is_condition(expr, fr):
                # await post-condition: `await c` returns only while c holds
                # (licensed by the EXIT-PRED rule of C08)
                key, positive = self.atom_key(self._as_predicate(expr, fr) or expr, fr)
                if key is not None:
                    st.facts[key] = positive
            results.append((NORMAL, st))
        return results

    CONDITION = 'usim._primitives.condition.Condition'

    def _is_condition(self, expr, fr) -> bool:
        classes = self.te.classes_of(self.etype(expr, fr))
        types = self.etype(expr, fr)
        return bool(classes) and all(t[0] == 'inst' for t in types) and all(
            self.p.is_subclass(qn, self.CONDITION) for qn in classes)

    def _kill_call_generic(self, st: St):
        for key in [k for k in st.facts if _fact_has_attr(k)]:
            del st.facts[key]

    def _inline_call(self, node, how, callee: Callee, st: St, fr: DynFrame, which, expr,
                     pending):
        self._emit(st, 'enter', node, fr, callee=callee, how=how, which=which, expr=expr)
        sub = DynFrame(Frame(callee.fn, callee.recv), depth=fr.depth + 1,
                       assume=self.assume_for(callee, which) if which else None)
        saved_facts = st.facts
        st.facts = dict(sub.assume) if sub.assume else {}
        same_self = self._same_self(node, fr, callee)
        if same_self:
            # `self.helper()` / `super().m()`: `self` names the same object in both frames
            for key_, value in saved_facts.items():
                deps = _fact_deps(key_)
                if deps and all(d == 'self' or d.startswith('self.') for d in deps):
                    st.facts[key_] = value
        self.stats['functions'].add(callee.key())
        results = []
        for out, s in self.exec_block(callee.fn.node.body, st, sub):
            inner = s.facts
            s.facts = {k: v for k, v in saved_facts.items()
                       if k[0] in ('isnone', 'is') and not _fact_has_attr(k)}
            if same_self:
                for key_, value in inner.items():
                    deps = _fact_deps(key_)
                    if deps and all(d == 'self' or d.startswith('self.') for d in deps):
                        s.facts[key_] = value
            self._emit(s, 'leave', node, fr, callee=callee, how=how, outcome=out[0],
                       ret=out[1] if out[0] == 'return' else None)
            if out[0] in ('normal', 'return'):
                results.append((NORMAL, s))
            elif out[0] == 'raise':
                results.append((out, s))
            else:
                raise AnalysisError('break/continue escaping %s' % callee)
        return results

    HELPER_DEPTH = 3
    HELPER_PATHS = 10

    def _is_helper(self, node, callee: Callee, fr: DynFrame) -> bool:
        """a private helper of the same object / module that is inlined transparently"""
        if fr.helper_depth >= self.HELPER_DEPTH:
            return False
        fn = callee.fn
        if not self.helpers:
            # summaries run helpers in place only where a generator delegates to a private
            # generator of the same object (an ``__await__`` split into stages): whether the
            # whole must suspend depends on what the stages establish for each other
            if not (isinstance(node, ast.YieldFrom) and fn.kind == 'generator'
                    and fn.cls is not None):
                return False
        kinds = ('sync', 'coroutine', 'generator') if isinstance(node, ast.YieldFrom) \
            else ('sync', 'coroutine')
        if fn.kind not in kinds or fn.is_property or fn.is_classmethod:
            return False
        name = fn.name
        if not name.startswith('_') or (name.startswith('__') and name.endswith('__')):
            return False
        if callee.key() in self._helper_stack:
            return False
        if fn.is_static:
            # `self._helper(...)` / `Class._helper(...)` of the caller's own class
            call = node.value if isinstance(node, (ast.Await, ast.YieldFrom)) else node
            owner = self.p.enclosing_self_class(fr.fn)
            first = None
            if not isinstance(fr.fn.node, ast.Lambda) and fr.fn.cls is not None and \
                    not fr.fn.is_static:
                own = fr.fn.node.args.posonlyargs + fr.fn.node.args.args
                first = own[0].arg if own else None
            if not (isinstance(call, ast.Call) and isinstance(call.func, ast.Attribute)
                    and isinstance(call.func.value, ast.Name) and owner is not None
                    and fn.cls is not None and self.p.is_subclass(owner.qn, fn.cls.qn)
                    and call.func.value.id in ('self', fn.cls.name, owner.name, first)):
                return False
        elif fn.cls is not None:
            if not self._same_self(node, fr, callee) and \
                    not self._same_receiver(node, fr, callee) and \
                    not self._manager_owner(node, fr, callee):
                return False
        else:
            if fn.module is not fr.fn.module or fn.parent is not None:
                return False
        if any(d.split('.')[-1] == 'abstractmethod' for d in fn.decorators):
            return False
        summ = self.summary(callee)
        # only small helpers: inlining multiplies paths
        limit = self.HELPER_PATHS
        if isinstance(node, ast.YieldFrom) and fn.kind == 'generator':
            limit = max(limit, 24)  # stages of one ``__await__``: few, but loops with exits
        return not summ.cyclic and summ.n_paths <= limit

    def _bind_arguments(self, call: ast.Call, callee: Callee, enter_index: int) -> dict:
        params = callee.fn.node.args.posonlyargs + callee.fn.node.args.args
        if callee.fn.cls is not None and not callee.fn.is_static:
            params = params[1:]
        bindings = {}
        for param, arg in zip(params, call.args):
            if isinstance(arg, ast.Starred):
                break
            bindings[param.arg] = (arg, enter_index)
        names = {p.arg for p in params + callee.fn.node.args.kwonlyargs}
        for kw in call.keywords:
            if kw.arg in names:
                bindings[kw.arg] = (kw.value, enter_index)
        # defaults of parameters that were not given
        defaults = callee.fn.node.args.defaults
        offset = len(callee.fn.node.args.posonlyargs + callee.fn.node.args.args) - \
            len(defaults)
        allp = callee.fn.node.args.posonlyargs + callee.fn.node.args.args
        for index, default in enumerate(defaults):
            pname = allp[offset + index].arg
            if pname not in bindings and pname in names:
                bindings[pname] = (default, enter_index)
        return bindings

    def _inline_helper(self, node, call: ast.Call, how, callee: Callee, st: St, fr: DynFrame,
                       want_truth=False):
        """
        Run a private helper as if its body stood in the caller (same depth); parameter
        types, bindings and facts about ``self`` follow the call.  Returns
        [(outcome, state)] with outcome ('normal'|'return', value node, truth?) / raise.
        """
        enter_index = len(st.events)
        bindings = self._bind_arguments(call, callee, enter_index)
        self._emit(st, 'enter', node, fr, callee=callee, how='helper', which=None,
                   expr=None, args=bindings)
        ptypes = {name: self._arg_type(arg, st, fr) for name, (arg, _i) in bindings.items()}
        sub = DynFrame(Frame(callee.fn, callee.recv), depth=fr.depth, ptypes=ptypes,
                       want_truth=want_truth, bindings=bindings,
                       helper_depth=fr.helper_depth + 1)
        saved = st.facts
        st.facts = {}
        same_self = callee.fn.cls is not None
        if fr.manager is not None and not self._same_self(node, fr, callee):
            same_self = False  # `self` of the manager object is not `self` of its owner
        renames = [(arg.id, name) for name, (arg, _i) in bindings.items()
                   if isinstance(arg, ast.Name)]
        for key_, value in saved.items():
            deps = _fact_deps(key_)
            if same_self and deps and all(d == 'self' or d.startswith('self.') for d in deps):
                st.facts[key_] = value
            for old, new in renames:
                if key_[0] == 'isnone' and key_[1] == old:
                    st.facts[('isnone', new)] = value
                elif key_[0] == 'truth' and key_[1] == old:
                    st.facts[('truth', new)] = value
                elif key_[0] == 'is' and old in key_[1:]:
                    other = key_[2] if key_[1] == old else key_[1]
                    if other == 'GeneratorExit' or (same_self and other.startswith('self.')):
                        first, second = sorted((other, new))
                        st.facts[('is', first, second)] = value
        for name, (arg, _index) in bindings.items():
            if self._never_none(arg, fr):
                st.facts[('isnone', name)] = False  # `type(err)`, a fresh instance
            if isinstance(arg, ast.Constant) and (
                    arg.value is None or isinstance(arg.value, (bool, int, float, str))):
                # a helper told what to do by a constant (`self._resume(..., throw=True)`):
                # its tests of that parameter are decided (a store to the name drops the
                # facts like any others)
                st.facts[('truth', name)] = bool(arg.value)
                st.facts[('isnone', name)] = arg.value is None
        self.stats['functions'].add(callee.key())
        self._helper_stack.append(callee.key())
        results = []
        try:
            for out, s in self.exec_block(callee.fn.node.body, st, sub):
                inner = s.facts
                # the caller's facts: locals survive, facts about attributes only if the
                # helper could not have changed them (it re-established them otherwise)
                s.facts = {k: v for k, v in saved.items() if not _fact_has_attr(k)}
                if same_self:
                    for key_, value in inner.items():
                        deps = _fact_deps(key_)
                        if deps and all(d == 'self' or d.startswith('self.') for d in deps):
                            s.facts[key_] = value
                self._emit(s, 'leave', node, fr, callee=callee, how='helper',
                           outcome=out[0], ret=out[1] if out[0] == 'return' else None,
                           ret_fid=sub.fid, ret_bind=bindings, inner_facts=inner)
                results.append((out, s))
        finally:
            self._helper_stack.pop()
        return results

    def _manager_owner(self, node, fr: DynFrame, callee: Callee) -> bool:
        """inside __enter__/__exit__ of a context manager object run in place: the call is
        ``self.<field>.m(...)`` where the constructor put the ``self`` of the ``with``
        statement's method into ``<field>`` -- a private method of the object that uses the
        manager, run in place as well"""
        if fr.manager is None:
            return False
        call = node.value if isinstance(node, (ast.Await, ast.YieldFrom)) else node
        if not (isinstance(call, ast.Call) and isinstance(call.func, ast.Attribute)
                and isinstance(call.func.value, ast.Attribute)
                and isinstance(call.func.value.value, ast.Name)
                and call.func.value.value.id == 'self'):
            return False
        field = call.func.value.attr
        _pos, ctor, cls_qn = fr.manager
        init = self.p.find_method(cls_qn, '__init__')
        if init is None or not isinstance(ctor, ast.Call) or ctor.keywords:
            return False
        binding = self.p.resolve_dotted(fr.fn.module, ctor.func) \
            if isinstance(ctor.func, (ast.Name, ast.Attribute)) else None
        if not (binding and binding[0] == 'class' and binding[1] == cls_qn):
            return False
        params = [a.arg for a in (init.node.args.posonlyargs + init.node.args.args)[1:]]
        for stmt in init.node.body:
            if isinstance(stmt, ast.Assign) and len(stmt.targets) == 1 and \
                    isinstance(stmt.targets[0], ast.Attribute) and \
                    stmt.targets[0].attr == field and isinstance(stmt.value, ast.Name) and \
                    stmt.value.id in params:
                position = params.index(stmt.value.id)
                return position < len(ctor.args) and \
                    isinstance(ctor.args[position], ast.Name) and \
                    ctor.args[position].id == 'self'
        return False

    def _same_self(self, node, fr: DynFrame, callee: Callee) -> bool:
        """the call is ``self.m(...)`` / ``super().m(...)`` with both selves named `self`"""
        call = node
        if isinstance(node, (ast.Await, ast.YieldFrom)):
            call = node.value
        if not (isinstance(call, ast.Call) and isinstance(call.func, ast.Attribute)):
            return False
        recv = call.func.value
        is_self = isinstance(recv, ast.Name) and recv.id == 'self'
        is_super = isinstance(recv, ast.Call) and isinstance(recv.func, ast.Name) and \
            recv.func.id == 'super'
        if not (is_self or is_super):
            return False
        args = callee.fn.node.args.posonlyargs + callee.fn.node.args.args
        # the caller's `self`: its own first parameter, or that of the enclosing method
        method = fr.fn
        while method is not None and method.cls is None and method.parent is not None:
            method = method.parent
        cargs = []
        if method is not None and not isinstance(method.node, ast.Lambda):
            cargs = method.node.args.posonlyargs + method.node.args.args
        return bool(args) and args[0].arg == 'self' and bool(cargs) and \
            cargs[0].arg == 'self'

    def _same_receiver(self, node, fr: DynFrame, callee: Callee) -> bool:
        """``cls._helper(...)`` inside a method whose first parameter is ``cls`` too
        (metaclass and class methods): the same object under the same name"""
        call = node.value if isinstance(node, (ast.Await, ast.YieldFrom)) else node
        if not (isinstance(call, ast.Call) and isinstance(call.func, ast.Attribute)
                and isinstance(call.func.value, ast.Name)):
            return False
        method = fr.fn
        while method is not None and method.cls is None and method.parent is not None:
            method = method.parent
        if method is None or method.cls is None or isinstance(method.node, ast.Lambda) or \
                method.is_static or callee.fn.is_static:
            return False
        cargs = method.node.args.posonlyargs + method.node.args.args
        args = callee.fn.node.args.posonlyargs + callee.fn.node.args.args
        return bool(args) and bool(cargs) and args[0].arg == cargs[0].arg == \
            call.func.value.id and callee.fn.cls is not None and \
            self.p.is_subclass(method.cls.qn, callee.fn.cls.qn)

    def do_anext(self, stmt, types, st: St, fr: DynFrame, end: bool):
        callees, unresolved = [], False
        for term in sorted(types, key=repr):
            terms = [term]
            if term[0] == 'islice':
                terms = list(term[1:])
            for sub in terms:
                if sub[0] == 'agen':
                    callees.append(Callee(self.p.functions[sub[1]], sub[2]))
                elif sub[0] == 'inst':
                    method = self.p.find_method(sub[1], '__aiter__')
                    if method is not None and method.kind == 'asyncgen':
                        callees.append(Callee(method, sub[1]))
                    else:
                        unresolved = True
                else:
                    unresolved = True
        if unresolved or not callees:
            self._unresolved(stmt, stmt.iter, fr)
        summaries = [self.summary(c) for c in callees]
        islice = any(t[0] == 'islice' for t in types)
        if end:
            levels = [s.end_susp or 'MAY' for s in summaries] or ['MAY']
            if islice:
                levels.append('NEVER')  # islice stops without a step when exhausted
        else:
            levels = [s.step or 'MAY' for s in summaries] or ['MAY']
        if all(level == 'MUST' for level in levels):
            susp = 'MUST'
        elif all(level == 'NEVER' for level in levels):
            susp = 'NEVER'
        else:
            susp = 'MAY'
        raises = set()
        for summ in summaries:
            raises |= summ.may_raise
        if not summaries:
            raises |= set(SIGNALS)
        results = []
        common = dict(how='anext-end' if end else 'anext', callees=callees, base=False,
                      user=False, susp=susp, which=None, expr=stmt.iter, pending=None)
        site = (fr.fn.qn, stmt.lineno, stmt.col_offset, common['how'])
        self.stats['susp_sites'].add(site)
        for cls in sorted(raises):
            s = st.fork()
            suspended = 'MUST' if (cls in SIGNALS and susp != 'NEVER') else (
                'MAY' if susp != 'NEVER' else 'NEVER')
            event = self._emit(s, 'susp', stmt, fr, exit=cls, suspended=suspended, **common)
            self._kill_suspend(s, fr)
            results.append((('raise', Exc(cls, event)), s))
        self._emit(st, 'susp', stmt, fr, exit='normal', suspended=susp, **common)
        self._kill_suspend(st, fr)
        results.append((NORMAL, st))
        return results

    # ------------------------------------------------------------ expressions
    def ev(self, expr, sts: List[St], fr: DynFrame, raised: list) -> List[St]:
        """evaluate ``expr`` in every state; exceptional results are put into ``raised``"""
        if expr is None or not sts:
            return sts
        kind = type(expr)
        if kind in (ast.Name, ast.Constant):
            return sts
        method = getattr(self, 'ex_' + kind.__name__, None)
        if method is not None:
            return method(expr, sts, fr, raised)
        for child in ast.iter_child_nodes(expr):
            if isinstance(child, ast.expr):
                sts = self.ev(child, sts, fr, raised)
        return sts

    def ex_Lambda(self, expr, sts, fr, raised):
        return sts

    def ex_Attribute(self, expr, sts, fr, raised):
        sts = self.ev(expr.value, sts, fr, raised)
        if isinstance(expr.ctx, ast.Load) and not (
                isinstance(expr.value, ast.Name) and expr.value.id == 'self') and \
                self._caught_exactly('ext:AttributeError'):
            # `try: x = obj.attr / except AttributeError:` -- the lookup may fail
            for s in sts:
                r = s.fork()
                event = self._emit(r, 'getattr', expr, fr, exit='ext:AttributeError')
                raised.append((('raise', Exc('ext:AttributeError', event)), r))
                # ... or succeed: the guarded lookup is on record either way
                self._emit(s, 'getattr', expr, fr, exit='normal')
        if isinstance(expr.ctx, ast.Load):
            props = self._property_callees(expr, fr)
            if props:
                out = []
                for s in sts:
                    out.extend(self._call_effect(expr, props, [], s, fr, raised,
                                                 how='property'))
                return out
        return sts

    def _property_callees(self, expr: ast.Attribute, fr: DynFrame) -> List[Callee]:
        key = ('prop', id(expr), fr.frame.key())
        if key in self._resolve_cache:
            return self._resolve_cache[key]
        result = []
        base = self.etype(expr.value, fr)
        for qn in self.te.classes_of(base):
            method = self.p.find_method(qn, expr.attr)
            if method is not None and method.is_property:
                result.append(Callee(method, qn))
        self._resolve_cache[key] = result
        return result

    def ex_Call(self, expr, sts, fr, raised):
        func = expr.func
        if isinstance(func, ast.Name) and sts:
            # a local bound to `functools.partial(f, ...)` on this path: the call is `f(...)`
            plain, out = [], []
            for s in sts:
                target = self._partial_target(expr, s, fr)
                if target is None:
                    plain.append(s)
                else:
                    out.extend(self.ex_Call(target, [s], fr, raised))
            if out:
                return out + (self.ex_Call_plain(expr, plain, fr, raised) if plain else [])
        if isinstance(func, ast.Attribute) and isinstance(func.value, ast.Name) and \
                func.value.id == 'self' and len(expr.args) == 1 and not expr.keywords:
            target = self._class_accessor_target(expr, fr)
            if target is not None:
                return self.ev(target, sts, fr, raised)
        return self.ex_Call_plain(expr, sts, fr, raised)

    def _class_accessor_target(self, expr, fr: DynFrame):
        """``self.acc(obj)`` where the class of the receiver binds ``acc`` to an accessor of
        the operator module (``methodcaller('m', ...)``, ``attrgetter('a')``,
        ``itemgetter(i)``, possibly wrapped in ``staticmethod``): the plain expression it
        computes for ``obj``.  Decided per receiver class, so overrides in subclasses count."""
        recv = fr.frame.recv
        if recv is None or isinstance(expr.args[0], ast.Starred) or \
                self.p.find_method(recv, expr.func.attr) is not None:
            return None
        found = self.p.find_class_attr(recv, expr.func.attr)
        value = found[1] if found else None
        owner = self.p.classes.get(found[0]) if found else None
        if isinstance(value, ast.Call) and isinstance(value.func, ast.Name) and \
                value.func.id == 'staticmethod' and len(value.args) == 1:
            value = value.args[0]
        if not (isinstance(value, ast.Call) and owner is not None and value.args and all(
                isinstance(a, ast.Constant) for a in value.args) and all(
                kw.arg is not None and isinstance(kw.value, ast.Constant)
                for kw in value.keywords)):
            return None
        binding = self.p.resolve_dotted(owner.module, value.func)
        kind = binding[1] if binding and binding[0] == 'ext' else None
        key = (id(expr), id(value))
        cached = self._PARTIALS.get(key)
        if cached is not None and cached[1] is expr and cached[2] is value:
            return cached[0]
        subject = expr.args[0]
        first = value.args[0].value
        if kind == 'operator.methodcaller' and isinstance(first, str) and first.isidentifier():
            new = ast.Call(func=ast.Attribute(value=subject, attr=first, ctx=ast.Load()),
                           args=list(value.args[1:]), keywords=list(value.keywords))
        elif kind == 'operator.attrgetter' and len(value.args) == 1 and \
                isinstance(first, str) and all(p.isidentifier() for p in first.split('.')):
            new = subject
            for part in first.split('.'):
                new = ast.Attribute(value=new, attr=part, ctx=ast.Load())
        elif kind == 'operator.itemgetter' and len(value.args) == 1:
            new = ast.Subscript(value=subject, slice=value.args[0], ctx=ast.Load())
        else:
            return None
        for fresh in ast.walk(new):
            if isinstance(fresh, ast.expr) and not hasattr(fresh, 'lineno'):
                ast.copy_location(fresh, expr)
        new.origin_node = expr
        self._PARTIALS[key] = (new, expr, value)
        return new

    _PARTIALS = {}

    def _partial_target(self, expr, st: St, fr: DynFrame):
        """
        the call that ``name(b)`` stands for when, on this path, the local ``name`` was last
        bound to a callable expression and what that captured was not re-bound since:
        ``partial(f, a, k=v)`` -> ``f(a, b, k=v)``; a bound method / function / the branch
        taken of ``g if c else h`` -> that expression called with the same arguments
        """
        name = expr.func.id
        store = position = None
        for position in range(len(st.events) - 1, -1, -1):
            event = st.events[position]
            if event.kind == 'store' and event.data.get('local') and \
                    event.data.get('path') == name and event.data.get('fid') == fr.fid:
                store = event
                break
        if store is None or store.data.get('aug') is not None:
            return None
        value = store.data.get('value')
        while isinstance(value, ast.IfExp):
            # the branch taken on this path
            taken = None
            for event in reversed(st.events[:position]):
                if event.kind == 'test' and event.node is value.test and \
                        event.data.get('fid') == fr.fid:
                    taken = event.data.get('value')
                    break
            if taken is None:
                return None
            value = value.body if taken else value.orelse
        func, args, keywords = None, [], []
        if isinstance(value, ast.Call) and value.args and not any(
                isinstance(a, ast.Starred) for a in value.args) and all(
                kw.arg is not None for kw in value.keywords):
            binding = self.p.resolve_dotted(fr.fn.module, value.func)
            if binding and binding[0] == 'ext' and binding[1] == 'functools.partial':
                func, args, keywords = value.args[0], list(value.args[1:]), \
                    list(value.keywords)
        if func is None and isinstance(value, ast.Call) and value.args and \
                isinstance(value.args[0], ast.Constant) and \
                isinstance(value.args[0].value, str) and len(expr.args) == 1 and \
                not expr.keywords and not isinstance(expr.args[0], ast.Starred):
            binding = self.p.resolve_dotted(fr.fn.module, value.func)
            if binding and binding[0] == 'ext' and binding[1] == 'operator.methodcaller' \
                    and value.args[0].value.isidentifier() and not any(
                        isinstance(a, ast.Starred) for a in value.args):
                # methodcaller('m', x, k=v)(obj)  ==  obj.m(x, k=v)
                subject = expr.args[0]
                key = (id(expr), id(value))
                found = self._PARTIALS.get(key)
                if found is None or found[1] is not expr or found[2] is not value:
                    captured = {n.id for part in list(value.args[1:])
                                + [kw.value for kw in value.keywords]
                                for n in ast.walk(part) if isinstance(n, ast.Name)}
                    for event in st.events[position + 1:]:
                        if event.kind == 'store' and event.data.get('local') and \
                                event.data.get('fid') == fr.fid and \
                                event.data.get('path') in captured:
                            return None
                    call = ast.Call(func=ast.Attribute(value=subject,
                                                       attr=value.args[0].value,
                                                       ctx=ast.Load()),
                                    args=list(value.args[1:]), keywords=list(value.keywords))
                    ast.copy_location(call, expr)
                    ast.copy_location(call.func, expr)
                    call.origin_node = expr
                    found = (call, expr, value)
                    self._PARTIALS[key] = found
                return found[0]
        if func is None and isinstance(value, ast.Attribute):
            base = value
            while isinstance(base, ast.Attribute):
                base = base.value
            is_super = isinstance(base, ast.Call) and isinstance(base.func, ast.Name) and \
                base.func.id == 'super' and not base.args
            if isinstance(base, ast.Name) or is_super:
                func = value
        if func is None and isinstance(value, ast.Name) and value.id != name:
            binding = self.p.resolve_dotted(fr.fn.module, value)
            if binding and binding[0] == 'func':
                func = value
        if func is None:
            return None
        captured = {n.id for part in [func] + args + [kw.value for kw in keywords]
                    for n in ast.walk(part) if isinstance(n, ast.Name)}
        for event in st.events[position + 1:]:
            if event.kind == 'store' and event.data.get('local') and \
                    event.data.get('fid') == fr.fid and event.data.get('path') in captured:
                return None
        key = (id(expr), id(func))
        found = self._PARTIALS.get(key)
        if found is None or found[1] is not expr or found[2] is not func:
            call = ast.Call(func=func, args=args + list(expr.args),
                            keywords=keywords + list(expr.keywords))
            ast.copy_location(call, expr)
            call.origin_node = expr
            found = (call, expr, func)
            self._PARTIALS[key] = found
        return found[0]

    def ex_Call_plain(self, expr, sts, fr, raised):
        func = expr.func
        if isinstance(func, ast.Attribute):
            sts = self.ev(func.value, sts, fr, raised)
        elif not isinstance(func, ast.Name):
            sts = self.ev(func, sts, fr, raised)
        for arg in expr.args:
            sts = self.ev(arg, sts, fr, raised)
        for kw in expr.keywords:
            sts = self.ev(kw.value, sts, fr, raised)
        key = ('call', id(expr), fr.frame.key())
        found = self._resolve_cache.get(key)
        if found is None:
            found = self.te.resolve_callees(expr, fr.frame)
            self._resolve_cache[key] = found
        callees, externals = found
        site = (fr.fn.qn, expr.lineno, expr.col_offset)
        self.stats['call_sites'].add(site)
        if callees or all(e[0] != 'unknown' for e in externals):
            self.stats['call_sites_resolved'].add(site)
        out = []
        for s in sts:
            out.extend(self._call_effect(expr, callees, externals, s, fr, raised, how='call'))
        return out

    def _call_effect(self, node, callees, externals, st: St, fr: DynFrame, raised, how):
        sync = [c for c in callees if c.fn.kind in ('sync', 'lambda')]
        if how == 'call' and len(callees) == 1 and not externals and \
                callees[0].fn.kind == 'sync' and isinstance(node, ast.Call) and \
                self._is_helper(node, callees[0], fr):
            results = []
            for out, s in self._inline_helper(node, node, how, callees[0], st, fr):
                if out[0] in ('normal', 'return'):
                    results.append(s)
                elif out[0] == 'raise':
                    raised.append((out, s))
                else:
                    raise AnalysisError('break/continue escaping %s' % callees[0])
            return results
        # creating a coroutine / generator object runs nothing
        if (fr.depth < self.max_depth and self.inline is not None and len(sync) == 1
                and len(callees) == 1 and not externals
                and how in ('call', 'property', 'with-enter')
                and self.inline(sync[0], fr.depth) and not self.summary(sync[0]).cyclic):
            results = []
            for out, s in self._inline_call(node, how, sync[0], st, fr, None, None, None):
                if out[0] == 'normal':
                    results.append(s)
                else:
                    raised.append((out, s))
            return results
        raises = set()
        pure = True
        for callee in sync:
            summ = self.summary(callee)
            raises |= summ.may_raise
            if callee.fn.name in ('__init__', '__new__'):
                pure &= self._init_is_local(callee)
            else:
                pure &= self.is_pure(callee)
        for ext in externals:
            if ext[0] in ('construct', 'callable'):
                continue
            name = ext[-1].split('.')[-1]
            if name not in PURE_EXTERNALS and not _is_exception_name(name):
                pure = False
            key = ext[:3] if ext[0] == 'extmeth' else (ext[0], name)
            cls = EXTERNAL_RAISES.get(key)
            if cls is not None and self._caught(cls):
                raises.add(cls)
        if how == 'call' and isinstance(node, ast.Call) and \
                _bound_attrs(node.func, fr.fn) and \
                _bound_attrs(node.func, fr.fn) <= {'send', 'throw'} \
                and self._caught('ext:StopIteration'):
            raises.add('ext:StopIteration')
            # a generator driven by hand may raise anything
            if self._caught('ext:BaseException'):
                raises.add('ext:BaseException')
        results = []
        common = dict(callees=callees, externals=externals, how=how, pure=pure)
        for cls in sorted(raises):
            s = st.fork()
            event = self._emit(s, 'call', node, fr, exit=cls, **common)
            if not pure:
                self._kill_call_node(s, node, callees if not externals else None, externals, fr)
            raised.append((('raise', Exc(cls, event)), s))
        returns = not sync or any(
            self.summary(c).returns or c.fn.name in ('__init__', '__new__') for c in sync)
        if returns:
            self._emit(st, 'call', node, fr, exit='normal', **common)
            if not pure:
                self._kill_call_node(st, node, callees if not externals else None, externals, fr)
            results.append(st)
        return results

    def _kill_call_node(self, st, node, callees=None, externals=None, fr=None):
        if isinstance(node, ast.Call) or callees:
            self._kill_call(st, node, callees, externals, fr)
        else:
            self._kill_call_generic(st)

    def _may_be_container(self, dep: str, fr) -> bool:
        try:
            tree = ast.parse(dep, mode='eval').body
        except SyntaxError:
            return True
        types = self.te.expr_type(tree, fr.frame)
        for term in types:
            if term[0] in ('cont', 'tuple', 'unknown', 'awaitable'):
                return True
            if term[0] == 'ext' and term[1] in _CONTAINER_TYPES:
                return True
            if term[0] == 'ext' and term[1].startswith('result-of'):
                return True
        return False

    def ex_Await(self, expr, sts, fr, raised):
        sts = self.ev(expr.value, sts, fr, raised)
        return self._suspend_expr(expr, expr.value, 'await', sts, fr, raised)

    def ex_YieldFrom(self, expr, sts, fr, raised):
        chosen = self._delegate_chooser(expr, fr)
        if chosen is not None:
            # `yield from self._steps()` with a plain private method that only *picks* what
            # to delegate to: run it in place, then delegate to what it returned
            call, callee = chosen
            for arg in call.args:
                sts = self.ev(arg, sts, fr, raised)
            out = []
            for st in sts:
                for res, s in self._inline_helper(call, call, 'call', callee, st, fr):
                    if res[0] == 'raise':
                        raised.append((res, s))
                    elif res[0] == 'return' and res[1] is not None:
                        inner = DynFrame(Frame(callee.fn, callee.recv), depth=fr.depth,
                                         helper_depth=fr.helper_depth + 1)
                        out.extend(self._suspend_expr(expr, res[1], 'yield from', [s],
                                                      inner, raised))
                    else:
                        raise AnalysisError('%s delegates to nothing at %s:%d' % (
                            callee, fr.fn.module.relpath, expr.lineno))
            return out
        sts = self.ev(expr.value, sts, fr, raised)
        return self._suspend_expr(expr, expr.value, 'yield from', sts, fr, raised)

    def _delegate_chooser(self, expr, fr: DynFrame):
        call = expr.value
        if not (isinstance(call, ast.Call) and isinstance(call.func, ast.Attribute)
                and not call.keywords):
            return None
        key = ('call', id(call), fr.frame.key())
        found = self._resolve_cache.get(key)
        if found is None:
            found = self.te.resolve_callees(call, fr.frame)
            self._resolve_cache[key] = found
        callees, externals = found
        if len(callees) != 1 or externals or callees[0].fn.kind != 'sync':
            return None
        saved = self.helpers
        self.helpers = True  # also inside summaries: the choice decides what suspends
        try:
            if not self._is_helper(call, callees[0], fr):
                return None
        finally:
            self.helpers = saved
        return call, callees[0]

    def _suspend_expr(self, node, target, how, sts, fr, raised):
        callees, base, user, plain = self.resolve_awaitable(node, target, fr, how)
        if plain and not callees and not base and not user:
            for s in sts:
                self._emit(s, 'yield', node, fr, plain=True, suspended='NEVER')
            return sts
        out = []
        for s in sts:
            for res, s2 in self.do_suspend(node, how, callees, s, fr, base=base, user=user,
                                           expr=target):
                if res[0] == 'normal':
                    out.append(s2)
                else:
                    raised.append((res, s2))
        return out

    def ex_Yield(self, expr, sts, fr, raised):
        sts = self.ev(expr.value, sts, fr, raised)
        kind = fr.fn.kind
        out = []
        if kind == 'ctxgen':
            hole = fr.hole or (lambda s, f, n: self._default_hole_ev(s, f, n))
            for s in sts:
                for res, s2 in hole(s, fr, expr):
                    self._kill_suspend(s2, fr)
                    if res[0] == 'normal':
                        out.append(s2)
                    else:
                        raised.append((res, s2))
            return out
        if kind == 'generator' and fr.fn.name in ('__await__', '__iter__') and \
                fr.fn.cls is not None and fr.fn.cls.qn == HIBERNATE:
            for s in sts:
                for res, s2 in self.do_suspend(expr, 'yield', [], s, fr, base=True):
                    if res[0] == 'normal':
                        out.append(s2)
                    else:
                        raised.append((res, s2))
            return out
        if kind == 'asyncgen':
            for s in sts:
                closed = s.fork()
                event = self._emit(closed, 'yield', expr, fr, exit=GENEXIT, suspended='MAY')
                self._kill_suspend(closed, fr)
                raised.append((('raise', Exc(GENEXIT, event)), closed))
                self._emit(s, 'yield', expr, fr, exit='normal', suspended='MAY')
                self._kill_suspend(s, fr)
                out.append(s)
            return out
        for s in sts:
            self._emit(s, 'yield', expr, fr, plain=True, suspended='NEVER')
            out.append(s)
        return out

    def _default_hole_ev(self, st, fr, node):
        self._emit(st, 'hole', node, fr, suspended='MAY')
        return self._default_hole(st, fr, node)

    def ex_BoolOp(self, expr, sts, fr, raised):
        # value position: every operand may or may not be evaluated (after the first)
        done = []
        current = sts
        for index, value in enumerate(expr.values):
            current = self.ev(value, current, fr, raised)
            if index < len(expr.values) - 1:
                done.extend(s.fork() for s in current)
        return done + current

    def ex_IfExp(self, expr, sts, fr, raised):
        out = []
        for s in sts:
            for value, s2 in self.eval_test(expr.test, s, fr, raised):
                branch = expr.body if value else expr.orelse
                out.extend(self.ev(branch, [s2], fr, raised))
        return out

    def _dunder(self, expr, operand, name, sts, fr, raised):
        key = ('dunder', id(expr), name, fr.frame.key())
        callees = self._resolve_cache.get(key)
        if callees is None:
            callees = []
            for qn in self.te.classes_of(self.etype(operand, fr)):
                method = self.p.find_method(qn, name)
                if method is not None:
                    callees.append(Callee(method, qn))
            self._resolve_cache[key] = callees
        if not callees:
            return sts
        out = []
        for s in sts:
            out.extend(self._call_effect(expr, callees, [], s, fr, raised, how='dunder'))
        return out

    def ex_BinOp(self, expr, sts, fr, raised):
        from .types import _BINOP
        sts = self.ev(expr.left, sts, fr, raised)
        sts = self.ev(expr.right, sts, fr, raised)
        return self._dunder(expr, expr.left, _BINOP[type(expr.op).__name__], sts, fr, raised)

    def ex_Compare(self, expr, sts, fr, raised):
        from .types import _CMPOP
        sts = self.ev(expr.left, sts, fr, raised)
        for comp in expr.comparators:
            sts = self.ev(comp, sts, fr, raised)
        if len(expr.ops) == 1:
            name = _CMPOP.get(type(expr.ops[0]).__name__)
            if name:
                return self._dunder(expr, expr.left, name, sts, fr, raised)
        return sts

    def ex_UnaryOp(self, expr, sts, fr, raised):
        sts = self.ev(expr.operand, sts, fr, raised)
        if isinstance(expr.op, ast.Invert):
            return self._dunder(expr, expr.operand, '__invert__', sts, fr, raised)
        return sts

    def ex_Subscript(self, expr, sts, fr, raised):
        sts = self.ev(expr.value, sts, fr, raised)
        sts = self.ev(expr.slice, sts, fr, raised)
        if isinstance(expr.ctx, ast.Load) and not isinstance(expr.slice, ast.Slice):
            for cls in ('ext:IndexError', 'ext:KeyError'):
                if self._caught(cls):
                    base = self.etype(expr.value, fr)
                    is_dict = any(t[0] == 'cont' and 'ict' in t[1] for t in base)
                    if (cls == 'ext:KeyError') == is_dict:
                        for s in sts:
                            r = s.fork()
                            event = self._emit(r, 'subscript', expr, fr, exit=cls)
                            raised.append((('raise', Exc(cls, event)), r))
        return sts

    def _comprehension(self, expr, elts, sts, fr, raised):
        """a comprehension is the loop it abbreviates: the same iteration, store and
        test events as a ``for`` statement, with the generator clause as loop node"""
        gens = expr.generators
        for gen in gens:
            if not hasattr(gen, 'lineno'):
                for attr in ('lineno', 'col_offset', 'end_lineno', 'end_col_offset'):
                    setattr(gen, attr, getattr(gen.iter, attr, None))
        sts = self.ev(gens[0].iter, sts, fr, raised)
        out = []
        simple = len(gens) == 1 and not gens[0].is_async
        produced = ('comp-elements', str(id(expr)))
        source = _dotted(gens[0].iter) if simple and isinstance(
            gens[0].iter, (ast.Name, ast.Attribute)) else None
        for s in sts:
            s.facts.pop(produced, None)
            frontier = [(s, 0)]
            while frontier:
                cur, count = frontier.pop()
                known = cur.facts.get(('itercount', source)) if source else None
                least = cur.facts.get(('itermin', source), 0) if source else 0
                known, least = _count_from_truth(cur, source, known, least)
                if (known is None or known == count) and count >= least:
                    done = cur.fork()
                    if source:
                        done.facts[('itercount', source)] = count
                    if simple:
                        self._emit(done, 'iter-end', gens[0], fr, comprehension=expr)
                    out.append(done)
                if known is not None and count >= known:
                    continue
                if count >= self.loop_bound:
                    continue
                if simple:
                    self._emit(cur, 'iter-next', gens[0], fr, iter=gens[0].iter,
                               comprehension=expr)
                    self._store(gens[0].target, None, cur, fr, expr)
                inner = [cur]
                for gen in gens[1:]:
                    inner = self.ev(gen.iter, inner, fr, raised)
                passed = []
                for cand in inner:
                    # conditions may filter the element: both outcomes
                    states = [(True, cand)]
                    for gen in gens:
                        for cond in gen.ifs:
                            following = []
                            for value, state in states:
                                if not value:
                                    following.append((False, state))
                                    continue
                                following.extend(self.eval_test(cond, state, fr, raised))
                            states = following
                    for value, state in states:
                        if value:
                            passed.append(state)
                        else:
                            # filtered out: on to the next element
                            frontier.append((state, count + 1))
                before = len(passed)
                for elt in elts:
                    passed = self.ev(elt, passed, fr, raised)
                if simple:
                    for p in passed:
                        self._emit(p, 'element', elts[0], fr, comprehension=expr)
                        p.facts[produced] = True
                frontier.extend((p, count + 1) for p in passed)
        return out

    def ex_ListComp(self, expr, sts, fr, raised):
        return self._comprehension(expr, [expr.elt], sts, fr, raised)

    ex_SetComp = ex_GeneratorExp = ex_ListComp

    def ex_DictComp(self, expr, sts, fr, raised):
        return self._comprehension(expr, [expr.key, expr.value], sts, fr, raised)

    def ex_NamedExpr(self, expr, sts, fr, raised):
        sts = self.ev(expr.value, sts, fr, raised)
        for s in sts:
            self._store(expr.target, expr.value, s, fr, expr)
        return sts

    # ------------------------------------------------------------------ tests
    def eval_test(self, expr, st: St, fr: DynFrame, raised: list, record='test') \
            -> List[Tuple[bool, St]]:
        """evaluate ``expr`` in boolean context: list of (truth value, state)"""
        if isinstance(expr, ast.UnaryOp) and isinstance(expr.op, ast.Not):
            return [(not value, s) for value, s in
                    self.eval_test(expr.operand, st, fr, raised, record)]
        if isinstance(expr, ast.BoolOp):
            is_and = isinstance(expr.op, ast.And)
            results = []
            current = [st]
            for index, value in enumerate(expr.values):
                nxt = []
                for s in current:
                    for truth, s2 in self.eval_test(value, s, fr, raised, record):
                        if truth != is_and:
                            results.append((truth, s2))  # short circuit
                        elif index == len(expr.values) - 1:
                            results.append((truth, s2))
                        else:
                            nxt.append(s2)
                current = nxt
            return results
        if isinstance(expr, ast.Constant):
            return [(bool(expr.value), st)]
        if isinstance(expr, ast.NamedExpr):
            sts = self.ev(expr, [st], fr, raised)
            out = []
            for s in sts:
                out.extend(self.eval_test(expr.target, s, fr, raised, record))
            return out
        named = self._as_predicate(expr, fr)
        if named is not None:
            # `if self._is_ready():` with `def _is_ready(self): return a >= b`
            return self.eval_test(named, st, fr, raised, record)
        enum_truth = self._enum_test(expr, st, fr)
        if enum_truth is not None:
            results = []
            enum_key, enum_positive = self.atom_key(expr, fr)
            for s in self.ev(expr, [st], fr, raised):
                self._emit(s, record, expr, fr, key=enum_key,
                           value=enum_truth, known=True, positive=enum_positive,
                           why='member of an enumeration held by a local')
                results.append((enum_truth, s))
            return results
        if self._always_true_instance(expr, fr):
            # a fresh record (typing.NamedTuple with fields) is a non-empty tuple
            results = []
            for s in self.ev(expr, [st], fr, raised):
                self._emit(s, record, expr, fr, key=None, value=True, known=True,
                           positive=True, why='non-empty record')
                results.append((True, s))
            return results
        quantified = self._quantifier_test(expr, st, fr, raised, record)
        if quantified is not None:
            return quantified
        inlined = self._truth_inline(expr, st, fr, raised, record)
        if inlined is not None:
            return inlined
        key, positive = self.atom_key(expr, fr)
        sts = self.ev(expr, [st], fr, raised)
        results = []
        static = self._static_isinstance(expr, fr)
        if static is not None:
            for s in sts:
                self._emit(s, record, expr, fr, key=key, value=static, known=True,
                           positive=positive, why='static types')
                results.append((static, s))
            return results
        for s in sts:
            if key is not None and key[0] == 'is' and key not in s.facts:
                disjoint = self._identity_disjoint(expr, fr)
                if disjoint:
                    value = not positive
                    self._emit(s, record, expr, fr, key=key, value=value, known=True,
                               positive=positive, why='disjoint types')
                    results.append((value, s))
                    continue
            if key is not None and key in s.facts:
                value = s.facts[key] == positive
                self._emit(s, record, expr, fr, key=key, value=value, known=True,
                           positive=positive)
                results.append((value, s))
                continue
            implied = self._implied(key, positive, s) if key is not None else None
            if implied is None and key is not None and key[0] == 'truth' and \
                    isinstance(expr, ast.Name) and \
                    s.facts.get(('isnone', expr.id)) is False and \
                    self._exception_object(expr, fr):
                # an exception object that is not None is true (`x if x else y` for
                # `x or y` after `x is not None`): BaseException has no __bool__/__len__
                implied = positive
            if implied is None and key is not None and key[0] == 'is':
                implied = self._identity_impossible(key, positive, s, fr)
            if implied is not None:
                self._emit(s, record, expr, fr, key=key, value=implied, known=True,
                           positive=positive)
                if key is not None:
                    s.facts[key] = implied == positive
                results.append((implied, s))
                continue
            other = s.fork()
            self._emit(s, record, expr, fr, key=key, value=True, known=False,
                       positive=positive)
            self._emit(other, record, expr, fr, key=key, value=False, known=False,
                       positive=positive)
            if key is not None:
                s.facts[key] = positive
                other.facts[key] = not positive
            results.append((True, s))
            results.append((False, other))
        return results

    def _exception_object(self, expr, fr: DynFrame) -> bool:
        """the static type of ``expr`` is instances of exception classes only, none of
        which brings a ``__bool__``/``__len__`` of the package"""
        try:
            terms = self.etype(expr, fr)
        except Exception:
            return False
        classes = []
        for term in terms:
            if term[0] == 'none':
                continue
            if term[0] == 'inst':
                classes.append(term[1])
            elif term[0] == 'ext' and not term[1].startswith('result-of'):
                classes.append('ext:' + term[1])
            else:
                return False
        if not classes:
            return False
        for cls in classes:
            if not self.p.is_subclass(cls, 'ext:BaseException'):
                return False
            if not cls.startswith('ext:') and any(
                    self.p.find_method(cls, name) is not None
                    for name in ('__bool__', '__len__')):
                return False
        return True

    def _never_none(self, expr, fr: DynFrame) -> bool:
        """``type(x)`` and the construction of an instance of a class of the package are
        never None"""
        if not isinstance(expr, ast.Call) or not isinstance(expr.func,
                                                            (ast.Name, ast.Attribute)):
            return False
        if isinstance(expr.func, ast.Name) and expr.func.id == 'type' and \
                len(expr.args) == 1 and not expr.keywords:
            try:
                return self.p.resolve_dotted(fr.frame.fn.module, expr.func) in (
                    None, ('ext', 'builtins.type'), ('ext', 'type'))
            except Exception:
                return False
        try:
            binding = self.p.resolve_dotted(fr.frame.fn.module, expr.func)
        except Exception:
            return False
        return bool(binding) and binding[0] == 'class'

    def _enum_member(self, expr, fn):
        """(class, member) when ``expr`` names a member of an enumeration of the package
        (``Colour.RED``), as written in function ``fn``"""
        if not isinstance(expr, ast.Attribute) or fn is None or \
                not isinstance(expr.value, (ast.Name, ast.Attribute)):
            return None
        try:
            binding = self.p.resolve_dotted(fn.module, expr.value)
        except Exception:
            return None
        if not binding or binding[0] != 'class':
            return None
        info = self.p.classes.get(binding[1])
        if info is None or expr.attr not in info.attrs or not any(
                entry in ('ext:enum.Enum', 'ext:enum.IntEnum', 'ext:enum.Flag',
                          'ext:enum.IntFlag') for entry in info.mro):
            return None
        return binding[1], expr.attr

    def _enum_test(self, expr, st: St, fr: DynFrame):
        """``x is Colour.RED`` / ``x == Colour.RED`` (or the negated forms) for a local
        known to hold one member of that enumeration: the truth of the test, else None"""
        if not (isinstance(expr, ast.Compare) and len(expr.ops) == 1 and isinstance(
                expr.ops[0], (ast.Is, ast.IsNot, ast.Eq, ast.NotEq))):
            return None
        left, right = expr.left, expr.comparators[0]
        for local, other in ((left, right), (right, left)):
            if not isinstance(local, ast.Name):
                continue
            held = st.facts.get(('enumval', local.id))
            asked = self._enum_member(other, fr.frame.fn)
            if held is None or asked is None or held[0] != asked[0]:
                continue
            same = held == asked
            return same if isinstance(expr.ops[0], (ast.Is, ast.Eq)) else not same
        return None

    def _always_true_instance(self, expr, fr: DynFrame) -> bool:
        """``Record(...)``: the construction of a typing.NamedTuple record of the package
        that has at least one field and defines neither ``__bool__`` nor ``__len__``"""
        if not isinstance(expr, ast.Call) or not isinstance(expr.func,
                                                            (ast.Name, ast.Attribute)):
            return False
        from . import rules
        try:
            binding = self.p.resolve_dotted(fr.frame.fn.module, expr.func)
        except Exception:
            return False
        if not binding or binding[0] != 'class':
            return False
        fields = rules.record_fields(self.p, binding[1])
        return bool(fields) and self.p.find_method(binding[1], '__bool__') is None and \
            self.p.find_method(binding[1], '__len__') is None

    def _implied(self, key, positive, st: St) -> Optional[bool]:
        """truth value implied by other facts (only a few sound rules)"""
        if key[0] == 'isnone':
            # X is Y (Y not None) known true => X is not None
            for other, value in st.facts.items():
                if other[0] == 'is' and value and key[1] in other[1:] and \
                        'None' not in other[1:]:
                    return not positive
        if key[0] == 'is':
            # X is None known true => X is not <anything else named>
            for name in key[1:]:
                none_key = ('isnone', name)
                if st.facts.get(none_key) is True:
                    return not positive
        if key[0] == 'truth':
            none_key = ('isnone', key[1])
            if st.facts.get(none_key) is True:
                return not positive
        return None

    TRUTH_DEPTH = 4

    _PREDICATES = {}

    def _as_predicate(self, expr, fr: DynFrame):
        """
        the expression a *named predicate* stands for: ``self._p(x)`` where ``_p`` is a
        side-effect free method of the same object whose whole body is ``return <expr>``;
        parameters are replaced by the (simple) arguments.  None otherwise.
        """
        if not (isinstance(expr, ast.Call) and isinstance(expr.func, ast.Attribute)
                and isinstance(expr.func.value, ast.Name) and not expr.keywords):
            return None
        key = ('call', id(expr), fr.frame.key())
        found = self._resolve_cache.get(key)
        if found is None:
            found = self.te.resolve_callees(expr, fr.frame)
            self._resolve_cache[key] = found
        callees, externals = found
        if len(callees) != 1 or externals:
            return None
        callee = callees[0]
        fn = callee.fn
        if fn.kind != 'sync' or fn.is_property or fn.is_static or fn.is_classmethod or \
                fn.cls is None or not (self._same_self(expr, fr, callee)
                                       or self._same_receiver(expr, fr, callee)):
            return None
        body = [stmt for stmt in fn.node.body
                if not (isinstance(stmt, ast.Expr) and isinstance(stmt.value, ast.Constant))]
        if len(body) != 1 or not isinstance(body[0], ast.Return) or body[0].value is None:
            return None
        params = [a.arg for a in fn.node.args.posonlyargs + fn.node.args.args][1:]
        if len(params) != len(expr.args) or fn.node.args.vararg or fn.node.args.kwarg or \
                not all(isinstance(a, (ast.Name, ast.Attribute, ast.Constant))
                        for a in expr.args):
            return None
        value = body[0].value
        # only plain order comparisons: identity / isinstance predicates are decided with
        # the types and identities of the arguments by running the helper inline
        if not (isinstance(value, ast.Compare) and len(value.ops) == 1 and isinstance(
                value.ops[0], (ast.Lt, ast.LtE, ast.Gt, ast.GtE))) or any(
                isinstance(n, ast.Call) for n in ast.walk(value)):
            return None
        import copy
        bound = dict(zip(params, expr.args))
        receiver = expr.func.value.id
        own = (fn.node.args.posonlyargs + fn.node.args.args)[0].arg

        class Sub(ast.NodeTransformer):
            def visit_Name(self, node):
                if node.id in bound:
                    return copy.deepcopy(bound[node.id])
                if node.id == own:
                    return ast.Name(id=receiver, ctx=node.ctx)
                return node
        result = Sub().visit(copy.deepcopy(body[0].value))
        for node in ast.walk(result):
            ast.copy_location(node, expr)
        return result

    def _quantifier_test(self, expr, st: St, fr: DynFrame, raised, record):
        """
        ``any(c(v) for v in S)`` / ``all(...)`` in boolean context is the search loop it
        abbreviates: one tested element per iteration, stopping at the first decisive one
        """
        if not (isinstance(expr, ast.Call) and isinstance(expr.func, ast.Name)
                and expr.func.id in ('any', 'all') and len(expr.args) == 1
                and not expr.keywords
                and isinstance(expr.args[0], (ast.GeneratorExp, ast.ListComp))
                and len(expr.args[0].generators) == 1
                and not expr.args[0].generators[0].is_async):
            return None
        comp = expr.args[0]
        gen = comp.generators[0]
        decisive = expr.func.id == 'any'    # the element truth that ends the search
        if not hasattr(gen, 'lineno'):
            for attr in ('lineno', 'col_offset', 'end_lineno', 'end_col_offset'):
                setattr(gen, attr, getattr(gen.iter, attr, None))
        key, positive = self.atom_key(expr, fr)
        results = []
        source = _dotted(gen.iter) if isinstance(gen.iter, (ast.Name, ast.Attribute)) \
            else None
        for s in self.ev(gen.iter, [st], fr, raised):
            frontier = [(s, 0)]
            while frontier:
                cur, count = frontier.pop()
                known = cur.facts.get(('itercount', source)) if source else None
                least = cur.facts.get(('itermin', source), 0) if source else 0
                known, least = _count_from_truth(cur, source, known, least)
                if (known is None or known == count) and count >= least:
                    done = cur.fork()
                    if source:
                        done.facts[('itercount', source)] = count
                    self._emit(done, 'iter-end', gen, fr, comprehension=comp)
                    self._emit(done, record, expr, fr, key=key, value=not decisive,
                               positive=positive, quantifier=True)
                    results.append((not decisive, done))
                if known is not None and count >= known:
                    continue
                if count >= self.loop_bound:
                    self.stats['truncated'] += 1
                    continue
                self._emit(cur, 'iter-next', gen, fr, iter=gen.iter, comprehension=comp)
                self._store(gen.target, None, cur, fr, comp)
                states = [(True, cur)]
                for cond in gen.ifs:
                    following = []
                    for value, state in states:
                        if not value:
                            following.append((False, state))
                        else:
                            following.extend(self.eval_test(cond, state, fr, raised))
                    states = following
                for passed, state in states:
                    if not passed:
                        frontier.append((state, count + 1))
                        continue
                    for truth, s2 in self.eval_test(comp.elt, state, fr, raised):
                        if truth == decisive:
                            if source and ('itercount', source) not in s2.facts:
                                s2.facts[('itermin', source)] = max(
                                    s2.facts.get(('itermin', source), 0), count + 1)
                            self._emit(s2, 'iter-stop', gen, fr, comprehension=comp)
                            self._emit(s2, record, expr, fr, key=key, value=decisive,
                                       positive=positive, quantifier=True)
                            results.append((decisive, s2))
                        else:
                            frontier.append((s2, count + 1))
        return results

    def _truth_inline(self, expr, st: St, fr: DynFrame, raised, record):
        """
        ``if self.helper(...)``: run the (single, sync) helper inline and take the truth
        of what it returns; parameter types and identity facts follow the arguments
        """
        if not isinstance(expr, ast.Call) or fr.depth >= self.TRUTH_DEPTH:
            return None
        key = ('call', id(expr), fr.frame.key())
        found = self._resolve_cache.get(key)
        if found is None:
            found = self.te.resolve_callees(expr, fr.frame)
            self._resolve_cache[key] = found
        callees, externals = found
        if len(callees) != 1 or externals or callees[0].fn.kind != 'sync':
            return None
        callee = callees[0]
        if callee.fn.is_property or callee.fn.name in ('__init__', '__new__'):
            return None
        busy = ('truth',) + callee.key()
        if busy in self._busy or self.summary(callee).cyclic:
            return None
        if self._is_helper(expr, callee, fr):
            func = expr.func
            sts = [st]
            if isinstance(func, ast.Attribute):
                sts = self.ev(func.value, sts, fr, raised)
            for arg in expr.args:
                sts = self.ev(arg, sts, fr, raised)
            for kw in expr.keywords:
                sts = self.ev(kw.value, sts, fr, raised)
            results = []
            call_key = ('truth', _txt(expr))
            for s in sts:
                for out, s2 in self._inline_helper(expr, expr, 'helper', callee, s, fr,
                                                   want_truth=True):
                    if out[0] == 'raise':
                        raised.append((out, s2))
                        continue
                    truth = out[2] if out[0] == 'return' and len(out) > 2 else False
                    options = [True, False] if truth == 'unknown' else [bool(truth)]
                    for index, value in enumerate(options):
                        target = s2 if index == len(options) - 1 else s2.fork()
                        self._emit(target, record, expr, fr, key=call_key, value=value,
                                   known=truth != 'unknown', positive=True, inlined=True)
                        results.append((value, target))
            return results
        func = expr.func
        sts = [st]
        if isinstance(func, ast.Attribute):
            sts = self.ev(func.value, sts, fr, raised)
        for arg in expr.args:
            sts = self.ev(arg, sts, fr, raised)
        for kw in expr.keywords:
            sts = self.ev(kw.value, sts, fr, raised)
        params = callee.fn.node.args.posonlyargs + callee.fn.node.args.args
        if callee.recv is not None and callee.fn.cls is not None and not callee.fn.is_static:
            params = params[1:]
        ptypes, renames = {}, []
        for param, arg in zip(params, expr.args):
            if isinstance(arg, ast.Starred):
                break
            ptypes[param.arg] = self._arg_type(arg, st, fr)
            if isinstance(arg, ast.Name):
                renames.append((arg.id, param.arg))
        by_name = {p.arg: p for p in params + callee.fn.node.args.kwonlyargs}
        for kw in expr.keywords:
            if kw.arg in by_name:
                ptypes[kw.arg] = self._arg_type(kw.value, st, fr)
                if isinstance(kw.value, ast.Name):
                    renames.append((kw.value.id, kw.arg))
        results = []
        self._busy.add(busy)
        try:
            for s in sts:
                self._emit(s, 'enter', expr, fr, callee=callee, how='truth', which=None,
                           expr=None)
                saved = s.facts
                s.facts = {}
                same_self = self._same_self(expr, fr, callee)
                for param, arg in zip(params, expr.args):
                    if not isinstance(arg, ast.Starred) and self._never_none(arg, fr):
                        s.facts[('isnone', param.arg)] = False
                for kw in expr.keywords:
                    if kw.arg in by_name and self._never_none(kw.value, fr):
                        s.facts[('isnone', kw.arg)] = False
                for key_, value in saved.items():
                    for old, new in renames:
                        if key_[0] == 'isnone' and key_[1] == old:
                            s.facts[('isnone', new)] = value
                        elif key_[0] == 'is' and old in key_[1:]:
                            other = key_[2] if key_[1] == old else key_[1]
                            if other in ('GeneratorExit',) or (
                                    same_self and other.startswith('self.')):
                                first, second = sorted((other, new))
                                s.facts[('is', first, second)] = value
                sub = DynFrame(Frame(callee.fn, callee.recv), depth=fr.depth + 1,
                               ptypes=ptypes, want_truth=True)
                self.stats['functions'].add(callee.key())
                written, unknown_effects = self.mod_of(callee)
                for out, s2 in self.exec_block(callee.fn.node.body, s, sub):
                    # the caller's facts survive unless the callee may have written what
                    # they speak about
                    s2.facts = {k: v for k, v in saved.items()
                                if not _fact_has_attr(k) or (
                                    not unknown_effects and '(' not in ''.join(k[1:])
                                    and not (_fact_attr_names(k) & written))}
                    self._emit(s2, 'leave', expr, fr, callee=callee, how='truth',
                               outcome=out[0])
                    call_key = ('truth', _txt(expr))
                    if out[0] == 'return':
                        truth = out[2] if len(out) > 2 else False
                        if truth == 'unknown':
                            other = s2.fork()
                            self._emit(s2, record, expr, fr, key=call_key, value=True,
                                       known=False, positive=True, inlined=True)
                            self._emit(other, record, expr, fr, key=call_key, value=False,
                                       known=False, positive=True, inlined=True)
                            results.append((True, s2))
                            results.append((False, other))
                        else:
                            self._emit(s2, record, expr, fr, key=call_key,
                                       value=bool(truth), known=True, positive=True,
                                       inlined=True)
                            results.append((bool(truth), s2))
                    elif out[0] == 'normal':
                        self._emit(s2, record, expr, fr, key=call_key, value=False,
                                   known=True, positive=True, inlined=True)
                        results.append((False, s2))
                    elif out[0] == 'raise':
                        raised.append((out, s2))
                    else:
                        raise AnalysisError('break/continue escaping %s' % callee)
        finally:
            self._busy.discard(busy)
        return results

    def _static_isinstance(self, expr, fr: DynFrame) -> Optional[bool]:
        """``isinstance(x, T)`` decided from the static (or path-given) class of x"""
        if not (isinstance(expr, ast.Call) and isinstance(expr.func, ast.Name)
                and expr.func.id == 'isinstance' and len(expr.args) == 2):
            return None
        subject = self.etype(expr.args[0], fr)
        classes = []
        for term in subject:
            if term[0] == 'inst':
                classes.append(term[1])
            elif term[0] == 'ext' and not term[1].startswith('result-of'):
                classes.append('ext:' + term[1])
            else:
                return None
        if not classes:
            return None
        targets = self.te.exception_classes(expr.args[1], fr.fn.module)
        if any(t.startswith('ext:?') for t in targets):
            return None
        verdicts = set()
        for cls in classes:
            if any(self.p.is_subclass(cls, t) for t in targets):
                verdicts.add(True)
            elif any(self.p.is_subclass(t, cls) for t in targets) and cls not in SIGNALS:
                return None  # could be an instance of the subclass
            else:
                verdicts.add(False)
        if len(verdicts) == 1:
            return verdicts.pop()
        return None

    def _arg_type(self, arg, st: St, fr: DynFrame):
        """static type of an argument; a handler-bound name has the path's exception class"""
        bound = None
        if st.exc_stack and isinstance(st.exc_stack[-1].tag, tuple) and \
                st.exc_stack[-1].tag[0] == 'bound':
            bound = st.exc_stack[-1]
        if bound is not None:
            name = bound.tag[1]
            cls = bound.cls
            if isinstance(arg, ast.Name) and arg.id == name:
                if cls.startswith('ext:'):
                    return frozenset({('ext', cls[4:])})
                return frozenset({('inst', cls)})
            if isinstance(arg, ast.Call) and isinstance(arg.func, ast.Name) and \
                    arg.func.id == 'type' and len(arg.args) == 1 and \
                    isinstance(arg.args[0], ast.Name) and arg.args[0].id == name:
                if cls.startswith('ext:'):
                    return frozenset({('extfn', cls[4:])})
                return frozenset({('cls', cls)})
        return self.etype(arg, fr)

    def _identity_disjoint(self, expr, fr: DynFrame) -> bool:
        """``a is b`` where the static types of a and b cannot be the same object"""
        if not (isinstance(expr, ast.Compare) and len(expr.ops) == 1):
            return False
        left = self.etype(expr.left, fr)
        right = self.etype(expr.comparators[0], fr)

        def classes(ts):
            result = []
            for term in ts:
                if term[0] == 'inst':
                    result.append(term[1])
                elif term[0] == 'ext' and not term[1].startswith('result-of'):
                    result.append('ext:' + term[1])
                else:
                    return None
            return result or None

        lcls, rcls = classes(left), classes(right)
        if lcls is None or rcls is None:
            return False
        for a in lcls:
            for b in rcls:
                if a == b:
                    return False
                # the signal classes are enumerated one by one, hence exact
                exact = a in SIGNALS and b in SIGNALS
                if not exact and (self.p.is_subclass(a, b) or self.p.is_subclass(b, a)):
                    return False
        return True

    def _identity_impossible(self, key, positive, st: St, fr: DynFrame) -> Optional[bool]:
        """
        ``err is wake_up`` cannot hold when the handled exception's class differs from
        the exact class of the locally constructed object it is compared with
        """
        if not st.exc_stack:
            return None
        top = st.exc_stack[-1]
        if not (isinstance(top.tag, tuple) and top.tag[0] == 'bound'):
            return None
        name = top.tag[1]
        if name not in key[1:]:
            return None
        other = key[2] if key[1] == name else key[1]
        if not other.isidentifier():
            return None
        types = self.te.lookup_name(other, fr.frame)
        if not types or not all(term[0] == 'inst' for term in types):
            return None
        if any(term[1] == top.cls for term in types):
            return None
        return not positive

    def _stable_attrs(self) -> frozenset:
        """attribute names that are only ever bound in constructors (program wide): an
        alias taken of such an attribute keeps naming what the attribute names"""
        found = self._pure.get(('stable-attrs',))
        if found is None:
            rebound = set()
            for fn in self.p.functions.values():
                if isinstance(fn.node, ast.Lambda) or fn.name in ('__init__', '__new__'):
                    continue
                for node in ast.walk(fn.node):
                    if isinstance(node, ast.Attribute) and \
                            isinstance(node.ctx, (ast.Store, ast.Del)):
                        rebound.add(node.attr)
            found = ('rebound', frozenset(rebound))
            self._pure[('stable-attrs',)] = found
        return found[1]

    def _aliases(self, fn) -> dict:
        """local name -> attribute chain, for locals bound exactly once in ``fn`` to a
        chain of constructor-only attributes rooted at a parameter"""
        key = ('aliases', fn.qn)
        found = self._pure.get(key)
        if found is not None:
            return found[1]
        table = {}
        if not isinstance(fn.node, ast.Lambda):
            rebound = self._stable_attrs()
            args = fn.node.args
            params = {a.arg for a in args.posonlyargs + args.args + args.kwonlyargs}
            given = set(params) | {a.arg for a in (args.vararg, args.kwarg) if a is not None}
            stores = {}
            for node in ast.walk(fn.node):
                if isinstance(node, ast.Name) and isinstance(node.ctx, (ast.Store, ast.Del)):
                    stores[node.id] = stores.get(node.id, 0) + 1
            params -= set(stores)

            def chain(value):
                names = []
                while isinstance(value, ast.Attribute):
                    names.append(value.attr)
                    value = value.value
                return bool(names) and isinstance(value, ast.Name) and \
                    value.id in params and not (set(names) & rebound)

            for node in ast.walk(fn.node):
                if not isinstance(node, ast.Assign) or len(node.targets) != 1:
                    continue
                target, value = node.targets[0], node.value
                pairs = []
                if isinstance(target, ast.Name):
                    pairs = [(target, value)]
                elif isinstance(target, ast.Tuple) and isinstance(value, ast.Tuple) and \
                        len(target.elts) == len(value.elts):
                    pairs = [(t, v) for t, v in zip(target.elts, value.elts)
                             if isinstance(t, ast.Name)]
                for t, v in pairs:
                    if stores.get(t.id) == 1 and t.id not in given and chain(v):
                        table[t.id] = v
                    elif stores.get(t.id) == 1 and t.id not in given and \
                            isinstance(v, ast.Call):
                        # a record (typing.NamedTuple) of such chains: `loan.supply` is the
                        # chain given for the field `supply`
                        from . import rules
                        display = rules._record_display(v, fn)
                        if display is not None:
                            for field, item in zip(display.record_fields, display.elts):
                                if chain(item) or (isinstance(item, ast.Name)
                                                   and item.id in params):
                                    table['%s.%s' % (t.id, field)] = item
        self._pure[key] = ('table', table)
        return table

    def _canon_txt(self, expr, fr: DynFrame) -> str:
        aliases = self._aliases(fr.fn)
        if not aliases or not any(
                isinstance(n, ast.Name) and (n.id in aliases or any(
                    key.startswith(n.id + '.') for key in aliases))
                for n in ast.walk(expr)):
            return _txt(expr)
        import copy

        class Sub(ast.NodeTransformer):
            def visit_Name(self, node):
                if isinstance(node.ctx, ast.Load) and node.id in aliases:
                    return copy.deepcopy(aliases[node.id])
                return node

            def visit_Attribute(self, node):
                if isinstance(node.value, ast.Name) and isinstance(node.ctx, ast.Load) and \
                        '%s.%s' % (node.value.id, node.attr) in aliases:
                    return copy.deepcopy(aliases['%s.%s' % (node.value.id, node.attr)])
                return self.generic_visit(node)
        return _txt(Sub().visit(copy.deepcopy(expr)))

    def atom_key(self, expr, fr: DynFrame):
        """canonical key of a boolean atom and its polarity (locals that only alias
        constructor-only attributes are written as the attribute)"""
        _txt = lambda e: self._canon_txt(e, fr)  # noqa: E731
        if isinstance(expr, ast.Compare) and len(expr.ops) == 1:
            op = expr.ops[0]
            left, right = expr.left, expr.comparators[0]
            ltxt, rtxt = _txt(left), _txt(right)
            if isinstance(op, (ast.Is, ast.IsNot)):
                positive = isinstance(op, ast.Is)
                if rtxt == 'None':
                    return ('isnone', ltxt), positive
                if ltxt == 'None':
                    return ('isnone', rtxt), positive
                first, second = sorted((ltxt, rtxt))
                return ('is', first, second), positive
            if isinstance(op, (ast.Eq, ast.NotEq)):
                return ('eq', ltxt, rtxt), isinstance(op, ast.Eq)
            if isinstance(op, (ast.In, ast.NotIn)):
                return ('in', ltxt, rtxt), isinstance(op, ast.In)
            numeric = not self.te.classes_of(self.etype(left, fr)) and \
                not self.te.classes_of(self.etype(right, fr))
            if isinstance(op, ast.Lt):
                return ('lt', ltxt, rtxt), True
            if isinstance(op, ast.Gt):
                return ('lt', rtxt, ltxt), True
            if isinstance(op, ast.GtE):
                if numeric:
                    return ('lt', ltxt, rtxt), False
                return ('le', rtxt, ltxt), True
            if isinstance(op, ast.LtE):
                if numeric:
                    return ('lt', rtxt, ltxt), False
                return ('le', ltxt, rtxt), True
        if isinstance(expr, (ast.Name, ast.Attribute, ast.Call, ast.Subscript,
                             ast.Compare, ast.BinOp)):
            return ('truth', _txt(expr)), True
        return None, True


def _txt(expr) -> str:
    try:
        return ast.unparse(expr)
    except Exception:
        return '?%d' % id(expr)


def _dotted(node) -> Optional[str]:
    if isinstance(node, ast.Name):
        return node.id
    if isinstance(node, ast.Attribute):
        base = _dotted(node.value)
        return None if base is None else '%s.%s' % (base, node.attr)
    if isinstance(node, ast.Subscript):
        base = _dotted(node.value)
        return None if base is None else '%s[]' % base
    return None


_DEPS_CACHE = {}


def _fact_deps(key) -> set:
    found = _DEPS_CACHE.get(key)
    if found is None:
        found = set()
        for part in key[1:]:
            try:
                tree = ast.parse(part, mode='eval').body
            except SyntaxError:
                continue
            found |= _access_paths(tree)
        _DEPS_CACHE[key] = found
    return found


def _fact_has_attr(key) -> bool:
    return any('.' in dep for dep in _fact_deps(key)) or any(
        '(' in part or '[' in part for part in key[1:])


def _fact_attr_names(key) -> set:
    names = set()
    for dep in _fact_deps(key):
        parts = dep.split('.')
        names.update(parts[1:])
    return names


def _target_subexprs(target) -> list:
    """expressions evaluated when storing to / deleting ``target``"""
    if isinstance(target, ast.Attribute):
        return [target.value]
    if isinstance(target, ast.Subscript):
        return [target.value, target.slice]
    if isinstance(target, (ast.Tuple, ast.List)):
        result = []
        for elt in target.elts:
            result.extend(_target_subexprs(elt))
        return result
    if isinstance(target, ast.Starred):
        return _target_subexprs(target.value)
    return []


def _copied_source(expr):
    """``X`` for ``X[:]``, ``X.copy()``, ``list(X)``, ``tuple(X)`` over a name or attribute
    path ``X`` (the copy made where it is written has the length X has there)"""
    inner = None
    if isinstance(expr, ast.Subscript) and isinstance(expr.slice, ast.Slice) and \
            expr.slice.lower is None and expr.slice.upper is None and expr.slice.step is None:
        inner = expr.value
    elif isinstance(expr, ast.Call) and not expr.keywords:
        if isinstance(expr.func, ast.Attribute) and expr.func.attr == 'copy' and \
                not expr.args:
            inner = expr.func.value
        elif isinstance(expr.func, ast.Name) and expr.func.id in ('list', 'tuple') and \
                len(expr.args) == 1:
            inner = expr.args[0]
    if isinstance(inner, (ast.Name, ast.Attribute)):
        return _dotted(inner)
    return None


def _count_from_truth(st, source, known, least):
    """an empty sequence is iterated zero times, a non-empty one at least once"""
    if source is not None and known is None:
        truth = st.facts.get(('truth', source))
        if truth is True:
            least = max(least, 1)
        elif truth is False:
            known = 0
    return known, least


def _bound_attrs(func, fn) -> set:
    """attribute names a called expression may stand for: ``g.send`` itself, or a local
    bound only to such attributes (``resume = g.send if ok else g.throw``)"""
    if isinstance(func, ast.Attribute):
        return {func.attr}
    if not isinstance(func, ast.Name) or fn is None or isinstance(fn.node, ast.Lambda):
        return set()
    from .types import _collect_local_bindings
    names = set()
    for name, how, expr, _extra in _collect_local_bindings(fn.node):
        if name != func.id:
            continue
        if how != 'assign' or expr is None:
            return set()
        todo = [expr]
        while todo:
            cur = todo.pop()
            if isinstance(cur, ast.IfExp):
                todo += [cur.body, cur.orelse]
            elif isinstance(cur, ast.Attribute):
                names.add(cur.attr)
            else:
                return set()
    if any(a.arg == func.id for a in fn.node.args.args + fn.node.args.kwonlyargs):
        return set()
    return names


def _is_exception_name(name: str) -> bool:
    import builtins
    obj = getattr(builtins, name, None)
    return isinstance(obj, type) and issubclass(obj, BaseException)


def _is_fresh_empty(value) -> bool:
    """``[]``, ``{}``, ``()``, ``deque()``, ``list()``, ``dict()``, ``set()``"""
    if isinstance(value, (ast.List, ast.Tuple, ast.Set)) and not value.elts:
        return True
    if isinstance(value, ast.Dict) and not value.keys:
        return True
    if isinstance(value, ast.Call) and not value.args and not value.keywords and \
            isinstance(value.func, ast.Name) and \
            value.func.id in ('deque', 'list', 'dict', 'set', 'tuple'):
        return True
    return False


def _const_truth(expr):
    """True / False for constant return values, 'unknown' otherwise"""
    if expr is None:
        return False
    if isinstance(expr, ast.Constant):
        return bool(expr.value)
    return 'unknown'


def _join_truth(values) -> str:
    values = set(values)
    if values <= {'never'}:
        return 'never'
    if values == {'always'}:
        return 'always'
    return 'may'


def _segment_may(path: Path, start, stop) -> bool:
    for event in path.events[start:stop]:
        if event.kind == 'susp' and event.data.get('suspended') != 'NEVER':
            return True
    return False


def _tag_root(tag):
    while isinstance(tag, tuple) and tag and tag[0] == 'bound':
        tag = tag[2]
    return tag
