"""
Rule families (DESIGN.md section 3) as reusable queries over paths and over the program.
"""
import ast
from typing import Callable, List, Optional, Tuple

from .engine import Analysis, is_suspension
from .model import FunctionInfo, AnalysisError
from .paths import Path, Event, SIGNALS
from .types import Frame, Callee, _walk_own

CURRENT_ACTIVITY = '__USIM_STATE__.loop.activity'
CURRENT_TIME = '__USIM_STATE__.loop.time'


# --------------------------------------------------------------------- def-use
_LOCAL_VALUES = {}


def local_values(fn: FunctionInfo, name: str) -> List[ast.expr]:
    """all value expressions assigned to the local ``name`` in ``fn`` (plain assigns)"""
    key = (id(fn.node), name)
    found = _LOCAL_VALUES.get(key)
    if found is None:
        found = _local_values(fn, name)
        _LOCAL_VALUES[key] = found
    return found


def _local_values(fn: FunctionInfo, name: str) -> List[ast.expr]:
    result = []
    for node in _walk_own(fn.node):
        if isinstance(node, ast.Assign):
            for target in node.targets:
                if isinstance(target, ast.Name) and target.id == name:
                    result.append(node.value)
                elif isinstance(target, (ast.Tuple, ast.List)):
                    pairwise = isinstance(node.value, (ast.Tuple, ast.List)) and \
                        len(node.value.elts) == len(target.elts) and not any(
                            isinstance(e, ast.Starred)
                            for e in list(target.elts) + list(node.value.elts))
                    for position, elt in enumerate(target.elts):
                        if isinstance(elt, ast.Name) and elt.id == name:
                            # a, b = x, y assigns element-wise
                            result.append(node.value.elts[position] if pairwise else None)
        elif isinstance(node, ast.AnnAssign):
            if isinstance(node.target, ast.Name) and node.target.id == name:
                result.append(node.value)
        elif isinstance(node, (ast.AugAssign, ast.For, ast.AsyncFor, ast.NamedExpr)):
            target = node.target
            for sub in ast.walk(target):
                if isinstance(sub, ast.Name) and sub.id == name:
                    result.append(None)
        elif isinstance(node, (ast.With, ast.AsyncWith)):
            for item in node.items:
                if item.optional_vars is not None:
                    for sub in ast.walk(item.optional_vars):
                        if isinstance(sub, ast.Name) and sub.id == name:
                            result.append(None)
    return result


def expand_alias(expr, fn: FunctionInfo, depth: int = 4) -> str:
    """unparse ``expr`` with single-assignment locals replaced by their definitions"""
    class Sub(ast.NodeTransformer):
        def visit_Name(self, node):
            if depth <= 0 or not isinstance(node.ctx, ast.Load):
                return node
            values = local_values(fn, node.id)
            if len(values) == 1 and values[0] is not None and not _is_param(fn, node.id):
                inner = ast.parse(expand_alias(values[0], fn, depth - 1), mode='eval').body
                return inner
            return node
    import copy
    tree = Sub().visit(copy.deepcopy(expr))
    return ast.unparse(tree)


def _is_param(fn: FunctionInfo, name: str) -> bool:
    args = fn.node.args
    names = [a.arg for a in args.posonlyargs + args.args + args.kwonlyargs]
    if args.vararg:
        names.append(args.vararg.arg)
    if args.kwarg:
        names.append(args.kwarg.arg)
    return name in names


def normalise_state_aliases(text: str) -> str:
    """``__LOOP_STATE__`` is an import alias of ``__USIM_STATE__``"""
    return text.replace('__LOOP_STATE__', '__USIM_STATE__')


def is_current_activity(expr, fn: FunctionInfo) -> bool:
    return normalise_state_aliases(expand_alias(expr, fn)) == CURRENT_ACTIVITY


_CLOCK = {}
#: other spellings of a clock read, discovered per program: calls of the getter behind the
#: `now` property of the Time class (`time._now()`), see ``register_clock_reads``
CLOCK_READS = set()


def register_clock_reads(program):
    CLOCK_READS.clear()
    _CLOCK.clear()
    info = program.classes.get('usim._primitives.timing.Time')
    view = info.methods.get('now') if info else None
    if view is None:
        return
    for name, method in info.methods.items():
        if method is not view and method.node is view.node and not method.is_property:
            CLOCK_READS.update(('time.%s()' % name, 'self.%s()' % name))


def is_current_time(expr, fn: FunctionInfo) -> bool:
    key = (id(expr), id(fn.node))
    found = _CLOCK.get(key)
    if found is None:
        text = normalise_state_aliases(expand_alias(expr, fn))
        found = text in (CURRENT_TIME, 'time.now', 'self.now') or text in CLOCK_READS
        _CLOCK[key] = (found, expr)  # keep the node alive: ids are reused otherwise
        return found
    return found[0]


def bool_indexed(expr):
    """(index text, text when false, text when true) for ``(f, t)[bool(x)]`` / ``(f, t)[x]``
    -- a two-way choice written as a table lookup -- else None"""
    if isinstance(expr, str):
        try:
            expr = ast.parse(expr, mode='eval').body
        except SyntaxError:
            return None
    if not (isinstance(expr, ast.Subscript) and isinstance(expr.value, ast.Tuple)
            and len(expr.value.elts) == 2):
        return None
    index = expr.slice
    if isinstance(index, ast.Call) and isinstance(index.func, ast.Name) and \
            index.func.id == 'bool' and len(index.args) == 1 and not index.keywords:
        index = index.args[0]
    elif not isinstance(index, (ast.Name, ast.Attribute)):
        return None
    return ast.unparse(index), ast.unparse(expr.value.elts[0]), \
        ast.unparse(expr.value.elts[1])


def owned_by(an, fn, cls_qn: str) -> bool:
    """``fn`` is a method of the class, or of a private base class split off it in the
    same module (``class _Part: ...; class Whole(_Part): ...``)"""
    if fn is None or fn.cls is None:
        return False
    if fn.cls.qn == cls_qn:
        return True
    info = an.p.classes.get(cls_qn)
    return info is not None and fn.cls.qn in info.mro and fn.cls.name.startswith('_') \
        and fn.cls.module is info.module


def public_name(an, fn) -> str:
    """qualified name of a method for reports: a method of a private base class that one
    public class of the same module was split into is named after that public class"""
    if fn.cls is not None and fn.cls.name.startswith('_'):
        heirs = [info for info in an.p.classes.values()
                 if info.module is fn.cls.module and not info.name.startswith('_')
                 and fn.cls.qn in info.bases]
        if len(heirs) == 1:
            return '%s.%s' % (heirs[0].qn, fn.name)
    return fn.qn


def is_site(node, call) -> bool:
    """an event's node stands for the call site ``call``: the node itself, or the call a
    ``functools.partial`` local stands for at that site"""
    return node is call or getattr(node, 'origin_node', None) is call


def is_clock_call(node, fn) -> bool:
    """a call that reads the clock (the getter behind `time.now`), never cached: cheap"""
    return bool(CLOCK_READS) and isinstance(node, ast.Call) and not node.args and \
        not node.keywords and fn is not None and \
        normalise_state_aliases(expand_alias(node, fn)) in CLOCK_READS


# ----------------------------------------------------------- program queries
def all_frames(an: Analysis):
    """(function, frame) for every function definition, receiver = defining class"""
    for fn in an.p.functions.values():
        owner = an.p.enclosing_self_class(fn)
        yield fn, Frame(fn, owner.qn if owner else None)


def attribute_stores(an: Analysis, attr: str, owner_cls: str = None):
    """
    every ``X.attr = ...`` / ``X.attr op= ...`` / ``del X.attr`` in the package where the
    static type of X includes ``owner_cls`` (or a subclass / superclass of it)

    :return: list of (fn, statement node, target node, receiver class list)
    """
    result = []
    for fn, frame in all_frames(an):
        if isinstance(fn.node, ast.Lambda):
            continue
        for node in _walk_own(fn.node):
            targets = []
            if isinstance(node, ast.Assign):
                for target in node.targets:
                    targets.extend(_flat(target))
            elif isinstance(node, (ast.AugAssign, ast.AnnAssign)):
                targets.extend(_flat(node.target))
            elif isinstance(node, ast.Delete):
                for target in node.targets:
                    targets.extend(_flat(target))
            for target in targets:
                if isinstance(target, ast.Attribute) and target.attr == attr:
                    recvs = an.te.classes_of(an.te.expr_type(target.value, frame))
                    if owner_cls is None or _related(an, recvs, owner_cls):
                        result.append((fn, node, target, recvs))
    return result


def _flat(target):
    if isinstance(target, (ast.Tuple, ast.List)):
        out = []
        for elt in target.elts:
            out.extend(_flat(elt))
        return out
    if isinstance(target, ast.Starred):
        return _flat(target.value)
    return [target]


def _related(an: Analysis, recvs: List[str], owner_cls: str) -> bool:
    if not recvs:
        return False
    return any(an.p.is_subclass(r, owner_cls) or an.p.is_subclass(owner_cls, r)
               for r in recvs)


def attribute_method_calls(an: Analysis, attr: str, owner_cls: str):
    """
    every call ``X.attr.method(...)`` and every other use of ``X.attr`` where X is typed
    ``owner_cls``: list of (fn, node, kind, detail) with kind in
    'call' (detail = method name, call node), 'subscript', 'iter', 'other'
    """
    result = []
    for fn, frame in all_frames(an):
        if isinstance(fn.node, ast.Lambda):
            continue
        parents = {}
        for node in _walk_own(fn.node):
            for child in ast.iter_child_nodes(node):
                parents[id(child)] = node
        for node in _walk_own(fn.node):
            if not (isinstance(node, ast.Attribute) and node.attr == attr
                    and isinstance(node.ctx, ast.Load)):
                continue
            recvs = an.te.classes_of(an.te.expr_type(node.value, frame))
            if not _related(an, recvs, owner_cls):
                continue
            parent = parents.get(id(node))
            if isinstance(parent, ast.Attribute) and parent.value is node:
                grand = parents.get(id(parent))
                if isinstance(grand, ast.Call) and grand.func is parent:
                    result.append((fn, grand, 'call', parent.attr))
                else:
                    result.append((fn, parent, 'attr', parent.attr))
            elif isinstance(parent, ast.Subscript) and parent.value is node:
                result.append((fn, parent, 'subscript', type(parent.ctx).__name__))
            elif isinstance(parent, (ast.For, ast.comprehension)) and parent.iter is node:
                result.append((fn, parent, 'iter', None))
            elif isinstance(parent, ast.Call) and node in parent.args:
                name = ast.unparse(parent.func)
                result.append((fn, parent, 'arg', name))
            elif isinstance(parent, ast.Assign) and parent.value is node and \
                    len(parent.targets) == 1 and isinstance(parent.targets[0], ast.Name):
                # a local alias of the attribute: its uses are uses of the attribute
                alias = parent.targets[0].id
                result.append((fn, parent, 'alias', alias))
                for sub in _walk_own(fn.node):
                    if not (isinstance(sub, ast.Name) and sub.id == alias
                            and isinstance(sub.ctx, ast.Load)):
                        continue
                    up = parents.get(id(sub))
                    if isinstance(up, ast.Attribute) and up.value is sub:
                        top = parents.get(id(up))
                        if isinstance(top, ast.Call) and top.func is up:
                            result.append((fn, top, 'call', up.attr))
                        else:
                            result.append((fn, up, 'attr', up.attr))
                    elif isinstance(up, ast.Subscript) and up.value is sub:
                        result.append((fn, up, 'subscript', type(up.ctx).__name__))
                    elif isinstance(up, (ast.For, ast.comprehension)) and up.iter is sub:
                        result.append((fn, up, 'iter', None))
                    elif isinstance(up, ast.Call) and sub in up.args:
                        result.append((fn, up, 'arg', ast.unparse(up.func)))
                    else:
                        result.append((fn, up if up is not None else sub, 'other',
                                       type(up).__name__ if up is not None else None))
            else:
                result.append((fn, parent if parent is not None else node, 'other',
                               type(parent).__name__ if parent is not None else None))
    return result


def call_sites_of(an: Analysis, target_fn_qn: str):
    """every call site in the package that resolves to ``target_fn_qn``"""
    result = []
    for fn, frame in all_frames(an):
        if isinstance(fn.node, ast.Lambda):
            continue
        for node in _walk_own(fn.node):
            if isinstance(node, ast.Call):
                callees, _ext = an.te.resolve_callees(node, frame)
                if any(c.fn.qn == target_fn_qn for c in callees):
                    result.append((fn, node, frame))
    return result


# ----------------------------------------------------------------- path rules
def find_pairing_violation(paths: List[Path], acquire: Callable[[Event], bool],
                           release: Callable[[Event], bool],
                           exempt_outcome: Callable[[Path], bool] = None) \
        -> Optional[Tuple[Path, int]]:
    """a path on which an acquire event is not followed by a release event"""
    for path in paths:
        if exempt_outcome is not None and exempt_outcome(path):
            continue
        pending = None
        for index, event in enumerate(path.events):
            if acquire(event):
                pending = index
            elif pending is not None and release(event):
                pending = None
        if pending is not None:
            return path, pending
    return None


def find_window_violation(paths: List[Path], start: Callable[[Event], bool],
                          end: Callable[[Event], bool], bad: Callable[[Event], bool],
                          to_exit: bool = False) -> Optional[Tuple[Path, int, int]]:
    """a path with a ``bad`` event between a ``start`` event and the next ``end`` event"""
    for path in paths:
        begin = None
        bad_at = None
        for index, event in enumerate(path.events):
            if begin is not None and end(event):
                if bad_at is not None:
                    return path, begin, bad_at
                begin = None
                bad_at = None
            if start(event):
                begin = index
                bad_at = None
            elif begin is not None and bad_at is None and bad(event):
                bad_at = index
        if to_exit and begin is not None and bad_at is not None:
            return path, begin, bad_at
    return None


def count_events(path: Path, pred: Callable[[Event], bool], depth0: bool = False) -> int:
    return sum(1 for e in path.events if pred(e) and (not depth0 or e.depth == 0))


def path_lines(path: Path, mark: int = None, limit: int = 40) -> List[str]:
    lines = []
    for index, event in enumerate(path.events):
        if event.kind in ('enter', 'leave', 'finally', 'iter-next', 'iter-end', 'iter-stop'):
            if index != mark:
                continue
        prefix = '>> ' if index == mark else '   '
        lines.append(prefix + event.text())
    if len(lines) > limit:
        lines = lines[:limit // 2] + ['   ...'] + lines[-limit // 2:]
    out = path.outcome
    lines.append('=> %s' % (out[0] if out[0] != 'raise' else 'raise %s' % out[1].cls))
    return lines


def fact_value(event: Event, key) -> Optional[bool]:
    facts = event.data.get('facts')
    if facts is None:
        return None
    return facts.get(key)


def tests_before(path: Path, index: int, pred: Callable[[Event], bool],
                 kill: Callable[[Event], bool] = None) -> Optional[Event]:
    """latest test event before ``index`` satisfying pred with no ``kill`` in between"""
    for pos in range(index - 1, -1, -1):
        event = path.events[pos]
        if kill is not None and kill(event):
            return None
        if event.kind in ('test', 'assert') and pred(event):
            return event
    return None


def atomic_block(path: Path, index: int) -> List[Event]:
    """the events around ``index`` between the enclosing suspension points"""
    start = index
    while start > 0 and not is_suspension(path.events[start - 1]):
        start -= 1
    stop = index
    while stop < len(path.events) - 1 and not is_suspension(path.events[stop + 1]):
        stop += 1
    return path.events[start:stop + 1]


# ------------------------------------------------- path-sensitive value expansion
def _frame_start(path: Path, index: int) -> int:
    """index of the 'enter' event of the (transparent helper) frame active at ``index``"""
    fid = path.events[index].data.get('fid') if index < len(path.events) else None
    for pos in range(min(index, len(path.events) - 1), -1, -1):
        event = path.events[pos]
        if event.kind == 'enter' and event.data.get('how') == 'helper':
            # the events after this enter with another fid belong to the helper
            nxt = path.events[pos + 1] if pos + 1 < len(path.events) else None
            if nxt is not None and nxt.data.get('fid') == fid:
                return pos
    return -1


def reaching_store(path: Path, index: int, name: str, fid=Ellipsis):
    """(position, event) of the last store to local ``name`` before ``index`` in its frame"""
    if fid is not Ellipsis:
        index = min(index, len(path.events))
    elif index >= len(path.events):
        index = len(path.events)
        fid = path.events[-1].data.get('fid') if path.events else None
    else:
        fid = path.events[index].data.get('fid')
    for pos in range(index - 1, -1, -1):
        event = path.events[pos]
        if event.data.get('fid') != fid:
            continue
        if event.kind == 'store' and event.data.get('path') == name:
            return pos, event
    return None


_BINDINGS = {}


def _frame_bindings(path: Path, index: int):
    """parameter -> (argument expression, position of the call) for an event inside a
    callee that was run inline without recorded bindings (truth-inlined calls)"""
    event = path.events[index]
    fid = event.data.get('fid')
    key = (id(path), fid)
    if key in _BINDINGS and _BINDINGS[key][0] is path:
        return _BINDINGS[key][1]
    found = None
    for pos in range(index - 1, -1, -1):
        other = path.events[pos]
        if other.kind == 'ctx-enter' and other.data.get('fid') != fid and \
                pos + 1 < len(path.events) and \
                path.events[pos + 1].data.get('fid') == fid:
            # a generator context manager run in place: `with f(a, b):`
            callee = other.data.get('callee')
            for item in getattr(other.node, 'items', ()):
                call = item.context_expr
                at = pos
                if isinstance(call, ast.Name):
                    # `cm = f(a, b)` ... `with cm:`: the call that made the manager
                    for before in range(pos - 1, -1, -1):
                        made = path.events[before]
                        if made.kind == 'store' and made.data.get('path') == call.id and \
                                made.data.get('fid') == other.data.get('fid'):
                            call, at = made.data.get('value'), before
                            break
                if isinstance(call, ast.Call) and callee is not None and \
                        ast.unparse(call.func).split('.')[-1] == callee.fn.name:
                    found = _bind_call(call, callee.fn, at)
            break
        if other.kind == 'enter' and other.data.get('fid') != fid and \
                pos + 1 < len(path.events) and \
                path.events[pos + 1].data.get('fid') == fid:
            call = other.node.value if isinstance(other.node, (ast.Await, ast.YieldFrom)) else other.node
            callee = other.data.get('callee')
            if isinstance(call, ast.Call) and callee is not None and \
                    not isinstance(callee.fn.node, ast.Lambda):
                found = _bind_call(call, callee.fn, pos)
            break
        if other.data.get('fid') == fid and other.data.get('bind') is not None:
            found = other.data['bind']
            break
    if len(_BINDINGS) > 50000:
        _BINDINGS.clear()
    _BINDINGS[key] = (path, found)
    return found


def _bind_call(call: ast.Call, fn, position: int) -> dict:
    args = fn.node.args
    params = list(args.posonlyargs) + list(args.args)
    if fn.cls is not None and not fn.is_static and isinstance(call.func, ast.Attribute):
        owner = ast.unparse(call.func.value).split('.')[-1]
        named = owner == fn.cls.qn.rsplit('.', 1)[-1]
        program = getattr(fn.module, 'program', None)
        if not named and program is not None:
            # ... also through the name of a subclass that inherits the method
            named = any(info.name == owner and fn.cls.qn in info.mro
                        for info in program.classes.values())
        explicit_self = isinstance(call.func.value, (ast.Name, ast.Attribute)) and \
            named and len(call.args) >= 1
        if not explicit_self:  # `Base.method(self, a)` names every parameter
            params = params[1:]
    bindings = {}
    for param, arg in zip(params, call.args):
        if isinstance(arg, ast.Starred):
            break
        bindings[param.arg] = (arg, position)
    names = {p.arg for p in params + list(args.kwonlyargs)}
    for kw in call.keywords:
        if kw.arg in names:
            bindings[kw.arg] = (kw.value, position)
    return bindings


def value_expr(path: Path, index: int, expr, depth: int = 12, keep_clock: bool = True,
               keep=(), frame=None, trace: list = None):
    """
    ``expr`` (evaluated at event ``index`` of ``path``) with local names replaced by the
    value that reaches them **on this path** and helper parameters replaced by the
    caller's arguments.  Clock reads are kept as the local that holds them.
    """
    import copy
    event = path.events[index] if index < len(path.events) else None
    bind = event.data.get('bind') if event is not None else None
    if bind is None and event is not None:
        bind = _frame_bindings(path, index)
    fn = event.fn if event is not None else None
    tree = copy.deepcopy(expr)
    original = {id(c): o for o, c in zip(ast.walk(expr), ast.walk(tree))}
    fid = event.data.get('fid') if event is not None else (
        path.events[-1].data.get('fid') if path.events else None)
    mgr = event.data.get('mgr') if event is not None else None
    if frame is not None:
        # evaluate inside an inlined helper's frame (its return expression)
        fid, bind, fn = frame
        mgr = None

    def returned_by_helper(source):
        """the value an inlined helper returned for this call on this path"""
        if source is None or depth <= 0:
            return None
        for pos in range(min(index, len(path.events)) - 1, -1, -1):
            seen = path.events[pos]
            if seen.kind == 'leave' and seen.node is source and \
                    seen.data.get('how') == 'helper' and seen.data.get('fid') == fid:
                ret = seen.data.get('ret')
                if ret is None:
                    return None
                if trace is not None:
                    trace.append(pos)  # the helper computed its result at this position
                return value_expr(path, pos, ret, depth - 1, keep_clock, keep,
                                  frame=(seen.data.get('ret_fid'), seen.data.get('ret_bind'),
                                         seen.data['callee'].fn), trace=trace)
        return None

    def observed(test):
        """truth of a test expression as observed last on this path before ``index`` (in
        this frame): the test itself, or -- for and/or/not -- composed of its parts, which
        the interpreter evaluates one by one"""
        if isinstance(test, ast.UnaryOp) and isinstance(test.op, ast.Not):
            inner = observed(test.operand)
            return None if inner is None else not inner
        if isinstance(test, ast.BoolOp):
            is_and = isinstance(test.op, ast.And)
            for part in test.values:
                value = observed(part)
                if value is None:
                    return None
                if value != is_and:
                    return value  # short circuit
            return is_and
        for pos in range(min(index, len(path.events)) - 1, -1, -1):
            seen = path.events[pos]
            if seen.kind == 'test' and seen.node is test and seen.data.get('fid') == fid:
                return bool(seen.data.get('value'))
        return None

    class Sub(ast.NodeTransformer):
        def visit_Attribute(self, node):
            # an attribute of a context manager object whose __enter__/__exit__ runs in
            # place: what was stored in it, down to the constructor's arguments
            if mgr is not None and depth > 0 and isinstance(node.value, ast.Name) and \
                    node.value.id == 'self' and isinstance(node.ctx, ast.Load):
                found = _manager_field(path, index, mgr, node.attr, depth - 1, keep_clock,
                                       keep, trace)
                if found is not None:
                    return found
            source = original.get(id(node))
            node = self.generic_visit(node)
            # a field of a record (typing.NamedTuple) that was built on this path
            fields = getattr(node.value, 'record_fields', None) \
                if isinstance(node.value, ast.Tuple) else None
            if fields and node.attr in fields and isinstance(node.ctx, ast.Load):
                return node.value.elts[fields.index(node.attr)]
            # ... or of a value whose static type is such a record: item k of the tuple
            position = _record_position(source, event if frame is None else None)
            if position is not None and isinstance(node.ctx, ast.Load):
                return ast.copy_location(ast.Subscript(
                    value=node.value, slice=ast.Constant(value=position), ctx=ast.Load()),
                    node)
            return node

        def visit_IfExp(self, node):
            # the branch taken on this path, when the test was observed
            source = original.get(id(node))
            if source is not None:
                taken = observed(source.test)
                if taken is not None:
                    return self.visit(node.body if taken else node.orelse)
            return self.generic_visit(node)

        def visit_Name(self, node):
            if not isinstance(node.ctx, ast.Load) or depth <= 0 or node.id in keep:
                return node
            found = reaching_store(path, index, node.id, fid) if frame is not None \
                else reaching_store(path, index, node.id)
            if found is None:
                # a helper parameter that was not re-bound: the caller's argument
                if bind and node.id in bind:
                    arg, enter_index = bind[node.id]
                    return value_expr(path, enter_index, arg, depth - 1, keep_clock, keep,
                                      trace=trace)
                # a module level constant (a name for a number / string / None)
                named = _module_constant(fn, node.id)
                if named is not None:
                    return ast.copy_location(ast.Constant(value=named.value), node)
                return node
            pos, store = found
            value = store.data.get('value')
            if value is None and store.data.get('aug') is None:
                element = _loop_element(path, pos, store, depth, keep_clock, keep, trace)
                if element is not None:
                    return element
            if value is None or store.data.get('aug') is not None:
                return node
            if isinstance(store.node, ast.Name) is False:
                return node
            # tuple unpacking `a, b = f()` carries no per-element value (value is None
            # above); `a, b = x, y` was split element-wise by the interpreter
            if keep_clock and fn is not None and is_current_time(value, store.fn):
                return node
            if _makes_container(value) and _mutated_between(path, pos, index, node.id):
                return node  # a container filled in place: not its initial literal
            # (anything else names an object made elsewhere: the local is an alias of what
            # the expression gave at that position -- which goes to ``trace`` -- however
            # that object is mutated since)
            if trace is not None:
                trace.append(pos)  # the value was read at this position
            result = value_expr(path, pos, value, depth - 1, keep_clock, keep, trace=trace)
            if keep_clock and fn is not None and result is not value and (
                    is_clock_call(result, store.fn) or (
                        isinstance(result, (ast.Attribute, ast.Name))
                        and is_current_time(result, store.fn))):
                return node  # a clock read made elsewhere (a helper): still that local
            return result

        def visit_Call(self, node):
            got = returned_by_helper(original.get(id(node)))
            if got is not None:
                return got
            node = self.generic_visit(node)
            record = _record_display(node, fn)
            if record is not None:
                return record
            accessed = _class_accessor(node, event if event is not None and
                                       frame is None else None)
            if accessed is not None:
                return accessed
            inner = node.func
            if isinstance(inner, ast.Call) and inner.args and \
                    ast.unparse(inner.func) in ('partial', 'functools.partial') and \
                    not any(isinstance(a, ast.Starred) for a in inner.args):
                # partial(f, a, k=v)(b)  ==  f(a, b, k=v)
                return ast.copy_location(ast.Call(
                    func=inner.args[0], args=list(inner.args[1:]) + list(node.args),
                    keywords=list(inner.keywords) + list(node.keywords)), node)
            return node

        def visit_Await(self, node):
            got = returned_by_helper(original.get(id(node)))
            return got if got is not None else self.generic_visit(node)

        def visit_Subscript(self, node):
            node = self.generic_visit(node)
            # (a, b)[0] -> a
            if isinstance(node.value, ast.Tuple) and isinstance(node.slice, ast.Constant) \
                    and isinstance(node.slice.value, int) and \
                    0 <= node.slice.value < len(node.value.elts) and not any(
                        isinstance(e, ast.Starred) for e in node.value.elts):
                return node.value.elts[node.slice.value]
            return node

    return Sub().visit(tree)


def _module_constant(fn, name: str):
    """the constant a module level name stands for: bound once, at module level, to a
    literal, and neither a parameter nor a local of ``fn``"""
    if fn is None or isinstance(fn.node, ast.Lambda):
        return None
    module = fn.module
    entries = module.assigns.get(name)
    if not entries or len(entries) != 1 or not isinstance(entries[0][0], ast.Constant):
        return None
    if isinstance(entries[0][0].value, (bytes, type(Ellipsis))):
        return None
    scope = fn
    while scope is not None:
        node = scope.node
        if not isinstance(node, ast.Lambda):
            args = node.args
            if any(a.arg == name for a in args.posonlyargs + args.args + args.kwonlyargs
                   + [x for x in (args.vararg, args.kwarg) if x is not None]):
                return None
            if any(isinstance(n, ast.Name) and n.id == name
                   and isinstance(n.ctx, (ast.Store, ast.Del)) for n in ast.walk(node)):
                return None
        scope = scope.parent
    return entries[0][0]


def _class_accessor(call: ast.Call, frame):
    """``self.acc(obj)`` with ``acc`` a class attribute bound to an accessor of the operator
    module (see the interpreter's ``_class_accessor_target``): what it computes for obj"""
    if frame is None or frame.recv is None or not (
            isinstance(call.func, ast.Attribute) and isinstance(call.func.value, ast.Name)
            and call.func.value.id == 'self' and len(call.args) == 1 and not call.keywords
            and not isinstance(call.args[0], ast.Starred)):
        return None
    program = getattr(frame.fn.module, 'program', None)
    if program is None or program.find_method(frame.recv, call.func.attr) is not None:
        return None
    found = program.find_class_attr(frame.recv, call.func.attr)
    value = found[1] if found else None
    owner = program.classes.get(found[0]) if found else None
    if isinstance(value, ast.Call) and isinstance(value.func, ast.Name) and \
            value.func.id == 'staticmethod' and len(value.args) == 1:
        value = value.args[0]
    if not (isinstance(value, ast.Call) and owner is not None and value.args and all(
            isinstance(a, ast.Constant) for a in value.args) and all(
            kw.arg is not None and isinstance(kw.value, ast.Constant)
            for kw in value.keywords)):
        return None
    binding = program.resolve_dotted(owner.module, value.func)
    kind = binding[1] if binding and binding[0] == 'ext' else None
    import copy
    subject, first = call.args[0], value.args[0].value
    if kind == 'operator.methodcaller' and isinstance(first, str) and first.isidentifier():
        new = ast.Call(func=ast.Attribute(value=subject, attr=first, ctx=ast.Load()),
                       args=[copy.deepcopy(a) for a in value.args[1:]],
                       keywords=[copy.deepcopy(k) for k in value.keywords])
    elif kind == 'operator.attrgetter' and len(value.args) == 1 and isinstance(first, str) \
            and all(p.isidentifier() for p in first.split('.')):
        new = subject
        for part in first.split('.'):
            new = ast.Attribute(value=new, attr=part, ctx=ast.Load())
    elif kind == 'operator.itemgetter' and len(value.args) == 1:
        new = ast.Subscript(value=subject, slice=copy.deepcopy(value.args[0]),
                            ctx=ast.Load())
    else:
        return None
    for fresh in ast.walk(new):
        if isinstance(fresh, ast.expr) and not hasattr(fresh, 'lineno'):
            ast.copy_location(fresh, call)
    return new


#: the type engine of the running analysis (set by ``Analysis``), for the few places where
#: a value expansion needs a static type
TYPES = None


def _record_position(source, event):
    """index of the field ``source.attr`` when the static type of ``source.value`` is one
    record class (typing.NamedTuple) of the package, else None"""
    if TYPES is None or source is None or event is None or \
            not isinstance(source, ast.Attribute):
        return None
    program = getattr(event.fn.module, 'program', None)
    if program is None or not any(
            fields and source.attr in [n for n, _d in fields]
            for fields in (record_fields(program, qn) for qn in _record_classes(program))):
        return None
    from .types import Frame
    try:
        found = TYPES.expr_type(source.value, Frame(event.fn, event.recv))
    except Exception:
        return None
    classes = {t[1] for t in found if t[0] == 'inst'}
    rest = [t for t in found if t[0] not in ('inst', 'none')]
    if len(classes) != 1 or rest:
        return None  # (an optional record still is that record where a field is read)
    fields = record_fields(program, next(iter(classes)))
    names = [n for n, _d in fields] if fields else []
    return names.index(source.attr) if source.attr in names else None


_RECORD_CLASSES = {}


def _record_classes(program):
    found = _RECORD_CLASSES.get(id(program))
    if found is None or found[1] is not program:
        found = ([qn for qn in program.classes if record_fields(program, qn)], program)
        _RECORD_CLASSES[id(program)] = found
    return found[0]


_RECORDS = {}


def record_fields(program, cls_qn: str):
    """[(field, default expr | None)] when the class is a plain ``typing.NamedTuple``
    record (fields by annotation, no ``__new__``/``__init__`` of its own), else None"""
    found = _RECORDS.get((id(program), cls_qn))
    if found is not None:
        return found[0]
    info = program.classes.get(cls_qn)
    fields = None
    if info is not None and any(ast.unparse(b).split('.')[-1] == 'NamedTuple'
                                for b in info.node.bases) and \
            '__new__' not in info.methods and '__init__' not in info.methods:
        fields = []
        for stmt in info.node.body:
            if isinstance(stmt, ast.AnnAssign) and isinstance(stmt.target, ast.Name):
                fields.append((stmt.target.id, stmt.value))
    _RECORDS[(id(program), cls_qn)] = (fields, program)
    return fields


def _record_display(call: ast.Call, fn):
    """``Record(a, b=c)`` as the tuple display ``(a, c)`` it is (a typing.NamedTuple of the
    package), tagged with its field names; None for any other call"""
    if fn is None or not isinstance(call.func, (ast.Name, ast.Attribute)) or any(
            isinstance(a, ast.Starred) for a in call.args) or any(
            kw.arg is None for kw in call.keywords):
        return None
    program = getattr(fn.module, 'program', None)
    if program is None:
        return None
    try:
        binding = program.resolve_dotted(fn.module, call.func)
    except Exception:
        return None
    if not binding or binding[0] != 'class':
        return None
    fields = record_fields(program, binding[1])
    if not fields:
        return None
    import copy
    names = [name for name, _d in fields]
    given = dict(zip(names, call.args))
    if len(call.args) > len(names):
        return None
    for kw in call.keywords:
        if kw.arg not in names or kw.arg in given:
            return None
        given[kw.arg] = kw.value
    elts = []
    for name, default in fields:
        if name in given:
            elts.append(given[name])
        elif default is not None:
            elts.append(copy.deepcopy(default))
        else:
            return None
    display = ast.copy_location(ast.Tuple(elts=elts, ctx=ast.Load()), call)
    display.record_fields = names
    display.record_class = binding[1]
    return display


def _manager_field(path: Path, index: int, mgr, attr: str, depth, keep_clock, keep, trace):
    """
    the value of ``self.<attr>`` of a context manager object (``mgr`` = position of its
    with-enter event, the expression that made it, its class): the latest store into that
    attribute by __enter__/__exit__ run in place for the same ``with``; else what the
    constructor stores there, in terms of the constructor's arguments at the ``with``
    """
    with_pos, ctor, cls_qn = mgr
    for pos in range(min(index, len(path.events)) - 1, with_pos, -1):
        seen = path.events[pos]
        if seen.kind == 'store' and seen.data.get('mgr') is not None and \
                seen.data['mgr'][0] == with_pos and isinstance(seen.node, ast.Attribute) and \
                seen.node.attr == attr and isinstance(seen.node.value, ast.Name) and \
                seen.node.value.id == 'self' and seen.data.get('aug') is None:
            value = seen.data.get('value')
            if value is None:
                return None
            if trace is not None:
                trace.append(pos)
            return value_expr(path, pos, value, depth, keep_clock, keep, trace=trace)
    # the constructor: `self.attr = <expr over its parameters>` in a straight-line __init__
    program = path.events[with_pos].fn.module.program
    made = _constructed(program, path, with_pos, ctor, cls_qn)
    if made is None:
        return None
    init, bound = made
    stores = [n for n in init.node.body if isinstance(n, ast.Assign) and len(n.targets) == 1
              and isinstance(n.targets[0], ast.Attribute) and n.targets[0].attr == attr
              and isinstance(n.targets[0].value, ast.Name) and n.targets[0].value.id == 'self']
    if len(stores) != 1 or any(isinstance(n, (ast.If, ast.For, ast.While, ast.Try, ast.With))
                               for n in init.node.body):
        return None
    import copy

    class Bind(ast.NodeTransformer):
        def visit_Name(self, node):
            if isinstance(node.ctx, ast.Load) and node.id in bound:
                return copy.deepcopy(bound[node.id])
            return node
    value = Bind().visit(copy.deepcopy(stores[0].value))
    if any(isinstance(n, ast.Name) and n.id == 'self' and not any(
            n is m for b in bound.values() for m in ast.walk(b)) for n in ast.walk(value)):
        pass  # `self` here can only come from the arguments (bound copies)
    for fresh in ast.walk(value):
        if isinstance(fresh, ast.expr) and not hasattr(fresh, 'lineno'):
            ast.copy_location(fresh, ctor)
    if trace is not None:
        trace.append(with_pos)
    return value_expr(path, with_pos, value, depth, keep_clock, keep, trace=trace)


def _constructed(program, path: Path, with_pos: int, ctor, cls_qn: str):
    """(__init__ of the manager class, its parameters bound to expressions of the ``with``
    statement's frame): for ``with K(a, b)`` directly, or for ``with f(x)`` where the one
    function called only returns ``K(...)``"""
    init = program.find_method(cls_qn, '__init__')
    if init is None or not isinstance(ctor, ast.Call):
        return None
    call, outer = ctor, {}
    binding = program.resolve_dotted(path.events[with_pos].fn.module, ctor.func) \
        if isinstance(ctor.func, (ast.Name, ast.Attribute)) else None
    if not (binding and binding[0] == 'class' and binding[1] == cls_qn):
        # a factory: the call event of the context expression names the function
        factory = None
        for pos in range(with_pos - 1, max(with_pos - 12, -1), -1):
            seen = path.events[pos]
            if seen.kind == 'call' and seen.node is ctor:
                callees = seen.data.get('callees') or []
                if len(callees) == 1:
                    factory = callees[0].fn
                break
            if seen.kind == 'enter' and seen.node is ctor and seen.data.get('callee'):
                factory = seen.data['callee'].fn  # the factory itself was run in place
                break
        if factory is None or isinstance(factory.node, ast.Lambda):
            return None
        stmts = [n for n in factory.node.body
                 if not (isinstance(n, ast.Expr) and isinstance(n.value, ast.Constant))]
        if len(stmts) != 1 or not isinstance(stmts[0], ast.Return) or \
                not isinstance(stmts[0].value, ast.Call):
            return None
        outer = {name: arg for name, (arg, _p) in _bind_call(ctor, factory, 0).items()}
        if factory.cls is not None and not factory.is_static and \
                isinstance(ctor.func, ast.Attribute):
            first = (factory.node.args.posonlyargs + factory.node.args.args)[0].arg
            outer[first] = ctor.func.value
        call = stmts[0].value
    import copy
    bound = {}
    params = (init.node.args.posonlyargs + init.node.args.args)[1:]
    for param, arg in zip(params, call.args):
        if isinstance(arg, ast.Starred):
            return None
        bound[param.arg] = arg
    for kw in call.keywords:
        if kw.arg is None:
            return None
        bound[kw.arg] = kw.value
    if outer:
        class Outer(ast.NodeTransformer):
            def visit_Name(self, node):
                if isinstance(node.ctx, ast.Load) and node.id in outer:
                    return copy.deepcopy(outer[node.id])
                return node
        bound = {name: Outer().visit(copy.deepcopy(arg)) for name, arg in bound.items()}
    return init, bound


def _loop_element(path: Path, pos: int, store: Event, depth, keep_clock, keep, trace):
    """the value a loop variable holds in this pass, when the loop walks a tuple/list
    *display* (after expansion): pass k holds element k"""
    loop = store.data.get('stmt')
    if not isinstance(loop, (ast.For, ast.AsyncFor)) or store.node is not loop.target or \
            pos == 0 or depth <= 0:
        return None
    start = path.events[pos - 1]
    if start.kind != 'iter-next' or start.node is not loop:
        return None
    # number of this pass: iter-next events of the loop since it was (re-)entered
    number = 0
    for before in range(pos - 1, -1, -1):
        event = path.events[before]
        if event.node is loop and event.data.get('fid') == start.data.get('fid'):
            if event.kind == 'iter-next':
                number += 1
            elif event.kind in ('iter-end', 'iter-stop'):
                break
    source = value_expr(path, pos - 1, loop.iter, depth - 1, keep_clock, keep, trace=trace)
    if isinstance(source, (ast.Tuple, ast.List)) and not any(
            isinstance(e, ast.Starred) for e in source.elts) and \
            1 <= number <= len(source.elts):
        return source.elts[number - 1]
    return None


_MUTATORS = frozenset((
    'append', 'appendleft', 'pop', 'popleft', 'popitem', 'remove', 'clear', 'add', 'discard',
    'insert', 'extend', 'extendleft', 'update', 'setdefault', 'sort', 'reverse', 'rotate'))


def _makes_container(value) -> bool:
    """the expression creates a new container (whose later content it does not describe)"""
    if isinstance(value, (ast.List, ast.Dict, ast.Set, ast.ListComp, ast.SetComp,
                          ast.DictComp)):
        return True
    return isinstance(value, ast.Call) and isinstance(value.func, (ast.Name, ast.Attribute)) \
        and ast.unparse(value.func).split('.')[-1] in (
            'list', 'dict', 'set', 'deque', 'SortedList', 'SortedKeyList', 'SortedDict',
            'OrderedDict', 'defaultdict', 'WeakSet', 'bytearray')


def _mutated_between(path: Path, start: int, stop: int, name: str) -> bool:
    for event in path.events[start + 1:min(stop, len(path.events))]:
        node = event.node
        if event.kind == 'call' and isinstance(node, ast.Call) and \
                isinstance(node.func, ast.Attribute) and \
                isinstance(node.func.value, ast.Name) and node.func.value.id == name and \
                node.func.attr in _MUTATORS:
            return True
        if event.kind in ('store', 'del') and isinstance(node, ast.Subscript) and \
                isinstance(node.value, ast.Name) and node.value.id == name:
            return True
    return False


def _dotted_text(expr):
    parts = []
    while isinstance(expr, ast.Attribute):
        parts.append(expr.attr)
        expr = expr.value
    if isinstance(expr, ast.Name):
        return '.'.join([expr.id] + parts[::-1])
    return None


def _rebound_between(path: Path, start: int, stop: int, dotted: str) -> bool:
    attr = dotted.rsplit('.', 1)[-1]
    for event in path.events[start + 1:min(stop, len(path.events))]:
        if event.kind in ('store', 'del') and isinstance(event.node, ast.Attribute) and \
                event.node.attr == attr:
            return True
    return False


def _mentions_state(expr) -> bool:
    """reads something other activities can change (attributes, calls, subscripts)"""
    return any(isinstance(n, (ast.Attribute, ast.Call, ast.Subscript, ast.Await))
               for n in ast.walk(expr))


def _last_suspension(path: Path, stop: int) -> int:
    from .engine import is_suspension
    for pos in range(min(stop, len(path.events)) - 1, -1, -1):
        if is_suspension(path.events[pos]):
            return pos
    return -1


def path_atoms(path: Path, start: int = 0, stop: int = None, keep=()) -> dict:
    """
    what the tests on ``path`` (between two positions, top frame) established *as of
    ``stop``*, with the tested operands expanded to the values that reach them:
    ``{('isnone', 'self._value[1]'): False, ('truth', 'self.defused'): False}``.
    An outcome that speaks about shared state (attributes, calls) counts only when it was
    read after the last suspension before ``stop``: anything older may have changed.
    """
    result = {}
    stop = len(path.events) if stop is None else stop
    fence = _last_suspension(path, stop)
    for pos in range(start, stop):
        event = path.events[pos]
        if event.kind not in ('test', 'assert') or event.depth != 0:
            continue
        key = event.data.get('key')
        if not key or len(key) != 2 or not isinstance(key[1], str):
            continue
        try:
            operand = ast.parse(key[1], mode='eval').body
        except SyntaxError:
            continue
        trace = []
        expanded = value_expr(path, pos, operand, keep=tuple(keep), trace=trace)
        if _mentions_state(expanded) and min(trace + [pos]) <= fence:
            continue  # stale: read before other activities could run
        text = normalise_state_aliases(ast.unparse(expanded))
        truth = event.data.get('value') == event.data.get('positive', True)
        result[(key[0], text)] = truth
        if key[0] == 'truth':
            _decompose(expanded, truth, result)
    return result


def _decompose(expr, truth: bool, result: dict):
    """what the truth of a compound condition says about its parts:
    ``not (a or b)`` makes a and b false, ``a and b`` makes both true"""
    if isinstance(expr, ast.UnaryOp) and isinstance(expr.op, ast.Not):
        _record(expr.operand, not truth, result)
        return
    if isinstance(expr, ast.BoolOp):
        decisive = isinstance(expr.op, ast.And) == truth
        if decisive:
            for value in expr.values:
                _record(value, truth, result)


def _record(expr, truth: bool, result: dict):
    if isinstance(expr, ast.Compare) and len(expr.ops) == 1 and \
            isinstance(expr.ops[0], (ast.Is, ast.IsNot)) and \
            isinstance(expr.comparators[0], ast.Constant) and \
            expr.comparators[0].value is None:
        is_none = truth == isinstance(expr.ops[0], ast.Is)
        key, value = ('isnone', normalise_state_aliases(ast.unparse(expr.left))), is_none
    else:
        key, value = ('truth', normalise_state_aliases(ast.unparse(expr))), truth
    if result.setdefault(key, value) != value:
        # the parts of a compound condition disagree with what was tested directly:
        # no execution takes this path
        result[('infeasible', '')] = True
    _decompose(expr, truth, result)


_VALUE_TEXT = {}


def value_text(path: Path, index: int, expr, **kw) -> str:
    key = (id(path), index, id(expr), tuple(sorted(kw.items())) if kw else None)
    found = _VALUE_TEXT.get(key)
    if found is not None and found[1] is path and found[2] is expr:
        return found[0]
    text = normalise_state_aliases(ast.unparse(value_expr(path, index, expr, **kw)))
    if len(_VALUE_TEXT) > 200000:
        _VALUE_TEXT.clear()
    _VALUE_TEXT[key] = (text, path, expr)
    return text


def event_index(path: Path, event: Event) -> int:
    pos = event.data.get('pos')
    if pos is not None and pos < len(path.events) and path.events[pos] is event:
        return pos
    for pos, candidate in enumerate(path.events):
        if candidate is event:
            return pos
    return len(path.events)


def text_at(path: Path, event: Event, expr) -> str:
    """text of ``expr`` as evaluated at ``event``, locals replaced by what reaches them"""
    return value_text(path, event_index(path, event), expr)


# ------------------------------------------------------ order-preserving maps
class SeqMap:
    """``name`` holds ``[elt(var) for var in src]``, built by a comprehension or by an
    append loop; ``stmts`` are the statements that build it"""

    def __init__(self, name, src, var, elt, stmts, kind, cond=None):
        self.name, self.src, self.var, self.elt = name, src, var, elt
        self.stmts, self.kind, self.cond = stmts, kind, cond

    def __repr__(self):
        return '<%s = [%s for %s in %s] (%s)>' % (
            self.name, ast.unparse(self.elt), self.var, ast.unparse(self.src), self.kind)


def _blocks(fnode):
    """every statement list of a function body (not of nested definitions)"""
    stack = [fnode.body]
    while stack:
        block = stack.pop()
        yield block
        for stmt in block:
            if isinstance(stmt, (ast.FunctionDef, ast.AsyncFunctionDef, ast.ClassDef)):
                continue
            for field in ('body', 'orelse', 'finalbody'):
                sub = getattr(stmt, field, None)
                if isinstance(sub, list) and sub and isinstance(sub[0], ast.stmt):
                    stack.append(sub)
            for handler in getattr(stmt, 'handlers', []):
                stack.append(handler.body)


def substitute_temps(stmts, expr):
    """``expr`` with names assigned by the straight-line ``stmts`` before it replaced"""
    import copy
    env = {}

    class Sub(ast.NodeTransformer):
        def visit_Name(self, node):
            if isinstance(node.ctx, ast.Load) and node.id in env:
                return copy.deepcopy(env[node.id])
            return node
    for stmt in stmts:
        if isinstance(stmt, ast.Assign) and len(stmt.targets) == 1 and \
                isinstance(stmt.targets[0], ast.Name):
            env[stmt.targets[0].id] = Sub().visit(copy.deepcopy(stmt.value))
        elif isinstance(stmt, ast.AnnAssign) and isinstance(stmt.target, ast.Name) and \
                stmt.value is not None:
            env[stmt.target.id] = Sub().visit(copy.deepcopy(stmt.value))
    return Sub().visit(copy.deepcopy(expr))


def straight_line(body) -> bool:
    """only simple assignments and expression statements: every statement runs once"""
    for stmt in body:
        if not isinstance(stmt, (ast.Assign, ast.AnnAssign, ast.Expr)):
            return False
        if isinstance(stmt, ast.Assign) and not (
                len(stmt.targets) == 1 and isinstance(stmt.targets[0], ast.Name)):
            return False
        for node in ast.walk(stmt):
            if isinstance(node, (ast.Yield, ast.YieldFrom, ast.NamedExpr, ast.IfExp,
                                 ast.BoolOp)) and False:
                return False
    return True


def _mutations(fnode, name):
    """statements/calls other than plain reads that touch the local list ``name``"""
    stores, calls = [], []
    for node in ast.walk(fnode):
        if isinstance(node, ast.Name) and node.id == name and \
                isinstance(node.ctx, (ast.Store, ast.Del)):
            stores.append(node)
        elif isinstance(node, ast.Call) and isinstance(node.func, ast.Attribute) and \
                isinstance(node.func.value, ast.Name) and node.func.value.id == name and \
                node.func.attr not in ('copy', 'index', 'count'):
            calls.append(node)
        elif isinstance(node, ast.Subscript) and isinstance(node.value, ast.Name) and \
                node.value.id == name and isinstance(node.ctx, (ast.Store, ast.Del)):
            stores.append(node)
        elif isinstance(node, ast.AugAssign) and isinstance(node.target, ast.Name) and \
                node.target.id == name:
            stores.append(node)
    return stores, calls


def comprehension_of(value):
    """the comprehension a value is made by: the comprehension itself, or the generator
    expression given to ``list()`` / ``tuple()``; else the value"""
    if isinstance(value, ast.Call) and isinstance(value.func, ast.Name) and \
            value.func.id in ('list', 'tuple') and len(value.args) == 1 and \
            not value.keywords and isinstance(value.args[0], (ast.GeneratorExp, ast.ListComp)):
        return value.args[0]
    return value


def sequence_maps(fnode) -> dict:
    """name -> SeqMap for every local list that is provably an in-order map"""
    result = {}
    for block in _blocks(fnode):
        for index, stmt in enumerate(block):
            target = value = None
            if isinstance(stmt, ast.Assign) and len(stmt.targets) == 1 and \
                    isinstance(stmt.targets[0], ast.Name):
                target, value = stmt.targets[0].id, stmt.value
            elif isinstance(stmt, ast.AnnAssign) and isinstance(stmt.target, ast.Name):
                target, value = stmt.target.id, stmt.value
            elif isinstance(stmt, ast.Return):
                target, value = '<return>', stmt.value
            if value is None:
                continue
            inner = comprehension_of(value)
            if isinstance(inner, ast.ListComp) or (
                    isinstance(inner, ast.GeneratorExp) and inner is not value):
                # [f(x) for x in S], list(f(x) for x in S), tuple(...)
                value = inner
                gens = value.generators
                if len(gens) == 1 and len(gens[0].ifs) <= 1 and not gens[0].is_async and \
                        isinstance(gens[0].target, ast.Name):
                    found = SeqMap(target, gens[0].iter, gens[0].target.id, value.elt,
                                   [stmt], 'comprehension',
                                   cond=gens[0].ifs[0] if gens[0].ifs else None)
                    if target != '<return>':
                        stores, calls = _mutations(fnode, target)
                        if len(stores) != 1 or calls:
                            continue
                    result[target] = found
                continue
            empty = (isinstance(value, ast.List) and not value.elts) or (
                isinstance(value, ast.Call) and ast.unparse(value.func) == 'list'
                and not value.args and not value.keywords)
            if not empty or target == '<return>':
                continue
            stores, calls = _mutations(fnode, target)
            if len(stores) != 1 or len(calls) != 1 or calls[0].func.attr != 'append' or \
                    len(calls[0].args) != 1 or calls[0].keywords:
                continue
            following = []
            todo = list(block[index + 1:])
            while todo:
                # the loop may sit inside `with` blocks that follow (entered exactly once)
                nxt = todo.pop(0)
                following.append(nxt)
                if isinstance(nxt, (ast.With, ast.AsyncWith)):
                    todo = list(nxt.body) + todo
            for later in following:
                if isinstance(later, ast.For) and any(c is calls[0] for c in ast.walk(later)):
                    body, cond = later.body, None
                    if len(body) == 1 and isinstance(body[0], ast.If) and not body[0].orelse:
                        # for x in S: if c(x): L.append(f(x))
                        body, cond = body[0].body, body[0].test
                    appends = [k for k, b in enumerate(body)
                               if isinstance(b, ast.Expr) and b.value is calls[0]]
                    if later.orelse or not isinstance(later.target, ast.Name) or \
                            not straight_line(body) or len(appends) != 1:
                        break
                    elt = substitute_temps(body[:appends[0]], calls[0].args[0])
                    result[target] = SeqMap(target, later.iter, later.target.id, elt,
                                            [stmt, later], 'append-loop', cond=cond)
                    break
    return result


# ------------------------------------------------------------- inequalities on paths
def asserted(test, value):
    """the normalised inequality known to hold once ``test`` evaluated to ``value``:
    (strict?, polynomial of bigger - smaller), None for anything else"""
    from .props.c19 import inequality
    found = inequality(test)
    if found is None:
        return None
    strict, diff = found
    if value:
        return strict, diff
    return (not strict), tuple(sorted((k, -v) for k, v in diff))


def stable_locals(path: Path, expr) -> bool:
    """only constants and locals/parameters that are never re-bound on the path"""
    for node in ast.walk(expr):
        if isinstance(node, (ast.Attribute, ast.Call, ast.Subscript, ast.Await)):
            return False
        if isinstance(node, ast.Name) and isinstance(node.ctx, ast.Load):
            if reaching_store(path, len(path.events), node.id) is not None:
                return False
    return True


def path_inequalities(path: Path, start: int = 0, stop: int = None, transform=None,
                      **kw) -> list:
    """
    [(position, inequality, from an assert?)] for the comparisons tested on a path segment,
    operands expanded to the values that reach them.  A *remembered* outcome
    (``ok = a > b`` ... ``if ok:``) counts only while its operands cannot have changed.
    ``transform(expr, fn)`` may rewrite the expanded comparison (clock symbols).
    """
    result = []
    stop = len(path.events) if stop is None else stop
    fence = _last_suspension(path, stop)
    for pos in range(start, stop):
        event = path.events[pos]
        if event.kind not in ('test', 'assert') or 'value' not in event.data:
            continue
        trace = []
        seen = value_expr(path, pos, event.node, trace=trace, **kw)
        if not isinstance(seen, ast.Compare):
            continue
        if _mentions_state(seen) and min(trace + [pos]) <= fence:
            continue  # stale as of `stop`
        if transform is not None:
            seen = transform(seen, event.fn)
        found = asserted(seen, event.data['value'])
        if found is not None:
            result.append((pos, found, event.kind == 'assert'))
    return result


# ------------------------------------------------------------------- iterations
class Iteration:
    """one pass through a loop body on a path (``for`` statement or comprehension)"""

    def __init__(self, path, start, stop, node, number):
        self.path, self.start, self.stop, self.node, self.number = path, start, stop, node, \
            number
        self.var = ast.unparse(node.target)
        self.source = value_text(path, start, node.iter)

    def atoms(self, upto=None, keep=()):
        keep = tuple(keep) + tuple(n.id for n in ast.walk(self.node.target)
                                   if isinstance(n, ast.Name))
        return path_atoms(self.path, self.start, self.stop if upto is None else upto,
                          keep=keep)

    def events(self):
        return list(enumerate(self.path.events[self.start:self.stop], self.start))


def iterations(path: Path, depth0: bool = True) -> list:
    """all loop iterations on the path, in order of their start"""
    result = []
    counts = {}
    for index, event in enumerate(path.events):
        if event.kind != 'iter-next' or (depth0 and event.depth != 0):
            continue
        stop = len(path.events)
        for later in range(index + 1, len(path.events)):
            other = path.events[later]
            if other.kind in ('iter-next', 'iter-end', 'iter-stop') and \
                    other.node is event.node and \
                    other.data.get('fid') == event.data.get('fid'):
                stop = later
                break
        counts[id(event.node)] = counts.get(id(event.node), 0) + 1
        result.append(Iteration(path, index, stop, event.node, counts[id(event.node)]))
    return result


def loop_completed(path: Path, node) -> bool:
    """the loop ran to exhaustion on this path (no break / return out of it)"""
    return any(e.kind == 'iter-end' and e.node is node for e in path.events)


def over_x(expr, var: str) -> str:
    """text of ``expr`` with the loop variable renamed to ``x_``"""
    import copy

    class Sub(ast.NodeTransformer):
        def visit_Name(self, node):
            return ast.Name(id='x_', ctx=node.ctx) if node.id == var else node
    return ast.unparse(Sub().visit(copy.deepcopy(expr)))


def mapped_sequence(fn_node, expr):
    """
    (source text, element over x_, filter over x_ or None) when ``expr`` denotes
    ``f(x) for x in S [if c(x)]``: a generator expression / list comprehension, such a
    thing wrapped in tuple()/list(), a starred form of it, or a local list built by the
    equivalent append loop.  None otherwise.
    """
    if isinstance(expr, ast.Starred):
        expr = expr.value
    if isinstance(expr, ast.Call) and isinstance(expr.func, ast.Name) and \
            expr.func.id in ('tuple', 'list') and len(expr.args) == 1 and not expr.keywords:
        expr = expr.args[0]
    if isinstance(expr, (ast.GeneratorExp, ast.ListComp)) and len(expr.generators) == 1 \
            and not expr.generators[0].is_async and \
            isinstance(expr.generators[0].target, ast.Name) and \
            len(expr.generators[0].ifs) <= 1:
        gen = expr.generators[0]
        cond = over_x(gen.ifs[0], gen.target.id) if gen.ifs else None
        return ast.unparse(gen.iter), over_x(expr.elt, gen.target.id), cond
    if isinstance(expr, ast.Name) and fn_node is not None:
        found = sequence_maps(fn_node).get(expr.id)
        if found is not None:
            cond = over_x(found.cond, found.var) if getattr(found, 'cond', None) is not None \
                else None
            return ast.unparse(found.src), over_x(found.elt, found.var), cond
    return None


def activation_resumes(path: Path):
    """[(index, 'send'|'throw', activation text)]: calls that resume the coroutine of an
    activation -- ``<activation>.target.send(None)`` / ``.throw(<activation>.signal)``
    after expansion of locals and helper parameters"""
    result = []
    for index, event in enumerate(path.events):
        node = event.node
        if event.kind != 'call' or not isinstance(node, ast.Call) or \
                not isinstance(node.func, ast.Attribute) or \
                node.func.attr not in ('send', 'throw'):
            continue
        receiver = value_expr(path, index, node.func.value)
        if isinstance(receiver, ast.Attribute) and receiver.attr == 'target':
            result.append((index, node.func.attr,
                           normalise_state_aliases(ast.unparse(receiver.value))))
    return result


def thunk_body(an: Analysis, fn: FunctionInfo, expr, depth: int = 3):
    """
    what a zero-argument callable computes when called, as one expression in terms of the
    names visible where it was made: the body of ``lambda: E``, the call ``F(a, b)`` that
    ``functools.partial(F, a, b)`` stands for -- with ``F`` replaced by its body when it is
    a plain function that only returns one expression.  None if not of these forms.
    """
    import copy
    if isinstance(expr, ast.Lambda):
        args = expr.args
        if args.args or args.posonlyargs or args.kwonlyargs or args.vararg or args.kwarg:
            return None
        body = expr.body
    elif isinstance(expr, ast.Call) and ast.unparse(expr.func).split('.')[-1] == 'partial' \
            and expr.args and not any(isinstance(a, ast.Starred) for a in expr.args):
        binding = an.p.resolve_dotted(fn.module, expr.func)
        if not binding or binding[0] != 'ext' or binding[1] != 'functools.partial':
            return None
        body = ast.copy_location(ast.Call(func=expr.args[0], args=list(expr.args[1:]),
                                          keywords=list(expr.keywords)), expr)
    elif isinstance(expr, ast.Tuple) and getattr(expr, 'record_class', None):
        # a callable record: ``Record(a, b)`` whose ``__call__(self)`` returns one expression
        # over its fields stands for that expression over ``a`` and ``b``
        method = an.p.find_method(expr.record_class, '__call__')
        if method is None or method.kind != 'sync' or len(method.node.args.args) != 1 or \
                method.node.args.vararg or method.node.args.kwarg or \
                method.node.args.kwonlyargs:
            return None
        stmts = [s for s in method.node.body
                 if not (isinstance(s, ast.Expr) and isinstance(s.value, ast.Constant))]
        if len(stmts) != 1 or not isinstance(stmts[0], ast.Return) or stmts[0].value is None:
            return None
        me = method.node.args.args[0].arg
        given = dict(zip(expr.record_fields, expr.elts))

        class Field(ast.NodeTransformer):
            def visit_Attribute(self, node):
                if isinstance(node.value, ast.Name) and node.value.id == me and \
                        node.attr in given:
                    return copy.deepcopy(given[node.attr])
                return self.generic_visit(node)
        body = Field().visit(copy.deepcopy(stmts[0].value))
        if any(isinstance(n, ast.Name) and n.id == me for n in ast.walk(body)):
            return None
    else:
        return None
    for _ in range(depth):
        if not (isinstance(body, ast.Call) and isinstance(body.func, ast.Name)):
            break
        binding = an.p.resolve_dotted(fn.module, body.func)
        target = an.p.functions.get(binding[1]) if binding and binding[0] == 'func' else None
        if target is None or target.kind != 'sync' or target.cls is not None:
            break
        stmts = [s for s in target.node.body
                 if not (isinstance(s, ast.Expr) and isinstance(s.value, ast.Constant))]
        if len(stmts) != 1 or not isinstance(stmts[0], ast.Return) or \
                stmts[0].value is None:
            break
        bound = _bind_call(body, target, 0)
        params = [a.arg for a in target.node.args.posonlyargs + target.node.args.args
                  + target.node.args.kwonlyargs]
        if set(bound) != set(params):
            break

        class Sub(ast.NodeTransformer):
            def visit_Name(self, node):
                if isinstance(node.ctx, ast.Load) and node.id in bound:
                    return copy.deepcopy(bound[node.id][0])
                return node
        body = Sub().visit(copy.deepcopy(stmts[0].value))
    return body


def constructor_field(an: Analysis, cls_qn: str, field: str, depth: int = 5):
    """
    the expression stored into ``self.<field>`` when an instance of ``cls_qn`` is made, in
    terms of the parameters of that class's ``__init__``: the single unconditional store
    in the constructor, or the one made by the base class constructor it calls
    (``super().__init__(a, b)`` / ``Base.__init__(self, a, b)``) with the arguments in
    place.  None when there is no such single store.
    """
    import copy

    def stored(init, defining, depth):
        if init is None or depth <= 0:
            return None
        me = init.node.args.args[0].arg if init.node.args.args else 'self'
        stores = [n for n in ast.walk(init.node) if isinstance(n, (ast.Assign, ast.AnnAssign))
                  and any(ast.unparse(t) == '%s.%s' % (me, field) for t in (
                      n.targets if isinstance(n, ast.Assign) else [n.target]))]
        if stores:
            top = [n for n in init.node.body if n in stores]
            if len(stores) != 1 or len(top) != 1 or stores[0].value is None:
                return None
            return copy.deepcopy(stores[0].value)
        for stmt in init.node.body:
            call = stmt.value if isinstance(stmt, ast.Expr) else None
            if not (isinstance(call, ast.Call) and isinstance(call.func, ast.Attribute)
                    and call.func.attr == '__init__'):
                continue
            owner = call.func.value
            if isinstance(owner, ast.Call) and ast.unparse(owner.func) == 'super':
                base = an.p.find_method(cls_qn, '__init__', after=defining)
                call_args = call
            else:
                binding = an.p.resolve_dotted(init.module, owner)
                base = an.p.find_method(binding[1], '__init__') \
                    if binding and binding[0] == 'class' else None
                call_args = ast.Call(func=call.func, args=list(call.args[1:]),
                                     keywords=list(call.keywords))
            if base is None or base.cls is None:
                return None
            inner = stored(base, base.cls.qn, depth - 1)
            if inner is None:
                return None
            bound = _bind_call(call_args, base, 0)

            class Sub(ast.NodeTransformer):
                def visit_Name(self, node):
                    if isinstance(node.ctx, ast.Load) and node.id in bound:
                        return copy.deepcopy(bound[node.id][0])
                    return node
            params = {a.arg for a in base.node.args.args[1:] + base.node.args.kwonlyargs}
            used = {n.id for n in ast.walk(inner) if isinstance(n, ast.Name)} & params
            if used - set(bound):
                return None  # a default of the base constructor: not followed
            return Sub().visit(inner)
        return None

    init = an.p.find_method(cls_qn, '__init__')
    if init is None or init.cls is None:
        return None
    return stored(init, init.cls.qn, depth)


def is_source_node(tree, node) -> bool:
    """``tree`` (an expanded copy made by value_expr) is the source expression ``node``"""
    return type(tree) is type(node) and \
        getattr(tree, 'lineno', None) == node.lineno and \
        getattr(tree, 'col_offset', None) == node.col_offset and \
        getattr(tree, 'end_col_offset', None) == node.end_col_offset and \
        getattr(tree, 'end_lineno', None) == node.end_lineno and \
        (not isinstance(node, ast.Call) or ast.dump(tree.func) == ast.dump(node.func))


def private_closure(an: Analysis, cls_qn: str, entries) -> set:
    """``entries`` (method names of a class) plus the private methods of that class whose
    every call site lies in a function of the closure: stages split off an entry point"""
    closure = set(entries)
    info = an.p.classes[cls_qn]
    changed = True
    while changed:
        changed = False
        for name, method in info.methods.items():
            if name in closure or not name.startswith('_') or \
                    (name.startswith('__') and name.endswith('__')):
                continue
            sites = call_sites_of(an, method.qn)
            if sites and all(caller.cls is not None and caller.cls.qn == cls_qn
                             and caller.name in closure for caller, _n, _f in sites):
                closure.add(name)
                changed = True
    return closure


def origin(path: Path, index: int, expr):
    """(expanded text, position of the store that created the value | None): two
    expressions with the same origin denote the very same object on this path"""
    trace = []
    text = normalise_state_aliases(ast.unparse(value_expr(path, index, expr, trace=trace)))
    return text, (trace[-1] if trace else None)


def receiver_at(path: Path, event: Event):
    """text of the object a method is called on, locals replaced by what reaches them"""
    node = event.node
    if isinstance(node, ast.Call) and isinstance(node.func, ast.Attribute):
        return text_at(path, event, node.func.value)
    return None


def contradicts_constants(path: Path, upto: int = None) -> bool:
    """some comparison on the path is, once locals are replaced by the constants that
    reach them, a comparison of numbers whose recorded outcome is wrong (`0 > 0` taken as
    true): the path is infeasible"""
    upto = len(path.events) if upto is None else upto
    for pos in range(upto):
        event = path.events[pos]
        if event.kind != 'test' or not isinstance(event.node, ast.Compare) or \
                len(event.node.ops) != 1:
            continue
        seen = value_expr(path, pos, event.node)
        if not isinstance(seen, ast.Compare):
            continue
        sides = [seen.left, seen.comparators[0]]
        if not all(isinstance(x, ast.Constant) and isinstance(x.value, (int, float))
                   and not isinstance(x.value, bool) for x in sides):
            continue
        a, b = sides[0].value, sides[1].value
        op = type(seen.ops[0])
        actual = {ast.Lt: a < b, ast.LtE: a <= b, ast.Gt: a > b, ast.GtE: a >= b,
                  ast.Eq: a == b, ast.NotEq: a != b}.get(op)
        if actual is not None and actual != bool(event.data.get('value')):
            return True
    return False
