"""what MANIFEST.json claims per property (used by tools/mkmanifest.py)"""

_NOTE = ('Decides the structural clauses listed in DESIGN.md section 5 for this property '
         '(necessary conditions visible in the shape of the code), not the behaviour as a '
         'whole; trusted base: Python semantics as encoded in usimlint/paths.py, the external '
         'models (contextmanager, ExitStack, deque, heapq, sortedcontainers, weakref, '
         'asyncstdlib.islice), sync helpers raise only what their summaries say.')

CLAIMS = {
    'C20': {
        'text': 'Must-yield rule over every discovered public awaitable operation (per '
                'concrete receiver class): all entry->normal-exit paths, and all '
                'entry|yield->yield segments of async generators, are enumerated and each '
                'must pass a suspension site that must suspend (base fact: the raw yield of '
                'Hibernate.__await__). Exhaustive over paths with loops unrolled twice; '
                'this is the whole of C20 except user payloads and operations that end by '
                'raising.',
        'note': _NOTE,
    },
}

CLAIMS['C09'] = {
    'text': 'Lock: ownership writers and their dominating tests (mutual exclusion), the '
            'wait in __aenter__ followed along the exceptional edge of every signal class '
            '(designated owner passes the lock on, nobody swallows, non-designated waiters '
            'never release), re-entrancy bookkeeping on every path of __aenter__/__aexit__, '
            'suspension-free non-swallowing __aexit__, FIFO discipline of the waiter list, '
            'and agreement of `available` with the no-wait condition. All paths enumerated; '
            'fairness times are runtime values and not decided.',
    'note': _NOTE,
}

CLAIMS['C10'] = {
    'text': 'Queue: window rule (no suspension between popping an item and returning it, on '
            'every path incl. the exceptional exits of every suspension site), domination of '
            'append by `not closed` and of every receive-side StreamClosed by evidence of an '
            'empty buffer, wake-up pairing inside one atomic block, FIFO discipline of buffer '
            'and waiter list, the whole receive under the read mutex, iteration yields exactly '
            'the received values; the Lock discipline (rules of C09) of the mutex that orders '
            'the receivers. Per-consumer value sequences are runtime histories and are '
            'not decided.',
    'note': _NOTE,
}
CLAIMS['C11'] = {
    'text': 'Channel: consumer-buffer registration paired with deregistration on every exit '
            '(all signal classes at every suspension/yield), broadcast loop over all buffers '
            'plus wake-all in one atomic block under `not closed`, the order of the '
            'empty/closed tests on every leaving path, pop->yield window, FIFO buffer '
            'operations; each subscription registers under a fresh key of its own (same-object '
            'identity followed through locals and helpers); a consumer waits for the '
            'notification only after it saw the channel open in the same atomic block. '
            'Message sequences as values are '
            'not decided.',
    'note': _NOTE,
}

CLAIMS['C13'] = {
    'text': 'Pipe: add/del subscriber pairing on every exit of transfer (normal and each '
            'signal class at each suspension site), re-plan pairing (table mutation -> '
            'rescale, scale store -> wake all in one atomic block, waits inside the '
            'congestion subscription), and the fluid-model formulas (scale, planned delay, '
            'accounting, window order, unbounded delay) compared as rational-function normal '
            'forms with roles discovered from the code; the registered share is the requested '
            'limit, unclamped. The numeric claim that completion '
            'times equal the integral up to rounding is not decided.',
    'note': _NOTE,
}

CLAIMS['C12'] = {
    'text': 'Resources: with __remove_resources__/__insert_resources__/Tracked.set inlined, '
            'every path of BorrowedResources.__aenter__/__aexit__ (3 receivers, exc in '
            '{none, exception, GeneratorExit}, every signal class at every suspension site) is '
            'balanced: what changed hands is given back synchronously or by a dispatched '
            'compensation; each debit is dominated by the availability predicate (test, await '
            'post-condition or usage assertion); claim/borrow/guard use one predicate; claim '
            'never suspends before taking; forced close is suspension free; generated level '
            'arithmetic uses the right symbols; shares made by borrow/claim start empty and '
            'root supplies start with their declared levels. One genuine defect is recorded as known '
            'finding (nested borrow outliving its share). Level values after a history are '
            'not decided.',
    'note': _NOTE,
}

CLAIMS['C06'] = {
    'text': 'Task lifecycle: writers of the result field and the `_result is None` guard of '
            'every write in cancel/__close__; every terminal path of the payload wrapper '
            '(success, failure, each signal class at each suspension, pre-run exit) stores '
            'the result at most once and sets done exactly once, atomically and afterwards; '
            'Task.__await__ returns/raises the stored result; cancel distinguishes '
            'finished/created/running with the right registration order, target, token '
            'plumbing; only genuine failures report failed=True; the payload closed only '
            'where a missing `.close` is tolerated; the not-started predicate '
            'is sound for this interpreter (compile+dis of a sample coroutine, nothing run). '
            'What user payloads do with a CancelTask they catch is not decided.',
    'note': _NOTE,
}
CLAIMS['C04'] = {
    'text': 'Containment: every way out of Scope.__aexit__ (3 receivers x pending exception '
            'kinds x every signal class at every suspension site of the graceful branch) '
            'passes _close_scope exactly once, graceful exits await the children first, '
            '_close_scope orders interrupts-off/children/volatile; _await_children leaves only '
            'after testing the live list empty after its last suspension; closing loops '
            'iterate copies; do() registers/refuses correctly and __child_finished__ agrees '
            'on the list; every way through _disable_interrupts of each scope class marks the '
            'scope closed and withdraws its own signals; the wrapper reports exactly once and '
            'nothing escapes it; unsubscribing what was subscribed cannot fail (rule of C03); '
            'Task.__close__ handles started and '
            'unstarted tasks; forced-close discipline over all 75 suspension-capable '
            'function/receiver pairs. That user payloads do not swallow GeneratorExit is '
            'assumed.',
    'note': _NOTE,
}

CLAIMS['C05'] = {
    'text': 'Scope failure content: the wrapper classifies each exception class arriving from '
            'the payload (failed=True iff neither CancelTask nor GeneratorExit, the caught '
            'object stored); writers/readers of the failure list; _collect_exceptions as an '
            'in-order filter with promoted failures returned alone and Concurrent(*filtered); '
            'either-or decided by truth-inlining __aexit__ -> _propagate_exceptions -> '
            '_is_suppressed per receiver and per class of pending exception (foreign '
            'exceptions never swallowed nor replaced by Concurrent, own signal absorbed or '
            'replaced); promptness chain failed child -> __cancel__ -> undated own signal; '
            'SUPPRESS/PROMOTE tables; a failing child is recorded whatever state the scope '
            'is in; the closing sequence on every exit and no walk over the live child list '
            'while children are closed (rules shared with C04). Identity and order of failures as run-time values follow '
            'only together with the loop FIFO (C02) and are not decided here.',
    'note': _NOTE,
}

CLAIMS['C01'] = {
    'text': 'Seven structural lemmas whose conjunction is the monotonicity / no-early-no-late '
            'argument: clock writers and the popped key; min-pop of both wait-queue classes; '
            'every dated schedule call (followed through pass-through parameters, closures '
            'and parameterless helpers to its callers) dominated by delay > 0 / date > now; '
            'drain-before-next-pop loop shape; keyword plumbing of delays and dates; truth '
            'terms plus the await and subscribe action tables of After/Before/Moment/'
            'Eternity/Instant evaluated exhaustively under the three orderings of clock and '
            'date (values are only compared, so the orderings cover everything); optional '
            'dates tested with `is None`; the wake-up of suspend/postpone withdrawn on every '
            'exit (rule shared with C03). Numeric behaviour of user-chosen dates (rounding, '
            'inf) is not decided.',
    'note': _NOTE,
}

CLAIMS['C08'] = {
    'text': 'Conditions: must-yield for all 14 condition classes; EXIT-PRED (normal exit only '
            'through a test of `self` true after the last suspension) for Condition.__await__ '
            'per receiver and Connective.__await_children__, with the time conditions decided '
            'by their exhaustive action tables; no-lost-wake-up (every store to a truth-source '
            'field followed by the right trigger in the same atomic block; writers discovered '
            'by query); connective subscription/unsubscription on all paths; trigger '
            'coverage per class (genuine defect recorded as known finding: All/Any never '
            'trigger their own waiters); boolean algebra of ~/&/| as normal-form complements, '
            'De Morgan, the comparison-operator involution, and purity of every __bool__. '
            'Truth of user-defined comparison operators on tracked values is not decided.',
    'note': _NOTE,
}

CLAIMS['C07'] = {
    'text': 'until()/run(till): subscribe/unsubscribe pairing of the until-scope with the '
            'same (activity, signal) pair and the chained override reached from every exit '
            '(together with C04/P); _is_suppressed as identity tests against signals the '
            'scope created itself, with the truth-inlined __aexit__ ending silently exactly '
            'for them; immediacy <=> truth of every condition class a block can be given '
            '(generic subscribe by paths, time conditions by exhaustive ordering tables, '
            'Delay by plumbing); trigger coverage (known finding: All/Any); Task.__close__ '
            'finalising started and unstarted children alike (rule shared with C04); shape of the '
            'run(till) root. Exit time = min(trigger, completion) as a number is not decided.',
    'note': _NOTE,
}

CLAIMS['C03'] = {
    'text': 'Kernel robustness: all 13 handlers that can catch an internal signal followed '
            'along every signal class (re-raise, identity-proved own signal, or named sink); '
            'life-cycle of every signal creation site (local wake-ups disarmed on every exit, '
            'scope signals attribute-held and released by _disable_interrupts, task '
            'cancellations registered before scheduling and revoked by the wrapper); '
            'subscribe/unsubscribe agreement per notification class with helpers inlined; '
            'revoked activations skipped and the flag plumbing of Activation/Interrupt/'
            'Loop.schedule; immediacy <=> truth (no spin); schedule precondition (C01/L3); '
            'forced-close discipline and the sound not-started predicate; the closing '
            'sequence on every way out of a scope (rule shared with C04), the Lock '
            'discipline behind the kernel assertion in Lock.__aexit__ (rules of C09), '
            'Task.__close__ finalising a task once, the Queue receive discipline (rules of '
            'C10) and the pairing of the subscription context. '
            'Absence of livelock '
            'for arbitrary programs needs a ranking argument over run-time state and is not '
            'decided.',
    'note': _NOTE,
}

CLAIMS['C14'] = {
    'text': 'interval()/delay(): the remaining-delay formula as a rational-function normal '
            'form, the yielded value being the clock re-read after the wait, the three-way '
            'sign split (raise / suspend / postpone) with its guards on every path, early '
            'rejection of negative periods, must-yield for every step and positivity of the '
            'delays handed to suspend; the wake-up of the pause primitives withdrawn on '
            'every exit and StateHandler.assign restoring the clock of this simulation after '
            'a nested run (rules shared with C03/C15). The tick grid as numbers (float accumulation) is not '
            'decided.',
    'note': _NOTE,
}

CLAIMS['C16'] = {
    'text': 'collect()/first(): shape and order rules (in-order spawn, regular vs volatile '
            'children, results awaited in argument order after the scope, count check before '
            'the scope, one FIFO queue sliced by count, yield inside the scope), plus the '
            'path rule that closing first() at its yield runs Scope.__aexit__(GeneratorExit) '
            'without suspending, must-yield, the closing sequence on every exit of the scope '
            'and its absorbing only its own cancellation, Task.__close__ stopping started and '
            'unstarted activities alike, and the pairing of the subscription context a closed '
            'activity leaves. Result times are not decided.',
    'note': _NOTE,
}

CLAIMS['C15'] = {
    'text': 'run()/isolation: the state handle is an instance of a threading.local subclass '
            'that keeps no attribute in slots (per-thread dictionary) '
            'and its loop attribute has two writers; every module level and class level '
            'assignment of the package is classified (class, function, constant, TypeVar, '
            'stateless or inert singleton, named type cache) so that no other shared mutable '
            'object can carry simulation state, and no global/nonlocal statement exists; '
            'assign() restores the saved loop on every path incl. exceptions at its yield; '
            'Loop.run/usim.run shapes; _run_events leaves only on an empty wait queue; the '
            'kernel handles StopIteration only (ActivityLeak iff a value was returned); roots '
            'queued in order at start; the `till` deadline notified at once exactly when it '
            'already holds, and failures of children recorded also while the deadline closes '
            'the scope (rules shared with C07/C05). Real thread interleavings are not explored: they are '
            'made irrelevant by the confinement that is checked.',
    'note': _NOTE,
}

CLAIMS['C02'] = {
    'text': 'Determinism: import and environment audit (no random/time/uuid..., threading '
            'only in the state handler, one environment selector), every iteration site of '
            'the package typed and none iterating a set/frozenset/WeakSet order-sensitively '
            '(one named, justified exception), id()/hash() only in repr; FIFO discipline of '
            'the loop deques and waiter lists; observational equality of the two wait-queue '
            'classes and a strict selector; all 39 asserts effect free (purity summaries), '
            'the 5 `if __debug__:` blocks only define raising stubs, __debug__ read nowhere '
            'else. Hash-seed dependence inside user payloads or third-party libraries is not '
            'decided.',
    'note': _NOTE,
}

CLAIMS['C17'] = {
    'text': 'Concurrent[...] matching: the specialisation predicate is extracted as one '
            'boolean formula from the if/return chain and compared with the documented '
            'formula by truth table over its (quantified) atoms, so any equivalent '
            'arrangement passes; the return-path table of __subclasscheck__; delegation of '
            '__instancecheck__; normalisation/caching through frozenset keys; specialisation '
            'by child types; flattened(); the predicate reached only when neither class is the '
            'bare one (F14, repaired). The except-clause disagreement (language semantics) '
            'is a genuine defect recorded as known finding. The predicate is finite, so '
            'nothing else is left undecided.',
    'note': _NOTE,
}

CLAIMS['C19'] = {
    'text': 'SimPy resources: each content mutation of the six _do_put/_do_get dominated by '
            'exactly the capacity guard (compared as normalised inequalities: neither weaker '
            'nor stricter) or by exception evidence; mutated <=> succeed <=> True on every '
            'path; Put/Get mirror images, cancel and Request.__exit__; policy queues only '
            'mutated in place, served prefix removed exactly, (priority, time) key, '
            'pre-emption conditions and the Preempted details told to the victim; store '
            'disciplines; no request-dependent _do_get behind a '
            'prefix-stopping trigger. Levels/contents after a history and grant times are '
            'not decided.',
    'note': _NOTE,
}

CLAIMS['C18'] = {
    'text': 'SimPy events/processes: fire-once typestate of Event._value (every write '
            'dominated by `_value is None`, on paths); _trigger as one synchronous block '
            '(flag, trigger, schedule callbacks); callbacks swapped to None before they run '
            'once; undefused failures raised; Event.__await__; Timeout/Process/'
            'InterruptQueue/AllOf/AnyOf plumbing (handler order, suspension-free try body, '
            'FIFO interrupts, evaluator formulas by normal form); value/ok of Event and '
            'AwaitableEvent decided by `exception is None`; Environment.until/run. '
            'Fan-out values/times for arbitrary process graphs and callback effects are not '
            'decided.',
    'note': _NOTE,
}

NOT_APPLICABLE = {}


# rules added in the sixth round (each is counted in the evidence of the property)
_SIXTH_ROUND = {
    'C02': 'A date is the queue key exactly as given (no arithmetic on it), so wake-ups for '
           'one date share one bucket in request order (rule shared with C01).',
    'C03': 'Every way through an __unsubscribe__ removes the pair from a waiter list or '
           'revokes the signal; the loop in which a scope waits for its children passes a '
           'must-suspend in every round (no spinning on a child that is done but not yet '
           'deregistered).',
    'C04': 'No method of a scope other than __aexit__ closes a child task on any path '
           '(volatile children live until the closing sequence); every round of '
           '_await_children passes a must-suspend.',
    'C06': 'The subscribe/unsubscribe protocol of every notification class (a cancelled task '
           'lets go of everything it was subscribed to; rules shared with C03) and the '
           'no-spin rule of _await_children (a child cancelled before its first turn gets '
           'that turn).',
    'C07': 'A tracked comparison triggers its subscribers exactly when it holds after a '
           'change (an until block takes the signal without a second look; rule shared with '
           'C08).',
    'C08': '`time >= d`, `time == d`, `time < d` build the condition object for the date on '
           'every path, whatever the clock reads when the expression is written (rule shared '
           'with C01).',
    'C10': 'A receiver starts to wait for the notification only after it saw, in the same '
           'atomic block (inside the read mutex), that the queue is not closed.',
    'C14': 'The clock holds the start time and then the queued dates exactly as given (clock '
           'writers and queue keys, rules shared with C01): no conversion puts later ticks on '
           'another number grid.',
    'C15': 'The closing sequence on every exit of Scope.__aexit__ (a root closed by run(till) '
           'while it waits at the end of a scope of its own takes its children with it; rule '
           'shared with C04). A module level container touched only by decorators applied at '
           'import time is not simulation state.',
    'C16': 'Queue.put enqueues and wakes the reader before its first suspension (a result is '
           'available in the turn its activity ended); suspend/postpone withdraw their '
           'wake-up on every exit, a forced close included (rule shared with C03).',
    'C17': 'The path table of __getitem__: Cls[...] and only that is Cls itself; a single '
           'type is specialised as its 1-tuple and a tuple as it is, whatever it lists.',
}
for _pid, _extra in _SIXTH_ROUND.items():
    CLAIMS[_pid]['text'] = CLAIMS[_pid]['text'] + ' Also: ' + _extra


# rules added in the seventh round
_KERNEL = ('The kernel core every suspending operation rests on (rule `kernel`, shared with '
           'C01/C03/C15): postpone()/suspend() wake their caller by a signal made for this '
           'pause and withdraw it on every exit; a cancellation that loses the race against '
           'the end of its task is disarmed; every notification class lets go of exactly '
           'what it was given; dated activations are queued under the date as given and '
           'optional dates tested with `is None`; no object keeps the loop of an earlier run.')
_SEVENTH_ROUND = {
    'C01': 'The exit predicate of connectives over dates (`(time >= a) & (time >= b)`); no '
           'rounding, conversion or tolerance where dates and delays travel. ' + _KERNEL,
    'C02': _KERNEL,
    'C03': 'A cancellation of the owning task or a forced close arriving while a regularly '
           'left block waits in __aexit__ leaves it as an exception on every path.',
    'C05': 'A failed task keeps the very exception its handler caught (no substitute); a '
           'foreign signal arriving during a regular exit leaves __aexit__ as an exception.',
    'C06': 'A failed task keeps the very exception its handler caught; a cancellation that '
           'arrives while the task waits at the end of a block is never turned into a normal '
           'return of __aexit__.',
    'C07': 'A foreign signal arriving during the regular exit of a block is never dropped.',
    'C08': 'Every subscription has a signal constructed for it; the loop queues the one '
           'wake-up of a time condition under the date as given. ' + _KERNEL,
    'C09': _KERNEL, 'C10': _KERNEL,
    'C11': _KERNEL,
    'C12': 'The tracked comparisons the levels are waited for through trigger exactly when '
           'they hold and are evaluated afresh whenever asked. ' + _KERNEL,
    'C13': 'The closing loops of a scope walk copies (an aborted transfer is reached by the '
           'abort); no rounding or tolerance in the pipe arithmetic. ' + _KERNEL,
    'C14': 'No rounding, conversion or tolerance on dates. ' + _KERNEL,
    'C15': 'No attribute store of the package keeps the loop read from the state handle '
           '(one named exception). ' + _KERNEL,
    'C16': 'A failing activity is recorded whatever it failed with; first() leaves its scope '
           'without another suspension once the results are out. ' + _KERNEL,
    'C17': 'With children, Concurrent.__new__ never makes an instance of the class as '
           'called.',
    'C18': 'A pending interrupt is what a process is resumed with whenever there is one; the '
           'value of a condition is a snapshot taken when it fires; what a process yields is '
           'only awaited. ' + _KERNEL,
    'C19': 'A pending interrupt (the eviction notice) wins over whatever else ended the '
           'wait of the victim. ' + _KERNEL,
    'C20': 'The wake-up of a postponement is a signal of its own, queued behind what is '
           'runnable now. ' + _KERNEL,
}
for _pid, _extra in _SEVENTH_ROUND.items():
    CLAIMS[_pid]['text'] = CLAIMS[_pid]['text'] + ' Seventh round: ' + _extra


# rules added in the eighth round
_SCOPE = ('The scope core (rule `scope`, shared with C04): the closing sequence on every exit '
          'of Scope.__aexit__ whatever signal arrives while it waits; a foreign signal leaves '
          'the exit as an exception; the closing loops walk copies and close every child they '
          'meet; only the exit closes children; Task.__close__ finalises started and '
          'unstarted tasks alike.')
_UNTIL = ('The until core (rule `until`/`scope`, shared with C04/C07): an until-block '
          'subscribes (its activity, its own signal) and takes the same pair back when it is '
          'closed, by whichever activity; closing a scope withdraws its own signals.')
_EIGHTH_ROUND = {
    'C01': _UNTIL + ' An activation counts unless its signal was revoked; run(start, till) '
           'ends at `till` as given (root shape, shared with C07/C15).',
    'C02': _UNTIL + ' Weak references are audited: every weak container of the package is '
           'named with the reason why what it still holds cannot be observed.',
    'C03': _SCOPE + ' ' + _UNTIL,
    'C04': _UNTIL + ' ' + _KERNEL,
    'C05': _SCOPE + ' ' + _UNTIL + ' A task reports its end to its scope before it wakes its '
           'awaiters. ' + _KERNEL,
    'C06': _SCOPE + ' ' + _UNTIL + ' Every handler of the package that can catch an internal '
           'signal re-raises it unless it is its own (rule shared with C03). ' + _KERNEL,
    'C07': _KERNEL,
    'C08': _UNTIL + ' An activation counts unless its signal was revoked (a scheduled trigger '
           'stays scheduled).',
    'C09': _UNTIL, 'C10': _UNTIL, 'C11': _UNTIL,
    'C12': _UNTIL + ' A new tracked value is told to every listening comparison in the '
           'atomic block that stores it (rule shared with C08).',
    'C13': _UNTIL + ' The closing sequence of scopes on every exit (an aborted transfer is '
           'reached by the abort).',
    'C14': _UNTIL + ' Nothing is scheduled into the past and `after == 0` / `at == now` are '
           'undated starts (schedule preconditions and plumbing of C01).',
    'C15': _SCOPE + ' ' + _UNTIL + ' Module level dicts that are written anywhere in their '
           'module are simulation state.',
    'C16': _SCOPE + ' ' + _UNTIL,
    'C17': 'The children of a Concurrent are written by its constructor only; the cache of '
           'specialisations is one object made in the class body of the template.',
    'C18': _SCOPE + ' ' + _UNTIL + ' Environment.until suspends at least once between '
           'entering the environment and StopSimulation; interrupt() never raises and queues '
           'the cause for every live process.',
    'C19': _SCOPE + ' ' + _UNTIL + ' Every request class that brings a cancel of its own '
           'takes this very request out of its queue iff it was not triggered; interrupt() '
           'never raises.',
    'C20': _UNTIL,
}
for _pid, _extra in _EIGHTH_ROUND.items():
    CLAIMS[_pid]['text'] = CLAIMS[_pid]['text'] + ' Eighth round: ' + _extra


# rules added in the ninth round
_NINTH_ROUND = {
    'C04': 'Task.__close__ leaves the payload to the runner that wraps it; the interrupt '
           'state of a scope and its closing steps are touched by methods of the scope '
           'classes only.',
    'C05': 'Awaiting a task suspends also when the task is done already (the abort queued by '
           'a failure reaches the awaiter first).',
    'C07': 'A connective absorbs exactly the wake-ups of its own subscriptions (subscription '
           'rule of C08, handler rule of C03): the signal of an until-block passes a wait on '
           '`a & b` inside the block.',
    'C08': 'Comparisons of resource levels compare with exactly what was given (nothing of '
           'the current levels is frozen into the operand).',
    'C10': 'A receiver waits for the notification while it holds the read mutex; every queue '
           'has state of its own made by its constructor; put()/close() are over after one '
           'postponement.',
    'C11': 'Every channel has state of its own made by its constructor; put()/close() are '
           'over after one postponement.',
    'C12': 'claim() passes its amounts through the checks of borrow(); the share of a borrow '
           'block is filled (awaited, not dispatched) before __aenter__ returns; comparisons '
           'of levels compare with exactly what was given.',
    'C15': 'StateHandler.assign restores the previous loop on every way out of the managed '
           'block, the block raising any class a handler names (forced close, '
           'KeyboardInterrupt, SystemExit included).',
    'C16': 'The interrupt state of the scope of first()/collect() is touched by the scope '
           'classes only.',
    'C18': 'A failed event is marked as handled only at the hand-over of its exception: no '
           'suspension between `defused = True` and raise/throw/fail.',
}
for _pid, _extra in _NINTH_ROUND.items():
    CLAIMS[_pid]['text'] = CLAIMS[_pid]['text'] + ' Ninth round: ' + _extra
_KERNEL_NOTE = (' (The kernel core also decides the wait-queue rules of C01: dated '
                'activations leave the queue smallest date first, each with its own bucket.)')
for _pid in ('C02', 'C08', 'C09', 'C10', 'C11', 'C12', 'C13', 'C14', 'C15', 'C16', 'C18', 'C19',
             'C20'):
    CLAIMS[_pid]['text'] = CLAIMS[_pid]['text'] + _KERNEL_NOTE


# rules added in the tenth round (tenth batch of seeded changes, mutation sweep)
_KERNEL10 = ('Kernel core: every way through Loop.schedule queues the activation exactly '
             'once, whatever the delay or date; Interrupt.revoke raises the revoked flag on '
             'every way through; an activation counts unless its signal was revoked.')
_TENTH_ROUND = {
    'C01': 'Connectives over dates are built as written (`a & (b | c)` is not flattened '
           'into one kind).',
    'C04': 'No assertion that could fail stands between the entry of Scope.__aexit__ and the '
           'end of the closing sequence; no attribute of a task payload is read (it may be '
           'any awaitable).',
    'C05': 'A recorded failure that is passed over when the Concurrent is built was found '
           'suppressed (or privileged): no further filter (equality, limit) drops failures.',
    'C07': 'What an until-block watches comes to hold by a store to a truth source that '
           'tells its subscribers in the same atomic block, however a task ended (wake-up '
           'rule of C08); dated activations are asked for a date ahead only (`time + 0` is '
           'the instant; precondition rule of C01); connectives are built as written.',
    'C09': 'Every lock has a wait queue of its own, constructed by its constructor.',
    'C10': 'The buffer is an unbounded deque (a bounded one drops the oldest item).',
    'C13': 'Every way through the re-plan that finds demand <= throughput leaves the scale '
           'at 1 (the pipe does not stay throttled after a congestion).',
    'C14': 'interval()/delay() have no end of their own, for any period (zero included).',
    'C16': 'The monitor of first() may be a coroutine function or a coroutine method of a '
           'record built on the path; the result queue is unbounded.',
}
for _pid in CLAIMS:
    if _pid != 'C17':
        CLAIMS[_pid]['text'] = CLAIMS[_pid]['text'] + ' Tenth round: ' + _KERNEL10 + (
            ' ' + _TENTH_ROUND[_pid] if _pid in _TENTH_ROUND else '')
