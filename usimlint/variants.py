"""
Self-test variants: one-spot edits of the current sources (see selftest.py).

kind 'mutant': a realistic defect that keeps the module compiling -- must be reported.
kind 'twin'  : a behaviour-preserving rewrite -- must not be reported.
"""

VARIANTS = []


def mutant(prop, vid, file, old, new, expect=None, what=''):
    VARIANTS.append(dict(property=prop, id=vid, file=file, old=old, new=new, expect=expect,
                         what=what, kind='mutant'))


def twin(prop, vid, file, old, new, what=''):
    VARIANTS.append(dict(property=prop, id=vid, file=file, old=old, new=new, what=what,
                         kind='twin'))


FLAG = 'usim/_primitives/flag.py'
COND = 'usim/_primitives/condition.py'
NOTIF = 'usim/_primitives/notification.py'
LOCKS = 'usim/_primitives/locks.py'
STREAMS = 'usim/_basics/streams.py'
PIPE = 'usim/_basics/pipe.py'
TIMING = 'usim/_primitives/timing.py'
TRACKED = 'usim/_basics/tracked.py'
RESOURCE = 'usim/_basics/resource.py'
CONTEXT = 'usim/_primitives/context.py'
TASK = 'usim/_primitives/task.py'
BASICS = 'usim/_concurrent/basics.py'
LOOP = 'usim/_core/loop.py'
WAITQ = 'usim/_core/waitq.py'

# ------------------------------------------------------------------------- C20
mutant('C20', 'c20-flag-set-no-postpone', FLAG,
       "            self._inverse.__trigger__()\n        await postpone()\n",
       "            self._inverse.__trigger__()\n            await postpone()\n",
       'Flag.set', 'postpone only when the flag is lowered')
mutant('C20', 'c20-condition-true-no-postpone', COND,
       "        if self:\n            yield from postpone().__await__()\n        while not self:",
       "        while not self:",
       'Condition.__await__', 'already-true condition returns at once')
mutant('C20', 'c20-queue-buffered-get', STREAMS,
       "            if self._buffer:\n                await postpone()\n                return",
       "            if self._buffer:\n                return",
       'Queue', 'buffered get does not postpone')
mutant('C20', 'c20-tracked-set', TRACKED,
       "            listener.__on_changed__()\n        await postpone()",
       "            listener.__on_changed__()\n        if self._listeners:\n            await postpone()",
       'Tracked.set', 'postpone only with listeners')
mutant('C20', 'c20-unbounded-pipe-zero', PIPE,
       "            if delay > 0:\n                await suspend(delay=delay, until=None)\n            else:\n                await postpone()\n",
       "            if delay > 0:\n                await suspend(delay=delay, until=None)\n",
       'UnboundedPipe.transfer', 'zero delay branch dropped')
mutant('C20', 'c20-pipe-while-guard', PIPE,
       "            while True:\n                window_start",
       "            while transferred < total:\n                window_start",
       'Pipe.transfer', 'the original defect F3')
mutant('C20', 'c20-interval-zero', TIMING,
       "        elif remaining_delay > 0:\n            await suspend(delay=remaining_delay, until=None)\n        else:\n            await postpone()",
       "        elif remaining_delay > 0:\n            await suspend(delay=remaining_delay, until=None)",
       'interval', 'period 0 does not yield')
mutant('C20', 'c20-scope-aexit-sync-flag', CONTEXT,
       "                await self._body_done.set()\n",
       "                self._body_done._value = True\n                self._body_done.__trigger__()\n",
       'Scope.__aexit__', 'body-done set synchronously')
mutant('C20', 'c20-channel-iter', STREAMS,
       "                    if buffer:\n                        await postpone()\n",
       "",
       'Channel.__aiter__', 'the original defect F11')
mutant('C20', 'c20-connective-first-postpone', COND,
       "        await postpone()\n        while not self:\n            with ExitStack()",
       "        while not self:\n            with ExitStack()",
       'Connective', 'true connective returns at once')
mutant('C20', 'c20-before-true', TIMING,
       "        if self:\n            yield from postpone().__await__()\n        else:\n            yield from __HIBERNATE__\n        return True",
       "        if not self:\n            yield from __HIBERNATE__\n        return True",
       'Before.__await__', 'time < date already true returns at once')
mutant('C20', 'c20-channel-close', STREAMS,
       "            self._closed = True\n            self._notification.__awake_all__()\n        await postpone()\n\n    def __await__(self) -> Generator[Any, None, ST]:\n        if self._closed:",
       "            self._closed = True\n            self._notification.__awake_all__()\n            await postpone()\n\n    def __await__(self) -> Generator[Any, None, ST]:\n        if self._closed:",
       'Channel.close', 'second close does not postpone')
twin('C20', 'c20-twin-flag-set-split', FLAG,
     "            self._inverse.__trigger__()\n        await postpone()\n",
     "            self._inverse.__trigger__()\n            await postpone()\n            return\n        await postpone()\n",
     'postpone duplicated into a branch')
twin('C20', 'c20-twin-while-true', COND,
     "        while not self:\n            yield from super().__await__()\n        return True",
     "        while True:\n            if self:\n                break\n            yield from super().__await__()\n        return True",
     'while not c  <->  while True: if c: break')

# ------------------------------------------------------------------------- C09
mutant('C09', 'c09-except-exception', LOCKS,
       "            except BaseException:", "            except Exception:",
       'P wait-exit', 'signals derive from BaseException')
mutant('C09', 'c09-drop-owner-test', LOCKS,
       "                if self._owner == current_activity:\n                    self.__release__()\n                raise",
       "                self.__release__()\n                raise",
       'P wait-exit', 'a non-designated waiter releases the lock')
mutant('C09', 'c09-swallow', LOCKS,
       "                    self.__release__()\n                raise\n",
       "                    self.__release__()\n                    raise\n",
       'P wait-exit', 'non designated waiter swallows the signal')
mutant('C09', 'c09-pop-last', NOTIF,
       "self._waiting.pop(0)", "self._waiting.pop()", 'F', 'LIFO hand-off')
mutant('C09', 'c09-take-unconditional', LOCKS,
       "        if self._owner is None:\n            self._owner = current_activity\n        elif self._owner is not current_activity:",
       "        if self._owner is not current_activity and self._depth == 0:\n            self._owner = current_activity\n        elif self._owner is not current_activity:",
       'X take', 'takes a held lock')
mutant('C09', 'c09-release-at-one', LOCKS,
       "        if self._depth == 0:\n            self.__release__()",
       "        if self._depth <= 1:\n            self.__release__()",
       'R aexit', 'outer block loses the lock when inner ends')
mutant('C09', 'c09-no-depth-inc-after-wait', LOCKS,
       "                raise\n        self._depth += 1\n        return self",
       "                raise\n            return self\n        self._depth += 1\n        return self",
       'R enter', 'depth not counted after waiting')
mutant('C09', 'c09-available-owner-only', LOCKS,
       "        if self._owner is None:\n            return True\n        else:\n            return self._owner is __USIM_STATE__.loop.activity",
       "        return self._owner is None",
       'B', 'available ignores re-entrancy')
mutant('C09', 'c09-release-keeps-owner', LOCKS,
       "        except NoSubscribers:\n            self._owner = None\n        else:\n            self._owner = candidate",
       "        except NoSubscribers:\n            self._owner = None",
       'X', 'hand-over does not record the next owner')
twin('C09', 'c09-twin-finally-form', LOCKS,
     "                if self._owner == current_activity:\n                    self.__release__()\n                raise",
     "                if self._owner is current_activity:\n                    self.__release__()\n                raise",
     '== -> is')

# ------------------------------------------------------------------------- C10
mutant('C10', 'c10-pop-before-postpone', STREAMS,
       "                await postpone()\n                return self._buffer.popleft()",
       "                item = self._buffer.popleft()\n                await postpone()\n                return item",
       'W', 'item lost when the receiver is cancelled during the postpone')
mutant('C10', 'c10-await-after-pop', STREAMS,
       "            try:\n                return self._buffer.popleft()\n            except IndexError:",
       "            try:\n                item = self._buffer.popleft()\n                await postpone()\n                return item\n            except IndexError:",
       'W', 'suspension after the pop')
mutant('C10', 'c10-close-no-wake', STREAMS,
       "        if not self._closed:\n            self._closed = True\n            self._notification.__awake_all__()\n        await postpone()\n\n    def __await__(self) -> Generator[Any, None, ST]:\n        return",
       "        if not self._closed:\n            self._closed = True\n        await postpone()\n\n    def __await__(self) -> Generator[Any, None, ST]:\n        return",
       'K close', 'waiting receivers never learn about close')
mutant('C10', 'c10-put-appendleft', STREAMS,
       "        self._buffer.append(item)", "        self._buffer.appendleft(item)",
       'F', 'LIFO buffer')
mutant('C10', 'c10-put-closed-unchecked', STREAMS,
       "        if self._closed:\n            raise StreamClosed(self)\n        self._buffer.append(item)",
       "        self._buffer.append(item)",
       'D put', 'put on a closed queue stores')
mutant('C10', 'c10-closed-before-buffer', STREAMS,
       "            if self._buffer:\n                await postpone()\n                return self._buffer.popleft()\n            elif self._closed:\n                raise StreamClosed(self)",
       "            if self._closed:\n                raise StreamClosed(self)\n            elif self._buffer:\n                await postpone()\n                return self._buffer.popleft()",
       'D recv', 'buffered items are lost after close')
mutant('C10', 'c10-no-mutex', STREAMS,
       "        async with self._read_mutex:\n            if self._buffer:",
       "        if True:\n            if self._buffer:",
       'F recv', 'receivers no longer serialised')
mutant('C10', 'c10-put-no-wake', STREAMS,
       "        try:\n            self._notification.__awake_next__()\n        except NoSubscribers:\n            pass\n        await postpone()",
       "        await postpone()",
       'K put', 'waiting receiver never woken')
mutant('C10', 'c10-aiter-ends-early', STREAMS,
       "            except StreamClosed:\n                break\n            else:\n                yield result",
       "            except StreamClosed:\n                break\n            else:\n                yield result\n                if not self._buffer:\n                    break",
       'I', 'iteration ends when the buffer runs empty')
twin('C10', 'c10-twin-wake-before-append', STREAMS,
     "        self._buffer.append(item)\n        try:\n            self._notification.__awake_next__()\n        except NoSubscribers:\n            pass\n        await postpone()",
     "        try:\n            self._notification.__awake_next__()\n        except NoSubscribers:\n            pass\n        self._buffer.append(item)\n        await postpone()",
     'independent statements of one atomic block reordered')
twin('C10', 'c10-twin-local-item', STREAMS,
     "                await postpone()\n                return self._buffer.popleft()",
     "                await postpone()\n                item = self._buffer.popleft()\n                return item",
     'temporary for the popped item')

# ------------------------------------------------------------------------- C11
mutant('C11', 'c11-await-no-finally', STREAMS,
       "        try:\n            yield from self._notification.__await__()\n        finally:\n            del self._consumer_buffers[sentinel]\n        if not buffer",
       "        yield from self._notification.__await__()\n        del self._consumer_buffers[sentinel]\n        if not buffer",
       'P', 'cancelled waiter leaves its buffer registered forever')
mutant('C11', 'c11-put-first-only', STREAMS,
       "        for buffer in self._consumer_buffers.values():\n            buffer.append(item)\n",
       "        for buffer in self._consumer_buffers.values():\n            buffer.append(item)\n            break\n",
       'B put:loop', 'only the first consumer gets the message')
mutant('C11', 'c11-put-no-wake', STREAMS,
       "            buffer.append(item)\n        self._notification.__awake_all__()\n        await postpone()",
       "            buffer.append(item)\n        await postpone()",
       'B put:always-wakes', 'consumers never woken')
mutant('C11', 'c11-put-closed-unchecked', STREAMS,
       "        if self._closed:\n            raise StreamClosed(self)\n        for buffer in",
       "        for buffer in",
       'B put', 'put after close still delivers')
mutant('C11', 'c11-iter-closed-first', STREAMS,
       "                while buffer:\n                    yield buffer.popleft()\n                    # let others run between consecutive buffered messages\n                    if buffer:\n                        await postpone()\n                if self._closed:\n                    break",
       "                if self._closed:\n                    break\n                while buffer:\n                    yield buffer.popleft()\n                    # let others run between consecutive buffered messages\n                    if buffer:\n                        await postpone()",
       'T aiter', 'pending messages dropped at close')
mutant('C11', 'c11-await-closed-wins', STREAMS,
       "        if not buffer and self._closed:\n            raise StreamClosed(self)\n        return buffer[0]",
       "        if self._closed:\n            raise StreamClosed(self)\n        return buffer[0]",
       'T await', 'a message put just before close is lost')
mutant('C11', 'c11-await-last-message', STREAMS,
       "        return buffer[0]", "        return buffer[-1]",
       'T await:returns-first', 'returns the latest instead of the first message')
mutant('C11', 'c11-iter-pop-right', STREAMS,
       "                    yield buffer.popleft()", "                    yield buffer.pop()",
       'F', 'messages out of order')
mutant('C11', 'c11-wake-before-append-across-suspension', STREAMS,
       "        for buffer in self._consumer_buffers.values():\n            buffer.append(item)\n        self._notification.__awake_all__()\n        await postpone()",
       "        self._notification.__awake_all__()\n        await postpone()\n        for buffer in self._consumer_buffers.values():\n            buffer.append(item)",
       'B put', 'consumers woken before the message is there')
mutant('C11', 'c11-iter-del-wrong-key', STREAMS,
       "                await self._notification\n        finally:\n            del self._consumer_buffers[sentinel]",
       "                await self._notification\n        finally:\n            self._consumer_buffers.clear()",
       'P', 'a leaving consumer deregisters everybody')
twin('C11', 'c11-twin-temp', STREAMS,
     "                    yield buffer.popleft()\n",
     "                    message = buffer.popleft()\n                    yield message\n",
     'temporary for the popped message')

# ------------------------------------------------------------------------- C13
mutant('C13', 'c13-no-finally', PIPE,
       "        finally:\n            # stop occupying bandwidth however the transfer ends\n            self._del_subscriber(identifier)",
       "        except Exception:\n            raise\n        self._del_subscriber(identifier)",
       'P transfer', 'the original defect F2: signals bypass the clean-up')
mutant('C13', 'c13-del-no-throttle', PIPE,
       "        del self._subscriptions[identifier]\n        self._throttle_subscribers()",
       "        del self._subscriptions[identifier]",
       'K subscriptions:replans', 'remaining transfers never speed up')
mutant('C13', 'c13-scale-no-wake', PIPE,
       "            self._throughput_scale = self.throughput / desired_throughput\n            self._congested.__awake_all__()",
       "            self._throughput_scale = self.throughput / desired_throughput",
       'K scale-store', 'running transfers keep their old plan')
mutant('C13', 'c13-wait-outside-subscription', PIPE,
       "                with self._congested.__subscription__():\n                    delay = (total - transferred) / window_throughput",
       "                if True:\n                    delay = (total - transferred) / window_throughput",
       'K wait', 'transfers do not listen for congestion changes')
mutant('C13', 'c13-delay-ignores-progress', PIPE,
       "                    delay = (total - transferred) / window_throughput",
       "                    delay = total / window_throughput",
       'A transfer:planned-delay', 're-planned windows wait for the whole volume again')
mutant('C13', 'c13-delay-unscaled', PIPE,
       "                    delay = (total - transferred) / window_throughput",
       "                    delay = (total - transferred) / throughput",
       'A transfer:planned-delay', 'congestion is ignored when planning')
mutant('C13', 'c13-accounting-unscaled', PIPE,
       "                transferred += (window_end - window_start) * window_throughput",
       "                transferred += (window_end - window_start) * throughput",
       'A transfer:accounting', 'progress is over-counted under congestion')
mutant('C13', 'c13-scale-inverted', PIPE,
       "            self._throughput_scale = self.throughput / desired_throughput",
       "            self._throughput_scale = desired_throughput / self.throughput",
       'A scale', 'scale > 1 under congestion')
mutant('C13', 'c13-scale-guard-ge', PIPE,
       "        if desired_throughput > self.throughput:",
       "        if desired_throughput < self.throughput:",
       'A scale', 'uncongested pipes are slowed down')
mutant('C13', 'c13-rate-after-wait', PIPE,
       "                window_end = time.now\n                transferred += (window_end - window_start) * window_throughput",
       "                window_end = time.now\n                window_throughput = throughput * self._throughput_scale\n                transferred += (window_end - window_start) * window_throughput",
       'A transfer', 'the rate after the change is applied to the past window')
mutant('C13', 'c13-unbounded-delay', PIPE,
       "            delay = total / throughput\n", "            delay = throughput / total\n",
       'A unbounded', 'inverted delay')
twin('C13', 'c13-twin-rearranged-delay', PIPE,
     "                    delay = (total - transferred) / window_throughput",
     "                    remaining = total - transferred\n                    delay = remaining / (self._throughput_scale * throughput)",
     'same formula, other arrangement')
twin('C13', 'c13-twin-flipped-guard', PIPE,
     "        if desired_throughput > self.throughput:",
     "        if self.throughput < desired_throughput:",
     'a > b <-> b < a')

# ------------------------------------------------------------------------- C12
mutant('C12', 'c12-aenter-unprotected', RESOURCE,
       "        try:\n            await self._resources.__remove_resources__(self._debits)\n        except BaseException:\n            __USIM_STATE__.loop.schedule(\n                self._resources.__insert_resources__(self._debits)\n            )\n            raise\n",
       "        await self._resources.__remove_resources__(self._debits)\n",
       'W BorrowedResources.__aenter__', 'the original defect F6 (acquire window)')
mutant('C12', 'c12-aexit-unprotected', RESOURCE,
       "            try:\n                await self.__remove_resources__(self._debits)\n            except BaseException:\n                # interrupted while giving back: finish giving back eventually\n                __USIM_STATE__.loop.schedule(\n                    self._resources.__insert_resources__(self._debits)\n                )\n                raise\n",
       "            await self.__remove_resources__(self._debits)\n",
       'W BorrowedResources.__aexit__', 'the original defect F6 (release window)')
mutant('C12', 'c12-handler-exception-only', RESOURCE,
       "            await self._resources.__remove_resources__(self._debits)\n        except BaseException:",
       "            await self._resources.__remove_resources__(self._debits)\n        except Exception:",
       'W BorrowedResources.__aenter__', 'signals derive from BaseException')
mutant('C12', 'c12-genexit-forgets-parent', RESOURCE,
       "            __USIM_STATE__.loop.schedule(\n                self.__remove_resources__(self._debits)\n            )\n            __USIM_STATE__.loop.schedule(\n                self._resources.__insert_resources__(self._debits)\n            )\n        else:",
       "            __USIM_STATE__.loop.schedule(\n                self.__remove_resources__(self._debits)\n            )\n        else:",
       'G', 'forced close leaks the amount')
mutant('C12', 'c12-genexit-awaits', RESOURCE,
       "        if exc_type is GeneratorExit:", "        if exc_type is StopIteration:",
       'G', 'forced close tries to await')
mutant('C12', 'c12-borrow-no-wait', RESOURCE,
       "        if not self._resources._available >= self._debits:\n            await (self._resources._available >= self._debits)\n        # Resources",
       "        # Resources",
       'D', 'borrow takes what is not there: levels go negative')
mutant('C12', 'c12-borrow-waits-for-other-amount', RESOURCE,
       "            await (self._resources._available >= self._debits)\n",
       "            await (self._resources._available >= self._zero)\n",
       'S', 'waits for a different predicate than it tests')
mutant('C12', 'c12-claim-test-inverted', RESOURCE,
       "        if not self._resources._available >= self._debits:\n            raise ResourcesUnavailable(self)",
       "        if self._resources._available >= self._debits:\n            raise ResourcesUnavailable(self)",
       'C claim', 'claim raises when available and waits when not')
mutant('C12', 'c12-claim-postpones-first', RESOURCE,
       "        if not self._resources._available >= self._debits:\n            raise ResourcesUnavailable(self)\n        return await super().__aenter__()",
       "        await self._resources._available.set(self._resources._available.value)\n        if not self._resources._available >= self._debits:\n            raise ResourcesUnavailable(self)\n        return await super().__aenter__()",
       'C', 'claim suspends before testing')
mutant('C12', 'c12-levels-lt-symbol', 'usim/_basics/_resource_level.py',
       "__lt__ = __comparison_op__('__le__', '<', fields)",
       "__lt__ = __comparison_op__('__le__', '<=', fields)",
       'T ResourceLevels.__lt__', 'wrong generated comparison')
mutant('C12', 'c12-levels-or-joined', 'usim/_basics/_resource_level.py',
       'f"""        and self.{name} {op_symbol} other.{name}"""',
       'f"""        or self.{name} {op_symbol} other.{name}"""',
       'T template', 'comparisons no longer hold for all fields')
mutant('C12', 'c12-aenter-double-credit', RESOURCE,
       "            await self.__insert_resources__(self._debits)\n        except BaseException:\n            __USIM_STATE__.loop.schedule(\n                self.__remove_resources__(self._debits)\n            )\n",
       "            await self.__insert_resources__(self._debits)\n        except BaseException:\n",
       'W BorrowedResources.__aenter__', 'own share keeps the amount after a failed entry')
twin('C12', 'c12-twin-flipped-predicate', RESOURCE,
     "        if not self._resources._available >= self._debits:\n            raise ResourcesUnavailable(self)",
     "        if not (self._resources._available >= self._debits):\n            raise ResourcesUnavailable(self)",
     'redundant parentheses')

# ------------------------------------------------------------------------- C06
mutant('C06', 'c06-f-lasti', TASK,
       "        if getcoroutinestate(self.__runner__) == CORO_CREATED:\n            return TaskState.CREATED",
       "        if self.__runner__.cr_frame.f_lasti == -1:\n            return TaskState.CREATED",
       'typestate', 'the original defect F1')
mutant('C06', 'c06-cancel-overwrites', TASK,
       "        if self._result is None:\n            if self.status is TaskState.CREATED:",
       "        if True:\n            if self.status is TaskState.CREATED:",
       'X cancel', 'cancelling a finished task changes its outcome')
mutant('C06', 'c06-close-overwrites', TASK,
       "        if self._result is None:\n            self._result = None, reason",
       "        if self._result is None or self._result[1] is not None:\n            self._result = None, reason",
       'X __close__', 'closing rewrites a failure into a closure')
mutant('C06', 'c06-done-before-result', TASK,
       "            else:\n                self._result = result, None\n                self.parent.__child_finished__(self, failed=False)\n            for cancellation in self._cancellations:\n                cancellation.revoke()\n            try_close(self.payload)\n            self._done.__set_done__()",
       "            else:\n                self._done.__set_done__()\n                self._result = result, None\n                self.parent.__child_finished__(self, failed=False)\n                return\n            for cancellation in self._cancellations:\n                cancellation.revoke()\n            try_close(self.payload)\n            self._done.__set_done__()",
       'once', 'awaiters woken before the result exists')
mutant('C06', 'c06-cancel-token-dropped', TASK,
       "                cancellation = CancelTask(self, *token)",
       "                cancellation = CancelTask(self)",
       'K cancel:running', 'token lost')
mutant('C06', 'c06-cancel-created-schedules', TASK,
       "            if self.status is TaskState.CREATED:\n                self._result = None, TaskCancelled(self, *token)\n                self._done.__set_done__()\n            else:",
       "            if False:\n                self._result = None, TaskCancelled(self, *token)\n                self._done.__set_done__()\n            else:",
       'K cancel', 'an unstarted task still runs its first segment')
mutant('C06', 'c06-cancel-delayed', TASK,
       "                __USIM_STATE__.loop.schedule(self.__runner__, signal=cancellation)",
       "                __USIM_STATE__.loop.schedule(self.__runner__, signal=cancellation, delay=1)",
       'K cancel:running', 'cancellation arrives later')
mutant('C06', 'c06-cancel-not-registered', TASK,
       "                self._cancellations.append(cancellation)\n", "",
       'K cancel:running', 'a cancellation racing with completion is never revoked')
mutant('C06', 'c06-cancel-is-failure', TASK,
       "                self._result = None, err.__transcript__\n                self.parent.__child_finished__(self, failed=False)",
       "                self._result = None, err.__transcript__\n                self.parent.__child_finished__(self, failed=True)",
       'I', 'cancelling a child aborts its parent scope')
mutant('C06', 'c06-handler-order', TASK,
       "            except CancelTask as err:\n                assert (\n                    err.subject is self\n                ), \"task for activity %r received cancellation of %r\" % (\n                    self, err.subject\n                )\n                self._result = None, err.__transcript__\n                self.parent.__child_finished__(self, failed=False)\n            except GeneratorExit:",
       "            except GeneratorExit:",
       'I', 'CancelTask falls into the generic failure handler')
mutant('C06', 'c06-await-returns-tuple', TASK,
       "        if error is not None:\n            raise error\n        else:\n            return result  # noqa: B901",
       "        return result  # noqa: B901",
       'A', 'awaiting a failed task returns None')
mutant('C06', 'c06-transcript-subject', TASK,
       "        result = TaskCancelled(self.subject, *self.token)",
       "        result = TaskCancelled(self, *self.token)",
       'K CancelTask.__transcript__', 'TaskCancelled carries the signal instead of the task')
mutant('C06', 'c06-set-done-no-trigger', TASK,
       "        self._value = True\n        self.__trigger__()\n\n    def __repr__(self):\n        return f'<{self.__class__.__name__} for {self._task!r}>'",
       "        self._value = True\n\n    def __repr__(self):\n        return f'<{self.__class__.__name__} for {self._task!r}>'",
       'once Done', 'awaiters of a task are never woken')
twin('C06', 'c06-twin-equality', TASK,
     "        if getcoroutinestate(self.__runner__) == CORO_CREATED:\n            return TaskState.CREATED",
     "        if CORO_CREATED == getcoroutinestate(self.__runner__):\n            return TaskState.CREATED",
     'operands swapped')

# ------------------------------------------------------------------------- C04
mutant('C04', 'c04-aexit-exc-no-close', CONTEXT,
       "            self._body_done._value = True\n            self._body_done.__trigger__()\n        self._close_scope()\n        return not",
       "            self._body_done._value = True\n            self._body_done.__trigger__()\n            return not self._propagate_exceptions(exc_type, exc_val)\n        self._close_scope()\n        return not",
       'P Scope.__aexit__', 'a failing body leaves its children running')
mutant('C04', 'c04-aexit-handler-exception', CONTEXT,
       "            except BaseException as err:\n                self._close_scope()",
       "            except Exception as err:\n                self._close_scope()",
       'P Scope.__aexit__', 'cancel/interrupt during graceful shutdown skips closing')
mutant('C04', 'c04-await-children-single-pass', CONTEXT,
       "        while self._children:\n            for child in self._children[:]:\n                await child.done",
       "        for child in self._children[:]:\n            await child.done",
       'E', 'children spawned during shutdown are not waited for')
mutant('C04', 'c04-close-children-live-list', CONTEXT,
       "        for child in self._children.copy():\n            child.__close__(reason=reason)",
       "        for child in self._children:\n            child.__close__(reason=reason)",
       'M _close_children', 'every second child is skipped (upstream bug #66)')
mutant('C04', 'c04-volatile-before-children', CONTEXT,
       "        self._close_children()\n        self._close_volatile()",
       "        self._close_volatile()\n        self._close_children()",
       'P Scope.__aexit__', 'volatile children closed before regular ones')
mutant('C04', 'c04-do-after-close', CONTEXT,
       "        if not self._interruptable:\n            # we have been given the payload with the expectation of managing it\n            # close it now since no-one else should expect to own it\n            try_close(payload)\n            raise ScopeClosed(self)\n",
       "",
       'R', 'spawning into an ended scope is accepted')
mutant('C04', 'c04-do-refuse-leaks-payload', CONTEXT,
       "            try_close(payload)\n            raise ScopeClosed(self)",
       "            raise ScopeClosed(self)",
       'R do:refused', 'refused payload is not closed')
mutant('C04', 'c04-do-volatile-in-children', CONTEXT,
       "        if not volatile:\n            self._children.append(child_task)\n        else:\n            self._volatile_children.append(child_task)",
       "        self._children.append(child_task)",
       'R', 'volatile children are waited for / removal from the wrong list')
mutant('C04', 'c04-graceful-no-await', CONTEXT,
       "                await self._body_done.set()\n                await self._await_children()\n",
       "                await self._body_done.set()\n",
       'P Scope.__aexit__', 'children are closed instead of awaited on a normal exit')
mutant('C04', 'c04-close-unstarted-closes-runner', TASK,
       "            if getcoroutinestate(self.__runner__) == CORO_CREATED:\n                # We have not STARTED",
       "            if False:\n                # We have not STARTED",
       'F __close__', 'closing an unstarted runner: its pending activation fails')
mutant('C04', 'c04-wrapper-genexit-awaits', TASK,
       "            except GeneratorExit:\n                # We are NOT allowed to do any async once the generator\n                # exits forcefully.\n                # We should only receive GeneratorExit due to a forceful\n                # termination in self.__close__ or during cleanup.\n                self.parent.__child_finished__(self, failed=False)",
       "            except GeneratorExit:\n                await suspend(delay=1, until=None)\n                self.parent.__child_finished__(self, failed=False)",
       'forced-close', 'awaiting after a forced close')
mutant('C04', 'c04-wrapper-no-report-on-close', TASK,
       "            except GeneratorExit:\n                # We are NOT allowed to do any async once the generator\n                # exits forcefully.\n                # We should only receive GeneratorExit due to a forceful\n                # termination in self.__close__ or during cleanup.\n                self.parent.__child_finished__(self, failed=False)",
       "            except GeneratorExit:\n                pass",
       'F wrapper', 'a closed child stays registered in its scope')
mutant('C04', 'c04-flag-set-genexit', FLAG,
       "        await postpone()\n\n\nclass InverseFlag",
       "        try:\n            await postpone()\n        except GeneratorExit:\n            await postpone()\n            raise\n\n\nclass InverseFlag",
       'forced-close', 'a helper awaits while being closed')
twin('C04', 'c04-twin-list-copy', CONTEXT,
     "        for child in self._children.copy():\n            child.__close__(reason=reason)",
     "        for child in list(self._children):\n            child.__close__(reason=reason)",
     '.copy() <-> list()')

# ------------------------------------------------------------------------- C05
mutant('C05', 'c05-genexit-is-failure', TASK,
       "                # termination in self.__close__ or during cleanup.\n                self.parent.__child_finished__(self, failed=False)",
       "                # termination in self.__close__ or during cleanup.\n                self.parent.__child_finished__(self, failed=True)",
       'H', 'closing children makes the scope fail')
mutant('C05', 'c05-failure-as-success', TASK,
       "                self._result = None, err\n                self.parent.__child_finished__(self, failed=True)",
       "                self._result = None, err\n                self.parent.__child_finished__(self, failed=False)",
       'H', 'child failures are ignored by the scope')
mutant('C05', 'c05-collect-reversed', CONTEXT,
       "        for exc in self._child_failures:\n            if isinstance(exc, promote):",
       "        for exc in reversed(self._child_failures):\n            if isinstance(exc, promote):",
       'C iterates', 'failures reported in reverse order')
mutant('C05', 'c05-collect-keeps-suppressed', CONTEXT,
       "            if not isinstance(exc, suppress):\n                concurrent.append(exc)",
       "            concurrent.append(exc)",
       'C append', 'cancellations/closures end up in Concurrent')
mutant('C05', 'c05-collect-only-first', CONTEXT,
       "            exc = Concurrent(*concurrent)", "            exc = Concurrent(concurrent[0])",
       'C Concurrent', 'only the first failure is reported')
mutant('C05', 'c05-both-at-once', CONTEXT,
       "            privileged, _ = self._collect_exceptions()\n            if privileged is not None:\n                raise privileged",
       "            privileged, concurrent = self._collect_exceptions()\n            if privileged is not None or concurrent is not None:\n                raise privileged or concurrent",
       'E', 'the body\'s exception is replaced by Concurrent')
mutant('C07', 'c07-suppress-any-cancelscope', CONTEXT,
       "        return exc_val is self._cancel_self\n",
       "        return isinstance(exc_val, CancelScope)\n",
       'suppress', 'a foreign scope\'s signal is swallowed')
mutant('C05', 'c05-swallow-everything', CONTEXT,
       "            # we still have our unhandled exception to propagate\n            return True",
       "            # we still have our unhandled exception to propagate\n            return False",
       'E', 'body exceptions are swallowed')
mutant('C05', 'c05-failed-child-no-cancel', CONTEXT,
       "        if failed:\n            self.__cancel__()\n            self._child_failures.append(child.__exception__)",
       "        if failed:\n            self._child_failures.append(child.__exception__)",
       'Q', 'the body keeps running after a child failed')
mutant('C05', 'c05-cancel-next-step', CONTEXT,
       "            __USIM_STATE__.loop.schedule(self._activity, self._cancel_self)",
       "            __USIM_STATE__.loop.schedule(self._activity, self._cancel_self, delay=1)",
       'Q', 'the scope ends later than the failure')
mutant('C05', 'c05-record-task-not-exception', CONTEXT,
       "            self._child_failures.append(child.__exception__)",
       "            self._child_failures.append(child)",
       'X', 'Concurrent contains tasks')
mutant('C05', 'c05-promote-assertion-dropped', CONTEXT,
       "        SystemExit, KeyboardInterrupt, AssertionError\n",
       "        SystemExit, KeyboardInterrupt\n",
       'T PROMOTE', 'AssertionError is wrapped')
twin('C05', 'c05-twin-local-names', CONTEXT,
     "        suppress = self.SUPPRESS_CONCURRENT\n        promote = self.PROMOTE_CONCURRENT\n        concurrent = []\n        for exc in self._child_failures:\n            if isinstance(exc, promote):\n                return exc, None\n            if not isinstance(exc, suppress):\n                concurrent.append(exc)",
     "        concurrent = []\n        for exc in self._child_failures:\n            if isinstance(exc, self.PROMOTE_CONCURRENT):\n                return exc, None\n            if not isinstance(exc, self.SUPPRESS_CONCURRENT):\n                concurrent.append(exc)",
     'aliases removed')

# ------------------------------------------------------------------------- C01
mutant('C01', 'c01-after-subscribe-unguarded', TIMING,
       "        if not self:\n            self._ensure_trigger()\n        super().__subscribe__(waiter, interrupt)",
       "        self._ensure_trigger()\n        super().__subscribe__(waiter, interrupt)",
       'L3', 'the original defect F4: schedules into the past')
mutant('C01', 'c01-wrapper-truthiness', TASK,
       "                if delay is not None or at is not None:",
       "                if delay or at:",
       'L7', 'the original defect F12')
mutant('C01', 'c01-sd-popitem-default', WAITQ,
       "        return self._data.popitem(0)", "        return self._data.popitem()",
       'L2 SD.pop', 'pops the largest key: time runs backwards')
mutant('C01', 'c01-hq-push-always', WAITQ,
       "        try:\n            self._data[key].append(item)\n        except KeyError:\n            self._data[key] = elements = deque()  # type: deque[V]\n            elements.append(item)\n            heappush(self._keys, key)",
       "        try:\n            self._data[key].append(item)\n        except KeyError:\n            self._data[key] = elements = deque()  # type: deque[V]\n            elements.append(item)\n        heappush(self._keys, key)",
       'L2 HQ.push', 'duplicate keys in the heap: KeyError on the second pop')
mutant('C01', 'c01-hq-append-key', WAITQ,
       "            heappush(self._keys, key)", "            self._keys.append(key)",
       'L2 HQ', 'keys no longer form a heap')
mutant('C01', 'c01-suspend-swapped', NOTIF,
       "    loop.schedule(task, signal=wake_up, delay=delay, at=until)",
       "    loop.schedule(task, signal=wake_up, delay=until, at=delay)",
       'L5', 'date used as delay')
mutant('C01', 'c01-schedule-key', LOOP,
       "            self._activations.push(self.time + delay, Activation(target, signal))",
       "            self._activations.push(delay, Activation(target, signal))",
       'L5 Loop.schedule', 'relative delay used as absolute date')
mutant('C01', 'c01-drain-snapshot', LOOP,
       "            while pending:\n                activation = pending.popleft()",
       "            for activation in list(pending):\n                pending.popleft()",
       'L4', 'work scheduled for now runs after the clock moved on')
mutant('C01', 'c01-clock-fast-forward', LOOP,
       "        if signal is not None:\n            signal.scheduled = True",
       "        if signal is not None:\n            signal.scheduled = True\n        if at is not None and not self._pending:\n            self.time = at",
       'L1', 'a helper moves the clock')
mutant('C01', 'c01-before-inclusive', TIMING,
       "        return __USIM_STATE__.loop.time < self.date",
       "        return __USIM_STATE__.loop.time <= self.date",
       'L6 truth:Before', 'time < date true at the date itself')
mutant('C01', 'c01-moment-passed-postpones', TIMING,
       "        elif not self._transition:\n            yield from self._transition.__await__()\n        else:\n            yield from __HIBERNATE__",
       "        elif not self._transition:\n            yield from self._transition.__await__()\n        else:\n            yield from postpone().__await__()",
       'L6 await:Moment/clock-gt-date', 'a passed moment resumes at once')
mutant('C01', 'c01-after-passed-waits', TIMING,
       "        if self:\n            yield from postpone().__await__()\n            return True\n        self._ensure_trigger()",
       "        if __USIM_STATE__.loop.time > self.date:\n            yield from postpone().__await__()\n            return True\n        self._ensure_trigger()",
       None, 'time >= now schedules at the current time')
mutant('C01', 'c01-moment-subscribe-delegates', TIMING,
       "        if __USIM_STATE__.loop.time > self.date:\n            # the moment has passed and never comes again: never notify\n            Notification.__subscribe__(self, waiter, interrupt)\n        else:\n            self._transition.__subscribe__(waiter, interrupt)",
       "        self._transition.__subscribe__(waiter, interrupt)",
       'L6 subscribe:Moment/clock-gt-date', 'a passed moment fires at once')
mutant('C01', 'c01-time-ge-builds-moment', TIMING,
       "    def __ge__(self, other: float) -> After:\n        return After(other)",
       "    def __ge__(self, other: float) -> After:\n        return After(other + 1)",
       'L5 Time.__ge__', 'date changed on the way')
mutant('C01', 'c01-interval-unguarded', TIMING,
       "        elif remaining_delay > 0:\n            await suspend(delay=remaining_delay, until=None)\n        else:\n            await postpone()",
       "        else:\n            await suspend(delay=remaining_delay, until=None)",
       'L3', 'zero delay scheduled as a dated activation')
twin('C01', 'c01-twin-key-order', LOOP,
     "            self._activations.push(self.time + delay, Activation(target, signal))",
     "            self._activations.push(delay + self.time, Activation(target, signal))",
     'commuted sum')
twin('C01', 'c01-twin-flipped-truth', TIMING,
     "        return __USIM_STATE__.loop.time >= self.date",
     "        return self.date <= __USIM_STATE__.loop.time",
     'a >= b <-> b <= a')

# ------------------------------------------------------------------------- C08
mutant('C08', 'c08-condition-if-instead-of-while', COND,
       "        while not self:\n            yield from super().__await__()\n        return True",
       "        if not self:\n            yield from super().__await__()\n        return True",
       'E Condition.__await__', 'returns after one wake-up although the condition reverted')
mutant('C08', 'c08-connective-single-round', COND,
       "        while not self:\n            with ExitStack() as stack:",
       "        if not self:\n            with ExitStack() as stack:",
       'E Connective', 'a & b returns when only a changed')
mutant('C08', 'c08-flag-set-no-trigger', FLAG,
       "        if to and not self:\n            self._value = to\n            self.__trigger__()",
       "        if to and not self:\n            self._value = to",
       'W', 'waiters of a flag are never woken')
mutant('C08', 'c08-flag-lower-triggers-self', FLAG,
       "            self._value = to\n            self._inverse.__trigger__()",
       "            self._value = to\n            self.__trigger__()",
       'W', 'waiters of ~flag are never woken')
mutant('C08', 'c08-flag-trigger-after-postpone', FLAG,
       "            self._value = to\n            self.__trigger__()\n        elif",
       "            self._value = to\n            await postpone()\n            self.__trigger__()\n        elif",
       'W', 'a waiter is still parked at the end of the step in which the flag was set')
mutant('C08', 'c08-tracked-first-listener', TRACKED,
       "        for listener in list(self._listeners):\n            listener.__on_changed__()",
       "        for listener in list(self._listeners):\n            listener.__on_changed__()\n            break",
       'W', 'only one comparison is re-evaluated')
mutant('C08', 'c08-on-changed-always', TRACKED,
       "        if self._test():\n            self.__trigger__()",
       "        if not self._test():\n            self.__trigger__()",
       'W AsyncComparison', 'wakes waiters when the comparison does not hold')
mutant('C08', 'c08-connective-break', COND,
       "                    if child:\n                        continue\n                    stack.enter_context(child.__subscription__())",
       "                    if child:\n                        continue\n                    stack.enter_context(child.__subscription__())\n                    break",
       'S', 'only the first false operand is watched')
mutant('C08', 'c08-all-is-any', COND,
       "    def __bool__(self):\n        return all(self._children)",
       "    def __bool__(self):\n        return any(self._children)",
       'B All.__bool__', 'a & b true when one holds')
mutant('C08', 'c08-and-drops-operand', COND,
       "        if isinstance(other, All):\n            return All(self, *other._children)\n        return All(self, other)",
       "        if isinstance(other, All):\n            return All(self, *other._children)\n        return All(self)",
       'B Condition.__and__', 'a & b is just a')
mutant('C08', 'c08-invert-any-keeps-kind', COND,
       "        return All(*(~child for child in self._children))",
       "        return Any(*(~child for child in self._children))",
       'B ~Any', 'De Morgan broken')
mutant('C08', 'c08-comparison-inverse', TRACKED,
       "        operator.lt: operator.ge,\n", "        operator.lt: operator.gt,\n",
       'B AsyncComparison._operator_inverse', '~(a < b) is a > b')
mutant('C08', 'c08-after-invert-date', TIMING,
       "    def __invert__(self):\n        return Before(self.date)",
       "    def __invert__(self):\n        return Before(self.date + 1)",
       'B ~After', 'complement on another date')
mutant('C08', 'c08-bool-with-effect', FLAG,
       "    def __bool__(self) -> bool:\n        return self._value\n\n    def __invert__(self) -> 'InverseFlag':",
       "    def __bool__(self) -> bool:\n        self._inverse._waiting.clear()\n        return self._value\n\n    def __invert__(self) -> 'InverseFlag':",
       'B Flag.__bool__:pure', 'testing a flag drops waiters')
mutant('C08', 'c08-done-no-trigger', TASK,
       "        self._value = True\n        self.__trigger__()",
       "        self._value = True",
       'W', 'awaiters of task.done never wake')
twin('C08', 'c08-twin-while-true', COND,
     "        while not self:\n            with ExitStack() as stack:\n                for child in self._children:\n                    # we only need to wait for children which\n                    # are not True yet\n                    if child:\n                        continue\n                    stack.enter_context(child.__subscription__())\n                await Hibernate()  # hibernate until a child condition triggers\n        return True",
     "        while True:\n            if self:\n                return True\n            with ExitStack() as stack:\n                for child in self._children:\n                    # we only need to wait for children which\n                    # are not True yet\n                    if child:\n                        continue\n                    stack.enter_context(child.__subscription__())\n                await Hibernate()  # hibernate until a child condition triggers",
     'loop rewritten')

# ------------------------------------------------------------------------- C07
mutant('C07', 'c07-no-unsubscribe', CONTEXT,
       "    def _disable_interrupts(self):\n        self._notification.__unsubscribe__(self._activity, self._interrupt)\n        super()._disable_interrupts()",
       "    def _disable_interrupts(self):\n        super()._disable_interrupts()",
       'P', 'a finished until-block is still interrupted later')
mutant('C07', 'c07-override-not-chained', CONTEXT,
       "        self._notification.__unsubscribe__(self._activity, self._interrupt)\n        super()._disable_interrupts()",
       "        self._notification.__unsubscribe__(self._activity, self._interrupt)",
       'P', 'the scope stays interruptable / its cancel signal is not revoked')
mutant('C07', 'c07-subscribe-before-enter', CONTEXT,
       "        await super().__aenter__()\n        self._notification.__subscribe__(self._activity, self._interrupt)",
       "        self._notification.__subscribe__(self._activity, self._interrupt)\n        await super().__aenter__()",
       'P InterruptScope.__aenter__', 'subscribes with activity None')
mutant('C07', 'c07-suppress-any-interrupt', CONTEXT,
       "        return exc_val is self._interrupt or super()._is_suppressed(exc_val)",
       "        return isinstance(exc_val, CancelScope) or super()._is_suppressed(exc_val)",
       'suppress', 'an outer until-scope\'s signal is swallowed by an inner one')
mutant('C07', 'c07-suppress-nothing', CONTEXT,
       "        return exc_val is self._interrupt or super()._is_suppressed(exc_val)",
       "        return super()._is_suppressed(exc_val)",
       'suppress', 'the interrupt escapes the until-block')
mutant('C07', 'c07-condition-subscribe-never-immediate', COND,
       "        if self:\n            interrupt.scheduled = True\n            __USIM_STATE__.loop.schedule(waiter, signal=interrupt)\n        else:\n            super().__subscribe__(waiter, interrupt)",
       "        super().__subscribe__(waiter, interrupt)",
       'I', 'until(already true) never fires')
mutant('C07', 'c07-condition-subscribe-always-immediate', COND,
       "        if self:\n            interrupt.scheduled = True\n            __USIM_STATE__.loop.schedule(waiter, signal=interrupt)\n        else:\n            super().__subscribe__(waiter, interrupt)",
       "        interrupt.scheduled = True\n        __USIM_STATE__.loop.schedule(waiter, signal=interrupt)",
       'I', 'until(flag) fires at once although the flag is not set')
mutant('C07', 'c07-run-till-after', 'usim/__init__.py',
       "            async with until(time == _till) as scope:",
       "            async with until(time >= _till + 1) as scope:",
       'R', 'runs one time unit too long')
mutant('C07', 'c07-run-reversed', 'usim/__init__.py',
       "                for activity in _activities:\n                    scope.do(activity)",
       "                for activity in reversed(_activities):\n                    scope.do(activity)",
       'R', 'roots start in reverse order')
mutant('C07', 'c07-run-volatile-roots', 'usim/__init__.py',
       "                for activity in _activities:\n                    scope.do(activity)",
       "                for activity in _activities:\n                    scope.do(activity, volatile=True)",
       'R', 'the simulation ends at once: roots are volatile')
mutant('C07', 'c07-run-till-swapped-args', 'usim/__init__.py',
       "        activities = root(_activities=activities, _till=till),",
       "        activities = root(_activities=activities, _till=start),",
       'R', 'the simulation stops at the start time')
mutant('C07', 'c07-run-keeps-activities', 'usim/__init__.py',
       "        activities = root(_activities=activities, _till=till),",
       "        activities = activities + (root(_activities=activities, _till=till),)",
       'R', 'activities run twice')
twin('C07', 'c07-twin-run-module-level-root', 'usim/__init__.py',
     "    if till is not None:\n        async def root(_activities=activities, _till=till):\n            async with until(time == _till) as scope:\n                for activity in _activities:\n                    scope.do(activity)\n        activities = root(_activities=activities, _till=till),\n    loop = _Loop(*activities, start=start)",
     "    async def root(acts, end):\n        async with until(time == end) as scope:\n            for activity in acts:\n                scope.do(activity)\n    if till is None:\n        initial = activities\n    else:\n        initial = (root(acts=activities, end=till),)\n    loop = _Loop(*initial, start=start)",
     'root function with plain parameters, other local for the roots')
mutant('C07', 'c07-delay-subscribe-at', TIMING,
       "        __USIM_STATE__.loop.schedule(waiter, interrupt, delay=self.duration)",
       "        __USIM_STATE__.loop.schedule(waiter, interrupt, at=self.duration)",
       'I subscribe:Delay', 'until(time + d) fires at date d')
twin('C07', 'c07-twin-atoms-reordered', CONTEXT,
     "        return exc_val is self._interrupt or super()._is_suppressed(exc_val)",
     "        return super()._is_suppressed(exc_val) or exc_val is self._interrupt",
     'disjuncts swapped')

# ------------------------------------------------------------------------- C03
mutant('C03', 'c03-postpone-swallows-foreign', NOTIF,
       "    try:\n        await __HIBERNATE__\n    except Interrupt as err:\n        if err is not wake_up:\n            assert (\n                task is loop.activity\n            ), 'Break points cannot be passed to other coroutines'\n            raise\n    finally:\n        wake_up.revoke()\n\n\nasync def suspend",
       "    try:\n        await __HIBERNATE__\n    except Interrupt as err:\n        pass\n    finally:\n        wake_up.revoke()\n\n\nasync def suspend",
       'H', 'postpone swallows cancellations and scope interrupts')
mutant('C03', 'c03-suspend-no-revoke', NOTIF,
       "            raise\n    finally:\n        wake_up.revoke()\n\n\nclass Notification:",
       "            raise\n\n\nclass Notification:",
       'P', 'an interrupted suspend leaves its wake-up armed: it fires later into another wait')
mutant('C03', 'c03-subscription-no-unsubscribe', NOTIF,
       "        finally:\n            self.__unsubscribe__(task, wake_up)",
       "        finally:\n            pass",
       'P', 'a cancelled waiter stays subscribed and is woken later')
mutant('C03', 'c03-unsubscribe-scheduled-ignored', NOTIF,
       "        if interrupt.scheduled:\n            interrupt.revoke()\n        else:\n            self._waiting.remove((waiter, interrupt))",
       "        if not interrupt.scheduled:\n            self._waiting.remove((waiter, interrupt))",
       'S', 'a delivered-but-unconsumed signal is not revoked')
mutant('C03', 'c03-run-revoked', LOOP,
       "                if activation:\n                    self.turn += 1",
       "                if True:\n                    self.turn += 1",
       'D', 'revoked signals are thrown into activities that left the wait')
mutant('C03', 'c03-activation-bool', LOOP,
       "        return self.signal is None or not self.signal._revoked",
       "        return self.signal is None or not self.signal.scheduled",
       'D Activation.__bool__', 'scheduled signals are skipped')
mutant('C03', 'c03-schedule-no-mark', LOOP,
       "        if signal is not None:\n            signal.scheduled = True\n", "",
       'D Loop.schedule', 'unsubscribe tries to remove a waiter that was already delivered')
mutant('C03', 'c03-condition-subscribe-no-signal', COND,
       "            __USIM_STATE__.loop.schedule(waiter, signal=interrupt)",
       "            __USIM_STATE__.loop.schedule(waiter)",
       'S', 'the waiter is resumed by a plain send: Hibernate returns into the body')
mutant('C03', 'c03-moment-unsubscribe-delegates', TIMING,
       "        if (waiter, interrupt) in self._waiting:\n            Notification.__unsubscribe__(self, waiter, interrupt)\n        else:\n            self._transition.__unsubscribe__(waiter, interrupt)",
       "        self._transition.__unsubscribe__(waiter, interrupt)",
       'S Moment', 'ValueError when leaving until(time == past)')
mutant('C03', 'c03-cancel-schedule-before-register', TASK,
       "                self._cancellations.append(cancellation)\n                cancellation.scheduled = True\n                __USIM_STATE__.loop.schedule(self.__runner__, signal=cancellation)",
       "                cancellation.scheduled = True\n                __USIM_STATE__.loop.schedule(self.__runner__, signal=cancellation)",
       'P', 'a cancellation racing with completion is delivered to a finished runner')
mutant('C03', 'c03-wrapper-no-revoke', TASK,
       "            for cancellation in self._cancellations:\n                cancellation.revoke()\n", "",
       'P', 'pending cancellations hit the finished runner: StopIteration/RuntimeError')
mutant('C03', 'c03-lock-swallows', LOCKS,
       "                if self._owner == current_activity:\n                    self.__release__()\n                raise",
       "                if self._owner == current_activity:\n                    self.__release__()",
       'H', 'a cancelled lock waiter continues into the critical section')
mutant('C03', 'c03-subscription-swallows-all', NOTIF,
       "        except Interrupt as err:\n            if err is not wake_up:\n                assert (\n                    task is loop.activity\n                ), 'Break points cannot be passed to other coroutines'\n                raise\n        finally:\n            self.__unsubscribe__(task, wake_up)",
       "        except Interrupt as err:\n            if err is wake_up:\n                raise\n        finally:\n            self.__unsubscribe__(task, wake_up)",
       'H', 'own wake-up escapes, foreign signals are swallowed')
twin('C03', 'c03-twin-finally-as-except', NOTIF,
     "    loop.schedule(task, signal=wake_up)\n    try:\n        await __HIBERNATE__\n    except Interrupt as err:\n        if err is not wake_up:\n            assert (\n                task is loop.activity\n            ), 'Break points cannot be passed to other coroutines'\n            raise\n    finally:\n        wake_up.revoke()",
     "    loop.schedule(task, signal=wake_up)\n    try:\n        await __HIBERNATE__\n    except Interrupt as err:\n        if err is not wake_up:\n            wake_up.revoke()\n            raise\n    except BaseException:\n        wake_up.revoke()\n        raise\n    wake_up.revoke()",
     'finally written out as handlers')

# ------------------------------------------------------------------------- C14
mutant('C14', 'c14-interval-drift', TIMING,
       "        remaining_delay = last_time + period - time.now",
       "        remaining_delay = period",
       'A interval:remaining', 'interval behaves like delay: ticks drift with the body')
mutant('C14', 'c14-interval-stale-last', TIMING,
       "            await postpone()\n        last_time = time.now\n        yield last_time",
       "            await postpone()\n        yield last_time\n        last_time = time.now",
       'A interval:yields-fresh-clock', 'yields the previous tick; the reference point includes the body time')
mutant('C14', 'c14-interval-no-exceeded', TIMING,
       "        if remaining_delay < 0:\n            raise IntervalExceeded()\n        elif remaining_delay > 0:",
       "        if remaining_delay > 0:",
       'G', 'a slow body is not reported; zero/negative remaining postpones')
mutant('C14', 'c14-interval-exceeded-on-equal', TIMING,
       "        if remaining_delay < 0:\n            raise IntervalExceeded()",
       "        if remaining_delay <= 0:\n            raise IntervalExceeded()",
       'G', 'a body taking exactly the period raises IntervalExceeded')
mutant('C14', 'c14-delay-negative-accepted', TIMING,
       "    if period < 0:\n        raise ValueError('period must not be negative')\n    if period > 0:",
       "    if period > 0:",
       'G delay', 'negative period spins')
mutant('C14', 'c14-delay-double', TIMING,
       "            await suspend(delay=period, until=None)\n            yield time.now",
       "            await suspend(delay=period + period, until=None)\n            yield time.now",
       'A delay:waits-period', 'pauses twice the period')
mutant('C14', 'c14-delay-zero-no-yield-to-others', TIMING,
       "        while True:\n            await postpone()\n            yield time.now",
       "        while True:\n            yield time.now",
       'Y delay', 'delay(0) starves other activities')
twin('C14', 'c14-twin-rearranged', TIMING,
     "        remaining_delay = last_time + period - time.now",
     "        remaining_delay = period - (time.now - last_time)",
     'same formula')

# ------------------------------------------------------------------------- C16
mutant('C16', 'c16-first-not-volatile', BASICS,
       "                _first_monitor(activity, queue=results),\n                volatile=True,",
       "                _first_monitor(activity, queue=results),",
       'first:volatile', 'first() waits for the losers instead of aborting them')
mutant('C16', 'c16-first-count-late', BASICS,
       "    if count > len(activities):\n        raise ValueError(\n            f\"cannot provide {count} results from {len(activities)} activities\"\n        )\n    async with Scope() as scope:",
       "    async with Scope() as scope:\n      if count > len(activities):\n        raise ValueError(\n            f\"cannot provide {count} results from {len(activities)} activities\"\n        )",
       'first:count-checked', 'ValueError raised inside the scope')
mutant('C16', 'c16-first-no-slice', BASICS,
       "        async for winner in a.islice(results, count):",
       "        async for winner in results:",
       'first:fifo', 'never stops after count results')
mutant('C16', 'c16-first-yield-outside', BASICS,
       "        async for winner in a.islice(results, count):\n            yield winner",
       "        winners = [winner async for winner in a.islice(results, count)]\n    for winner in winners:\n        yield winner",
       'first:yield-inside-scope', 'results only after all count winners; rest not aborted on break')
mutant('C16', 'c16-monitor-puts-task', BASICS,
       "    result = await contestant\n    await queue.put(result)",
       "    result = await contestant\n    await queue.put(contestant)",
       'first _first_monitor', 'yields the activities instead of results')
mutant('C16', 'c16-collect-reversed-results', BASICS,
       "    return [await task for task in tasks]",
       "    return [await task for task in reversed(tasks)]",
       'collect:results-in-order', 'results in reverse order')
mutant('C16', 'c16-collect-volatile', BASICS,
       "        tasks = [scope.do(activity) for activity in activities]",
       "        tasks = [scope.do(activity, volatile=True) for activity in activities]",
       'collect', 'activities are aborted when the scope block ends')
mutant('C16', 'c16-collect-results-inside', BASICS,
       "        tasks = [scope.do(activity) for activity in activities]\n    return [await task for task in tasks]",
       "        tasks = [scope.do(activity) for activity in activities]\n        return [await task for task in tasks]",
       'collect:results-in-order', 'a failing activity is awaited inside the scope: raised directly instead of Concurrent')
mutant('C16', 'c16-collect-skips-first', BASICS,
       "        tasks = [scope.do(activity) for activity in activities]",
       "        tasks = [scope.do(activity) for activity in activities[1:]]",
       'collect:spawns-all-in-order', 'the first activity is never run')
mutant('C16', 'c16-collect-filtered-loop', BASICS,
       "        tasks = [scope.do(activity) for activity in activities]",
       "        tasks = []\n        for activity in activities:\n            if activity is not None:\n                tasks.append(scope.do(activity))",
       'collect:spawns-all-in-order', 'a filtering spawn loop')
mutant('C16', 'c16-collect-sorted-results', BASICS,
       "    return [await task for task in tasks]",
       "    tasks.sort(key=id)\n    return [await task for task in tasks]",
       'collect', 'results in arbitrary order')
mutant('C16', 'c16-first-count-or', BASICS,
       "    count = count if count is not None else len(activities)",
       "    count = count or len(activities)",
       'first:count-None-means-all', 'count=0 yields everything')
mutant('C16', 'c16-first-other-queue', BASICS,
       "        async for winner in a.islice(results, count):",
       "        async for winner in a.islice(Queue(), count):",
       'first:fifo', 'winners are read from a queue nobody writes')
mutant('C16', 'c16-first-spawn-filtered', BASICS,
       "        for activity in activities:\n            scope.do(",
       "        for activity in activities:\n          if activity is not None:\n            scope.do(",
       'first:volatile-monitors', 'a filtering spawn loop')
twin('C16', 'c16-twin-append-loops', BASICS,
     "        tasks = [scope.do(activity) for activity in activities]\n    return [await task for task in tasks]",
     "        tasks = []\n        for activity in activities:\n            tasks.append(scope.do(activity))\n    collected = []\n    for task in tasks:\n        outcome = await task\n        collected.append(outcome)\n    return collected",
     'comprehensions as append loops')
twin('C16', 'c16-twin-count-statement', BASICS,
     "    count = count if count is not None else len(activities)\n    if count > len(activities):",
     "    available = len(activities)\n    if count is None:\n        count = available\n    if available < count:",
     'conditional expression as statement, mirrored comparison')
twin('C16', 'c16-twin-loop-form', BASICS,
     "    return [await task for task in tasks]",
     "    return [(await task) for task in tasks]",
     'parenthesised await')

# ------------------------------------------------------------------------- C15
HANDLERPY = 'usim/_core/handler.py'
INITPY = 'usim/__init__.py'
mutant('C15', 'c15-assign-no-finally', HANDLERPY,
       "        try:\n            yield\n        finally:\n            self.loop = outer_loop",
       "        yield\n        self.loop = outer_loop",
       'P StateHandler.assign', 'a failing simulation leaves its loop installed in the thread')
mutant('C15', 'c15-assign-restores-missing', HANDLERPY,
       "        finally:\n            self.loop = outer_loop",
       "        finally:\n            self.loop = MissingLoop()",
       'P StateHandler.assign', 'a nested run() detaches the enclosing simulation')
mutant('C15', 'c15-state-not-thread-local', HANDLERPY,
       "class StateHandler(threading.local):", "class StateHandler(object):",
       'X StateHandler', 'simulations in different threads share one current loop')
mutant('C15', 'c15-module-level-registry', LOOP,
       "# Coroutine Return Type\nRT = TypeVar('RT')",
       "# Coroutine Return Type\nRT = TypeVar('RT')\n_ALL_LOOPS = []",
       'X module-state', 'a process-wide list of loops')
mutant('C15', 'c15-class-level-pending', LOOP,
       "    __slots__ = ('time', 'turn', 'activity', '_annotations', '_activations', '_pending')\n",
       "    __slots__ = ('time', 'turn', 'activity', '_annotations', '_activations', '_pending')\n    _shared = collections.deque()\n",
       'X class-state', 'a class level deque shared by all loops')
mutant('C15', 'c15-run-events-early-exit', LOOP,
       "            while pending:\n                activation = pending.popleft()\n                if activation:",
       "            while pending:\n                activation = pending.popleft()\n                if self.turn > 10000:\n                    return\n                if activation:",
       'Q', 'run() returns although activities can still progress')
mutant('C15', 'c15-kernel-swallows', LOOP,
       "        except StopIteration as err:\n            if err.args:",
       "        except Exception:\n            pass\n        except StopIteration as err:\n            if err.args:",
       'H', 'exceptions of root activities are swallowed')
mutant('C15', 'c15-leak-not-reported', LOOP,
       "            if err.args:\n                # async def ... return foo -> StopIteration.args == (foo,)\n                raise ActivityLeak(target, signal, err.args[0]) from err",
       "            pass",
       'H _run_coroutine', 'a returned value of a root activity is lost silently')
mutant('C15', 'c15-roots-reversed', LOOP,
       "        for coroutine in coroutines:\n            self._activations.push(self.time, Activation(coroutine))",
       "        for coroutine in reversed(coroutines):\n            self._activations.push(self.time, Activation(coroutine))",
       'O', 'roots start in reverse order')
mutant('C15', 'c15-run-ignores-start', INITPY,
       "    loop = _Loop(*activities, start=start)", "    loop = _Loop(*activities)",
       'P usim.run', 'start time ignored')
mutant('C15', 'c15-loop-run-outside-assign', LOOP,
       "        with __LOOP_STATE__.assign(self):\n            self._run_events()",
       "        with __LOOP_STATE__.assign(self):\n            pass\n        self._run_events()",
       'P Loop.run', 'events run without a current loop')
twin('C15', 'c15-twin-constant-added', LOOP,
     "# Coroutine Return Type\nRT = TypeVar('RT')",
     "# Coroutine Return Type\nRT = TypeVar('RT')\n_DEFAULT_START = 0\n_NAMES = ('time', 'turn')",
     'module level constants are fine')

# ------------------------------------------------------------------------- C02
mutant('C02', 'c02-weakset-listeners', TRACKED,
       "        self._listeners = WeakKeyDictionary()  \\\n            # type: WeakKeyDictionary[AsyncComparison, None]",
       "        self._listeners = set()",
       'T', 'the original defect F7 (address ordered listeners)')
mutant('C02', 'c02-awake-all-set', NOTIF,
       "        awoken = self._waiting.copy()\n        self._waiting.clear()\n        for waiter, interrupt in awoken:",
       "        awoken = set(self._waiting)\n        self._waiting.clear()\n        for waiter, interrupt in awoken:",
       'T', 'waiters woken in hash order')
mutant('C02', 'c02-pending-appendleft', LOOP,
       "            self._pending.append(Activation(target, signal))",
       "            self._pending.appendleft(Activation(target, signal))",
       'F', 'LIFO turn order')
mutant('C02', 'c02-pop-right', LOOP,
       "                activation = pending.popleft()", "                activation = pending.pop()",
       'F _run_events', 'LIFO turn order')
mutant('C02', 'c02-random-tiebreak', LOOP,
       "import collections\nfrom typing import Coroutine",
       "import collections\nimport random\nfrom typing import Coroutine",
       'T import', 'random imported into the kernel')
mutant('C02', 'c02-assert-with-effect', LOOP,
       "        assert (\n            delay is None or at is None\n        ), \"schedule date must be either absolute or relative\"",
       "        assert (\n            self._pending.append(None) is None\n        ), \"schedule date must be either absolute or relative\"",
       'D', 'an assert that mutates state: -O changes behaviour')
mutant('C02', 'c02-debug-behaviour', LOCKS,
       "    if __debug__:\n        def __enter__(self):",
       "    if __debug__:\n        _checked = True\n\n        def __enter__(self):",
       'D debug-block', 'state defined only in debug mode')
mutant('C02', 'c02-sd-len', WAITQ,
       "class SDWaitQueue(Generic[K, V]):\n    __slots__ = ('_data',)\n\n    def __init__(self):\n        self._data = SortedDict()  # type: SortedDict[K, deque[V]]\n\n    def __bool__(self):\n        return bool(self._data)",
       "class SDWaitQueue(Generic[K, V]):\n    __slots__ = ('_data',)\n\n    def __init__(self):\n        self._data = SortedDict()  # type: SortedDict[K, deque[V]]\n\n    def __bool__(self):\n        return len(self._data) > 1",
       'S same-truth', 'the SD backend stops one event early')
mutant('C02', 'c02-selector-lenient', WAITQ,
       "else:\n    raise EnvironmentError(\n        'Invalid %r: %r' % (QUEUETYPE_KEY, os.environ.get(QUEUETYPE_KEY))\n    )",
       "else:\n    WaitQueue = HQWaitQueue",
       'S selector', 'unknown selector values silently accepted')
twin('C02', 'c02-twin-awake-all-reversed', NOTIF,
     "        for waiter, interrupt in awoken:\n            __USIM_STATE__.loop.schedule(waiter, signal=interrupt)\n        return awoken",
     "        for waiter, interrupt in reversed(awoken):\n            __USIM_STATE__.loop.schedule(waiter, signal=interrupt)\n        return awoken",
     'deterministic but different wake order: violates none of the statements')
twin('C02', 'c02-twin-list-copy', NOTIF,
     "        awoken = self._waiting.copy()", "        awoken = list(self._waiting)",
     'copy spelled differently')

# ------------------------------------------------------------------------- C17
CONCEXC = 'usim/_primitives/concurrent_exception.py'
mutant('C17', 'c17-exclusive-count', CONCEXC,
       "            return not any(\n                not issubclass(child, cls.specialisations)\n                for child in subclass.specialisations\n            )",
       "            return len(subclass.specialisations) == len(cls.specialisations)",
       'B _subclasscheck_specialisation', 'duplicate matches counted: Concurrent[KeyError, LookupError] vs [KeyError, RuntimeError]')
mutant('C17', 'c17-inclusive-ignored', CONCEXC,
       "        elif cls.inclusive:\n            # We do not care if ``subclass`` has unmatched specialisations\n            return True\n",
       "",
       'B _subclasscheck_specialisation', 'a trailing ... no longer allows extra children')
mutant('C17', 'c17-any-instead-of-all', CONCEXC,
       "        matched_specialisations = all(\n            any(",
       "        matched_specialisations = any(\n            any(",
       'B _subclasscheck_specialisation', 'one matched type suffices')
mutant('C17', 'c17-contravariant', CONCEXC,
       "                issubclass(child, specialisation)\n",
       "                issubclass(specialisation, child)\n",
       'B _subclasscheck_specialisation', 'subclasses no longer count')
mutant('C17', 'c17-key-tuple', CONCEXC,
       "        unique_spec = frozenset(item)", "        unique_spec = tuple(item)",
       'N key', 'order and multiplicity distinguish types')
mutant('C17', 'c17-no-cache-store', CONCEXC,
       "            cls.__specialisations__[unique_spec] = specialised_cls\n", "",
       'N miss', 'equal specialisations are different classes')
mutant('C17', 'c17-unspecialised-rejects', CONCEXC,
       "                if cls.specialisations is None:\n                    return True",
       "                if cls.specialisations is None:\n                    return subclass.specialisations is None",
       'B __subclasscheck__', 'bare Concurrent no longer matches everything')
mutant('C17', 'c17-new-by-first-child', CONCEXC,
       "        special_cls = cls[tuple(type(child) for child in children)]",
       "        special_cls = cls[type(children[0])]",
       'N Concurrent.__new__', 'type determined by the first child only')
mutant('C17', 'c17-flatten-drops-nested', CONCEXC,
       "            if isinstance(child, Concurrent):\n                leafs.extend(child.flattened().children)\n            else:\n                leafs.append(child)",
       "            if not isinstance(child, Concurrent):\n                leafs.append(child)",
       'L', 'nested failures are lost')
mutant('C17', 'c17-instancecheck-identity', CONCEXC,
       "        return cls.__subclasscheck__(type(instance))",
       "        return type(instance) is cls",
       'B __instancecheck__', 'isinstance disagrees with issubclass')
twin('C17', 'c17-twin-all-form', CONCEXC,
     "            return not any(\n                not issubclass(child, cls.specialisations)\n                for child in subclass.specialisations\n            )",
     "            return all(\n                issubclass(child, cls.specialisations)\n                for child in subclass.specialisations\n            )",
     'not any(not p) <-> all(p)')
twin('C17', 'c17-twin-reordered-branches', CONCEXC,
     "        if not matched_specialisations:\n            return False\n        # except MultiError[KeyError, ...]\n        elif cls.inclusive:",
     "        if cls.inclusive and matched_specialisations:\n            return True\n        elif not matched_specialisations:\n            return False\n        elif cls.inclusive:",
     'redundant early branch')

# ------------------------------------------------------------------------- C19
RBASE = 'usim/py/resources/base.py'
RCONT = 'usim/py/resources/container.py'
RRES = 'usim/py/resources/resource.py'
RSTORE = 'usim/py/resources/store.py'
mutant('C19', 'c19-queue-rebound', RBASE,
       "        # in-place: keeps the queue's type, e.g. a priority-sorted queue\n        del self.put_queue[:len(triggered)]",
       "        self.put_queue = self.put_queue[len(triggered):]",
       'Q', 'the original defect F9')
mutant('C19', 'c19-filterstore-takewhile', RSTORE,
       "    def _trigger_get(self, put_event):\n        # Every request has its own filter: a request that cannot be served\n        # must not block the requests queued behind it.\n        served = [event for event in self.get_queue if self._do_get(event)]\n        for event in served:\n            self.get_queue.remove(event)\n\n",
       "",
       'F FilterStore', 'the original defect F10')
mutant('C19', 'c19-container-put-overflow', RCONT,
       "        if self._capacity - self._level >= event.amount:",
       "        if self._capacity - self._level > 0:",
       'G Container._do_put', 'level exceeds capacity')
mutant('C19', 'c19-container-put-strict', RCONT,
       "        if self._capacity - self._level >= event.amount:",
       "        if self._capacity - self._level > event.amount:",
       'G Container._do_put', 'a put that exactly fills the container waits forever')
mutant('C19', 'c19-container-get-negative', RCONT,
       "        if self._level >= event.amount:\n            self._level -= event.amount",
       "        if self._level > 0:\n            self._level -= event.amount",
       'G Container._do_get', 'level below zero')
mutant('C19', 'c19-store-capacity-off-by-one', RSTORE,
       "    def _do_put(self, event: StorePut):\n        if len(self._items) < self._capacity:",
       "    def _do_put(self, event: StorePut):\n        if len(self._items) <= self._capacity:",
       'G Store._do_put', 'one item more than capacity')
mutant('C19', 'c19-grant-without-succeed', RCONT,
       "            self._level -= event.amount\n            event.succeed()\n            return True",
       "            self._level -= event.amount\n            return True",
       'S Container._do_get', 'content taken but the request never fires')
mutant('C19', 'c19-succeed-but-false', RSTORE,
       "            self._items.append(event.item)\n            event.succeed()\n            return True",
       "            self._items.append(event.item)\n            event.succeed()\n            return False",
       'S Store._do_put', 'served request stays queued and is served again')
mutant('C19', 'c19-store-lifo', RSTORE,
       "            item = self._items.popleft()", "            item = self._items.pop()",
       'F Store', 'LIFO store')
mutant('C19', 'c19-priostore-largest', RSTORE,
       "            item = self._items.pop(0)", "            item = self._items.pop()",
       'F PriorityStore', 'largest item first')
mutant('C19', 'c19-preempt-equal', RRES,
       "            if event.key < preempt_candidate.key:",
       "            if event.key <= preempt_candidate.key:",
       'Q PreemptiveResource', 'equal priority pre-empts')
mutant('C19', 'c19-preempt-best-user', RRES,
       "            preempt_candidate = self.users[-1]", "            preempt_candidate = self.users[0]",
       'Q PreemptiveResource', 'the best user is evicted')
mutant('C19', 'c19-preempt-not-full', RRES,
       "        if len(self.users) >= self.capacity and event.preempt:",
       "        if event.preempt:",
       'Q PreemptiveResource', 'pre-emption although capacity is free')
mutant('C19', 'c19-key-time-first', RRES,
       "        self.key = (self.priority, self.time, not self.preempt)",
       "        self.key = (self.time, self.priority, not self.preempt)",
       'Q PriorityRequest.key', 'requests ordered by time before priority')
mutant('C19', 'c19-cancel-always', RBASE,
       "    def cancel(self):\n        if not self.triggered:\n            self.resource.put_queue.remove(self)",
       "    def cancel(self):\n        self.resource.put_queue.remove(self)",
       'S Put.cancel', 'cancelling a granted request raises ValueError')
mutant('C19', 'c19-exit-no-release', RRES,
       "        if self.triggered:\n            self.resource.release(self)\n        super().__exit__(exc_type, value, traceback)",
       "        super().__exit__(exc_type, value, traceback)",
       'S Request.__exit__', 'resource never released at the end of the with block')
mutant('C19', 'c19-put-no-own-trigger', RBASE,
       "        # ...and immediately check whether we could trigger\n        resource._trigger_put(None)",
       "        pass",
       'S Put.__init__', 'a put into free capacity is not served at once')
mutant('C19', 'c19-resource-over-capacity', RRES,
       "        if len(self.users) < self._capacity:\n            self.users.append(event)",
       "        if len(self.users) <= self._capacity:\n            self.users.append(event)",
       'G Resource._do_put', 'one user too many')
mutant('C19', 'c19-count-loop-no-break', RBASE,
       "        triggered = list(takewhile(self._do_get, self.get_queue))\n        del self.get_queue[:len(triggered)]",
       "        served = 0\n        for get_event in self.get_queue:\n            if self._do_get(get_event):\n                served += 1\n        del self.get_queue[:served]",
       'Q BaseResource._trigger_get', 'serving goes on behind a refused request but a prefix is removed')
mutant('C19', 'c19-count-loop-off-by-one', RBASE,
       "        triggered = list(takewhile(self._do_get, self.get_queue))\n        del self.get_queue[:len(triggered)]",
       "        served = 0\n        for get_event in self.get_queue:\n            if not self._do_get(get_event):\n                break\n            served += 1\n        del self.get_queue[:served + 1]",
       'Q BaseResource._trigger_get', 'the first refused request is dropped')
mutant('C19', 'c19-count-loop-counts-refused', RBASE,
       "        triggered = list(takewhile(self._do_get, self.get_queue))\n        del self.get_queue[:len(triggered)]",
       "        served = 0\n        for get_event in self.get_queue:\n            served += 1\n            if not self._do_get(get_event):\n                break\n        del self.get_queue[:served]",
       'Q BaseResource._trigger_get', 'the refused request is dropped')
mutant('C19', 'c19-takewhile-other-queue', RBASE,
       "        triggered = list(takewhile(self._do_get, self.get_queue))\n        del self.get_queue[:len(triggered)]",
       "        triggered = list(takewhile(self._do_get, self.get_queue))\n        del self.put_queue[:len(triggered)]",
       'Q BaseResource._trigger_get', 'served get requests remove put requests')
twin('C19', 'c19-twin-count-loop', RBASE,
     "        triggered = list(takewhile(self._do_get, self.get_queue))\n        del self.get_queue[:len(triggered)]",
     "        do_get = self._do_get\n        served = 0\n        for get_event in self.get_queue:\n            if not do_get(get_event):\n                break\n            served += 1\n        del self.get_queue[:served]",
     'counting loop instead of takewhile')
mutant('C19', 'c19-filterstore-remove-while-scanning', RSTORE,
       "        served = [event for event in self.get_queue if self._do_get(event)]\n        for event in served:\n            self.get_queue.remove(event)",
       "        for event in self.get_queue:\n            if self._do_get(event):\n                self.get_queue.remove(event)",
       'Q FilterStore._trigger_get', 'removing while iterating skips the next request')
mutant('C19', 'c19-filterstore-removes-refused', RSTORE,
       "        served = [event for event in self.get_queue if self._do_get(event)]",
       "        served = [event for event in self.get_queue if not self._do_get(event)]",
       'Q FilterStore._trigger_get', 'the refused requests are dropped, the served stay queued')
twin('C19', 'c19-twin-filterstore-loop', RSTORE,
     "        served = [event for event in self.get_queue if self._do_get(event)]",
     "        served = []\n        for event in self.get_queue:\n            if self._do_get(event):\n                served.append(event)",
     'comprehension as loop')
twin('C19', 'c19-twin-guard-rearranged', RCONT,
     "        if self._capacity - self._level >= event.amount:",
     "        if self._level + event.amount <= self._capacity:",
     'same inequality')

# ------------------------------------------------------------------------- C18
PYEVENTS = 'usim/py/events.py'
PYCORE = 'usim/py/core.py'
mutant('C18', 'c18-succeed-twice', PYEVENTS,
       "        if self._value is not None:\n            raise RuntimeError(f'{self} has already been triggered')\n        self._value = value, None",
       "        self._value = value, None",
       'O', 'an event can be triggered twice')
mutant('C18', 'c18-trigger-no-callbacks', PYEVENTS,
       "        self.__usimpy_flag__.__trigger__()\n        self.env.schedule(self)\n\n    @property\n    def triggered",
       "        self.__usimpy_flag__.__trigger__()\n\n    @property\n    def triggered",
       'T Event._trigger', 'callbacks never run')
mutant('C18', 'c18-trigger-no-wake', PYEVENTS,
       "        self.__usimpy_flag__._value = True\n        self.__usimpy_flag__.__trigger__()\n        self.env.schedule(self)",
       "        self.__usimpy_flag__._value = True\n        self.env.schedule(self)",
       'T Event._trigger', 'waiting processes are never resumed')
mutant('C18', 'c18-callbacks-twice', PYEVENTS,
       "        callbacks, self.callbacks = self.callbacks, None",
       "        callbacks = self.callbacks",
       'T _invoke_callbacks', 'callbacks can be invoked again')
mutant('C18', 'c18-failure-swallowed', PYEVENTS,
       "        if exception is not None and not self.defused:\n            raise exception",
       "        if exception is not None and self.defused:\n            raise exception",
       'T _invoke_callbacks', 'unhandled failed events do not end the run')
mutant('C18', 'c18-timeout-delay-twice', PYEVENTS,
       "        await (time + self._delay)\n        self.succeed(self._fixed_value)",
       "        await (time + self._delay)\n        await (time + self._delay)\n        self.succeed(self._fixed_value)",
       'P Timeout._trigger_timeout', 'fires after twice the delay')
mutant('C18', 'c18-timeout-negative-late', PYEVENTS,
       "        if delay < 0:\n            raise ValueError(\"'delay' must not be negative\")\n        super().__init__(env)",
       "        super().__init__(env)\n        if delay < 0:\n            raise ValueError(\"'delay' must not be negative\")",
       'P Timeout:negative', 'event created before validation')
mutant('C18', 'c18-process-generic-first', PYEVENTS,
       "            except StopIteration as err:\n                value = err.args[0] if err.args else None\n                self.succeed(value)\n                break\n            except BaseException as err:\n                self.fail(err)\n                break",
       "            except BaseException as err:\n                self.fail(err)\n                break",
       'P Process._run_payload', 'a finished process counts as failed with StopIteration')
mutant('C18', 'c18-process-value-lost', PYEVENTS,
       "                value = err.args[0] if err.args else None\n                self.succeed(value)",
       "                value = None\n                self.succeed(value)",
       'P Process._run_payload:return-value', 'the return value of a process is lost')
mutant('C18', 'c18-interrupt-dead', PYEVENTS,
       "        if self._value is None:\n            self._interrupts.push(cause)",
       "        self._interrupts.push(cause)",
       'P Process.interrupt', 'interrupting a finished process queues forever')
mutant('C18', 'c18-interrupts-lifo', PYEVENTS,
       "        result = self._causes.pop(0)", "        result = self._causes.pop()",
       'P InterruptQueue', 'interrupts delivered in reverse order')
mutant('C18', 'c18-anyof-needs-all', PYEVENTS,
       "        return count or not events", "        return count == len(events)",
       'P Condition.any_events', 'AnyOf waits for all members')
mutant('C18', 'c18-until-past-accepted', PYCORE,
       "                        if until < time.now:\n                            raise ValueError('until must be in the future')\n",
       "",
       'U until:past', 'until in the past is accepted')
mutant('C18', 'c18-run-returns-none', PYCORE,
       "                if until.triggered:\n                    return until.value\n",
       "                if until.triggered:\n                    return None\n",
       'U run:returns', 'run(until=event) loses the value')
mutant('C18', 'c18-await-no-defuse', PYEVENTS,
       "            # the waiter will handle our exception\n            self.defused = True\n            raise error",
       "            raise error",
       'A', 'a failure handled by an awaiting activity still ends the run')
twin('C18', 'c18-twin-guard-form', PYEVENTS,
     "        if delay < 0:\n            raise ValueError(\"'delay' must not be negative\")\n        super().__init__(env)",
     "        if 0 > delay:\n            raise ValueError(\"'delay' must not be negative\")\n        super().__init__(env)",
     'flipped comparison')


# ---------------------------------------------- from the mutation sweep (tools/mutsweep.py)
# one-spot edits that the project's test suite lets pass and that no check reported when the
# sweep was first run; each is now a rule instance of the property named
mutant('C13', 'c13-sweep-scale-never-relaxed', PIPE,
       "        elif self._throughput_scale != 1.0:",
       "        elif not (self._throughput_scale != 1.0):",
       'scale:returns-to-1', 'the scale stays below 1 after the congestion has ended')
mutant('C14', 'c14-sweep-delay-zero-ends', TIMING,
       "    else:\n        while True:\n            await postpone()\n            yield time.now",
       "    else:\n        while False:\n            await postpone()\n            yield time.now",
       'delay:never-ends', 'delay(0) ends the iteration instead of ticking')
mutant('C15', 'c15-sweep-schedule-drops-inf', LOOP,
       "            self._activations.push(self.time + delay, Activation(target, signal))",
       "            if delay != float('inf'):\n                self._activations.push(self.time + delay, Activation(target, signal))",
       'queues-once-on-every-path', 'a wake-up after an infinite delay is never queued')
mutant('C08', 'c08-listener-registered-conditionally', TRACKED,
       "        self._listeners[listener] = None",
       "        if listener._waiting:\n            self._listeners[listener] = None",
       'Tracked.__add_listener__', 'only comparisons that already have waiters are told of changes')
mutant('C18', 'c18-sweep-interrupt-cause-lost', PYEVENTS,
       "            self.__usimpy_flag__._value = False\n        return result",
       "            self.__usimpy_flag__._value = False\n        return None",
       'InterruptQueue.pop:returns-the-cause', 'every Interrupt carries the cause None')
mutant('C19', 'c19-sweep-grant-not-stamped', RRES,
       "            self.users.append(event)\n            event.usage_since = self._env.now\n",
       "            self.users.append(event)\n",
       'grant:stamps-usage_since', 'Preempted.usage_since is None for every victim')
mutant('C19', 'c19-sweep-preempted-forgets-by', RRES,
       "        self.by = by\n", "        pass\n",
       'Preempted:details-kept', 'a victim cannot read who pre-empted it')
mutant('C19', 'c19-sweep-users-plain-list', RRES,
       "        self.users = SortedQueue()  # type: SortedQueue[PriorityRequest]\n",
       "        pass\n",
       None, 'the users of a PreemptiveResource stay in grant order: the victim is the last '
       'granted user, not the worst')
