"""
Analysis context shared by all property checks: program model + types + path engine,
plus small query helpers the rules are written in.
"""
import ast
from typing import List, Optional, Iterable

from .model import Program, FunctionInfo, ClassInfo, AnalysisError
from .types import TypeEngine, Frame, Callee
from .paths import Interp, Path, Event, SIGNALS, GENEXIT


class Analysis:
    def __init__(self, root: str = None, overlay: dict = None, asserts: bool = True,
                 program: Program = None, loop_bound: int = None):
        self.p = program or Program.load(root, overlay)
        self.te = TypeEngine(self.p)
        self.it = Interp(self.p, self.te, asserts=asserts)
        self.asserts = asserts
        #: interpreter for *rule paths*: private helpers of the same object/module are
        #: inlined transparently, so that extracting or inlining a helper changes nothing
        self.rit = Interp(self.p, self.te, asserts=asserts)
        self.rit.helpers = True
        self._share(self.rit)
        if loop_bound is not None:
            # deeper (or shallower) unrolling of every loop, for summaries and rule paths
            self.it.loop_bound = loop_bound
            self.rit.loop_bound = loop_bound
        self._rule_paths = {}
        self._no_generous = set()
        from . import rules
        rules.register_clock_reads(self.p)
        rules.TYPES = self.te

    def _share(self, other: Interp):
        other._summaries = self.it._summaries
        other._pure = self.it._pure
        other._busy = self.it._busy
        other.stats = self.it.stats
        other.unresolved = self.it.unresolved
        other.user_sites = self.it.user_sites

    # -- anchors --------------------------------------------------------------
    def cls(self, qn: str) -> ClassInfo:
        return self.p.get_class(qn)

    def fn(self, qn: str) -> FunctionInfo:
        return self.p.get_function(qn)

    def method(self, cls_qn: str, name: str) -> FunctionInfo:
        self.p.get_class(cls_qn)
        found = self.p.find_method(cls_qn, name)
        if found is None:
            raise AnalysisError('anchor method %s.%s not found' % (cls_qn, name))
        return found

    def callee(self, cls_qn: str, name: str) -> Callee:
        return Callee(self.method(cls_qn, name), cls_qn)

    def func_callee(self, qn: str) -> Callee:
        fn = self.fn(qn)
        owner = self.p.enclosing_self_class(fn)
        return Callee(fn, owner.qn if owner else None)

    def paths(self, callee: Callee, which: str = None, loop_bound: int = None) -> List[Path]:
        """rule paths of a function (helpers inlined transparently), memoised;
        ``loop_bound`` lowers the number of unrolled iterations for branch-heavy loops"""
        key = callee.key() + (which, loop_bound)
        found = self._rule_paths.get(key)
        if found is None:
            it = self.rit
            assume = it.assume_for(callee, which) if which else None
            hole = it._default_hole_ev if callee.fn.kind == 'ctxgen' else None
            saved = it.loop_bound, it.HELPER_PATHS, it.budget
            if loop_bound is not None:
                it.loop_bound = loop_bound
            try:
                # generous helper inlining first; the usual limit when that explodes; and
                # as the last resort every loop unrolled once instead of twice (a function
                # with several branching loops: fewer iterations rather than no verdict)
                found = None
                attempts = [(48, 300000, it.loop_bound), (saved[1], 500000, it.loop_bound)]
                if loop_bound is None and it.loop_bound > 1:
                    attempts.append((saved[1], 300000, 1))
                for number, (helper_paths, budget, bound) in enumerate(attempts):
                    if number == 0 and callee.fn.qn in self._no_generous:
                        continue
                    it.HELPER_PATHS, it.budget, it.loop_bound = helper_paths, budget, bound
                    try:
                        got = it.paths_of(callee, assume, hole, which)
                    except AnalysisError:
                        got = None
                    if number == 0 and (got is None or len(got) > 8000):
                        self._no_generous.add(callee.fn.qn)
                    if got is not None and (found is None or len(got) < len(found)):
                        found = got
                    if found is not None and len(found) <= (8000 if number == 0 else 20000):
                        break
            finally:
                it.loop_bound, it.HELPER_PATHS, it.budget = saved
            if found is None or len(found) > 20000:
                raise AnalysisError('too many paths in %s' % callee)
            self._rule_paths[key] = found
        return found

    def summary_paths(self, callee: Callee, which: str = None) -> List[Path]:
        """inline-free paths as used for callee summaries"""
        summ = self.it.summary(callee, which)
        if summ.paths is None:
            raise AnalysisError('too many paths in %s' % callee)
        return summ.paths

    def inlined_paths(self, callee: Callee, inline, depth: int, which: str = None) \
            -> List[Path]:
        """paths with callees inlined (``inline(callee, depth) -> bool``) up to ``depth``"""
        it = Interp(self.p, self.te, asserts=self.asserts, inline=inline, max_depth=depth)
        it.helpers = True
        self._share(it)
        assume = it.assume_for(callee, which) if which else None
        hole = it._default_hole_ev if callee.fn.kind == 'ctxgen' else None
        return it.paths_of(callee, assume, hole, which)

    def stats(self) -> dict:
        st = self.it.stats
        return {
            'modules': len(self.p.modules),
            'function_definitions': len(self.p.functions),
            'functions_analysed(receiver contexts)': len(st['functions']),
            'paths_enumerated': st['paths'],
            'suspension_sites_visited': len(st['susp_sites']),
            'call_sites_visited': len(st['call_sites']),
            'call_sites_resolved': len(st['call_sites_resolved']),
            'await_sites_unresolved': len(self.it.unresolved),
            'user_awaitable_sites': len(self.it.user_sites),
        }


# ---------------------------------------------------------------- event queries
def is_call_to(event: Event, name: str, cls_qn: str = None) -> bool:
    """whether a call/susp event has a usim callee with that function name"""
    if event.kind not in ('call', 'susp', 'enter'):
        return False
    callees = event.data.get('callees')
    if callees is None and event.kind == 'enter':
        callees = [event.data['callee']]
    for callee in callees or ():
        if callee.fn.name != name:
            continue
        if cls_qn is None or (callee.fn.cls is not None and callee.fn.cls.qn == cls_qn):
            return True
        # the method may live in a private base class split off `cls_qn`
        owner = callee.fn.cls
        if owner is not None and owner.name.startswith('_'):
            program = getattr(owner.module, 'program', None)
            target = program.classes.get(cls_qn) if program is not None else None
            if target is not None and owner.qn in target.mro and \
                    owner.module is target.module:
                return True
    return False


def is_ext_call(event: Event, attr: str, tname: str = None) -> bool:
    """external method call such as ``deque.popleft``"""
    if event.kind != 'call':
        return False
    for ext in event.data.get('externals') or ():
        if ext[0] == 'extmeth' and ext[2] == attr and (tname is None or ext[1] == tname):
            return True
        if ext[0] == 'extfn' and ext[1].split('.')[-1] == attr and tname is None:
            return True
    return False


def call_receiver(event: Event) -> Optional[str]:
    node = event.node
    if isinstance(node, ast.Call) and isinstance(node.func, ast.Attribute):
        try:
            return ast.unparse(node.func.value)
        except Exception:
            return None
    return None


def is_store_to(event: Event, path: str) -> bool:
    return event.kind == 'store' and event.data.get('path') == path


def is_suspension(event: Event) -> bool:
    """an event at which other activities may run / signals may arrive"""
    if event.kind == 'susp':
        return event.data.get('suspended') != 'NEVER'
    if event.kind == 'yield':
        return event.data.get('suspended', 'NEVER') != 'NEVER'
    return False


def describe_path(path: Path, limit: int = 40) -> List[str]:
    return path.describe(limit)


def short(qn: str) -> str:
    return qn.split('.', 1)[1] if qn.startswith('usim.') else qn


def where_fn(fn: FunctionInfo) -> str:
    return '%s:%d (%s)' % (fn.module.relpath, fn.node.lineno, short(fn.qn))


def key_truth(event: Event) -> Optional[bool]:
    """truth of the canonical atom of a test event (``x is not None`` False => isnone True)"""
    if event.kind not in ('test', 'assert', 'retval'):
        return None
    return event.data.get('value') == event.data.get('positive', True)


def tested(event: Event, key, truth: bool) -> bool:
    return event.kind in ('test', 'assert') and event.data.get('key') == key \
        and key_truth(event) is truth


def event_callees(event: Event) -> list:
    """resolved usim callees of a call / suspension / helper-enter event"""
    if event.kind == 'enter':
        return [event.data['callee']]
    return list(event.data.get('callees') or ())


def invoked(event: Event, name: str, cls_qn: str = None) -> bool:
    """the function is really invoked here: a completed call or an inlined helper entry"""
    if not is_call_to(event, name, cls_qn):
        return False
    if event.kind == 'enter':
        return True
    return event.data.get('exit', 'normal') == 'normal'
