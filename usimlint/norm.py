"""
E8 -- two small symbolic normalisers.

*Algebra*: ``+ - * /`` over opaque symbols to a canonical rational form (quotient of two
polynomials with Fraction coefficients); ``equal_algebra(a, b)`` decides ``a == b`` as
rational functions, so operand order, temporaries and re-association do not matter.

*Boolean terms*: ``not/and/or/all(gen)/any(gen)/Compare/isinstance/issubclass/const`` to a
negation normal form with bounded quantifiers; equivalence is decided on normal forms.
"""
import ast
import itertools
from fractions import Fraction
from typing import Dict, Tuple, Optional


# ------------------------------------------------------------------- algebra
class NotAlgebraic(Exception):
    pass


Poly = Dict[Tuple[Tuple[str, int], ...], Fraction]


def _padd(a: Poly, b: Poly, sign=1) -> Poly:
    out = dict(a)
    for mono, coeff in b.items():
        out[mono] = out.get(mono, 0) + sign * coeff
        if out[mono] == 0:
            del out[mono]
    return out


def _pmul(a: Poly, b: Poly) -> Poly:
    out = {}
    for (m1, c1), (m2, c2) in itertools.product(a.items(), b.items()):
        powers = dict(m1)
        for sym, power in m2:
            powers[sym] = powers.get(sym, 0) + power
        mono = tuple(sorted((s, p) for s, p in powers.items() if p))
        out[mono] = out.get(mono, 0) + c1 * c2
        if out[mono] == 0:
            del out[mono]
    return out


def _const(value) -> Poly:
    value = Fraction(value)
    return {(): value} if value else {}


def _sym(name: str) -> Poly:
    return {((name, 1),): Fraction(1)}


def rational(expr, symbol=None):
    """(numerator, denominator) polynomials of an arithmetic expression AST"""
    symbol = symbol or (lambda node: ast.unparse(node))
    if isinstance(expr, ast.Constant) and isinstance(expr.value, (int, float)) \
            and not isinstance(expr.value, bool):
        if expr.value != expr.value or expr.value in (float('inf'), float('-inf')):
            return _sym(repr(expr.value)), _const(1)
        return _const(Fraction(expr.value).limit_denominator(10 ** 9)), _const(1)
    if isinstance(expr, ast.BinOp):
        ln, ld = rational(expr.left, symbol)
        rn, rd = rational(expr.right, symbol)
        if isinstance(expr.op, ast.Add):
            return _padd(_pmul(ln, rd), _pmul(rn, ld)), _pmul(ld, rd)
        if isinstance(expr.op, ast.Sub):
            return _padd(_pmul(ln, rd), _pmul(rn, ld), -1), _pmul(ld, rd)
        if isinstance(expr.op, ast.Mult):
            return _pmul(ln, rn), _pmul(ld, rd)
        if isinstance(expr.op, ast.Div):
            return _pmul(ln, rd), _pmul(ld, rn)
        raise NotAlgebraic(ast.unparse(expr))
    if isinstance(expr, ast.UnaryOp) and isinstance(expr.op, ast.USub):
        num, den = rational(expr.operand, symbol)
        return _pmul(_const(-1), num), den
    if isinstance(expr, ast.UnaryOp) and isinstance(expr.op, ast.UAdd):
        return rational(expr.operand, symbol)
    if isinstance(expr, (ast.Name, ast.Attribute, ast.Call, ast.Subscript, ast.IfExp)):
        return _sym(symbol(expr)), _const(1)
    raise NotAlgebraic(ast.unparse(expr))


def equal_algebra(a, b, symbol=None) -> bool:
    """whether two expression ASTs (or source strings) denote the same rational function"""
    if isinstance(a, str):
        a = ast.parse(a, mode='eval').body
    if isinstance(b, str):
        b = ast.parse(b, mode='eval').body
    try:
        an, ad = rational(a, symbol)
        bn, bd = rational(b, symbol)
    except NotAlgebraic:
        return False
    return _pmul(an, bd) == _pmul(bn, ad)


def symbols_of(expr, symbol=None) -> set:
    try:
        num, den = rational(expr, symbol)
    except NotAlgebraic:
        return set()
    result = set()
    for poly in (num, den):
        for mono in poly:
            for sym, _power in mono:
                result.add(sym)
    return result


# ------------------------------------------------------------- boolean terms
_CMP_NEG = {'<': '>=', '>=': '<', '>': '<=', '<=': '>', '==': '!=', '!=': '==',
            'is': 'is not', 'is not': 'is', 'in': 'not in', 'not in': 'in'}
_CMP_FLIP = {'<': '>', '>': '<', '<=': '>=', '>=': '<=', '==': '==', '!=': '!='}
_OPS = {ast.Lt: '<', ast.LtE: '<=', ast.Gt: '>', ast.GtE: '>=', ast.Eq: '==',
        ast.NotEq: '!=', ast.Is: 'is', ast.IsNot: 'is not', ast.In: 'in',
        ast.NotIn: 'not in'}


def bool_term(expr, symbol=None, negate=False):
    """
    negation normal form as nested tuples:
      ('const', bool) ('atom', text, positive) ('cmp', op, left, right)
      ('and', frozenset) ('or', frozenset) ('all'|'any', var, domain, body)
    """
    symbol = symbol or (lambda node: ast.unparse(node))
    if isinstance(expr, ast.Constant) and isinstance(expr.value, bool):
        return ('const', expr.value != negate)
    if isinstance(expr, ast.UnaryOp) and isinstance(expr.op, ast.Not):
        return bool_term(expr.operand, symbol, not negate)
    if isinstance(expr, ast.BoolOp):
        is_and = isinstance(expr.op, ast.And) != negate
        parts = [bool_term(value, symbol, negate) for value in expr.values]
        return _junction('and' if is_and else 'or', parts)
    if isinstance(expr, ast.IfExp):
        # a if c else b  ==  (c and a) or (not c and b)
        rewritten = ast.BoolOp(op=ast.Or(), values=[
            ast.BoolOp(op=ast.And(), values=[expr.test, expr.body]),
            ast.BoolOp(op=ast.And(), values=[ast.UnaryOp(op=ast.Not(), operand=expr.test),
                                             expr.orelse])])
        return bool_term(rewritten, symbol, negate)
    if isinstance(expr, ast.Compare):
        if len(expr.ops) != 1:
            parts = []
            left = expr.left
            for op, right in zip(expr.ops, expr.comparators):
                parts.append(ast.Compare(left=left, ops=[op], comparators=[right]))
                left = right
            return bool_term(ast.BoolOp(op=ast.And(), values=parts), symbol, negate)
        op = _OPS[type(expr.ops[0])]
        if negate:
            op = _CMP_NEG[op]
        left, right = symbol(expr.left), symbol(expr.comparators[0])
        # canonical orientation
        if op in ('>', '>='):
            op, left, right = _CMP_FLIP[op], right, left
        elif op in ('==', '!=', 'is', 'is not') and right < left:
            left, right = right, left
        return ('cmp', op, left, right)
    if isinstance(expr, ast.Call) and isinstance(expr.func, ast.Name) and \
            expr.func.id in ('all', 'any') and len(expr.args) == 1 and \
            isinstance(expr.args[0], (ast.GeneratorExp, ast.ListComp)) and \
            len(expr.args[0].generators) == 1 and not expr.args[0].generators[0].ifs:
        comp = expr.args[0]
        gen = comp.generators[0]
        kind = expr.func.id
        if negate:
            kind = 'any' if kind == 'all' else 'all'
        var = ast.unparse(gen.target)

        def inner_symbol(node, _var=var):
            return symbol(node)
        body = bool_term(comp.elt, inner_symbol, negate)
        # bound variable renamed by nesting height (names of loop variables do not matter)
        body = _rename(body, var, '_b%d' % _height(body))
        return (kind, symbol(gen.iter), body)
    if isinstance(expr, ast.Call) and isinstance(expr.func, ast.Name) and \
            expr.func.id in ('all', 'any') and len(expr.args) == 1:
        kind = expr.func.id
        if negate:
            kind = 'any' if kind == 'all' else 'all'
        return (kind, symbol(expr.args[0]), ('atom', '_b0', not negate))
    return ('atom', symbol(expr), not negate)


def _height(term) -> int:
    if term[0] in ('and', 'or'):
        return max([_height(t) for t in term[1]] or [0])
    if term[0] in ('all', 'any'):
        return _height(term[2]) + 1
    return 0


def _rename(term, old: str, new: str):
    if term[0] == 'atom':
        return ('atom', _subst(term[1], old, new), term[2])
    if term[0] == 'cmp':
        left, right = _subst(term[2], old, new), _subst(term[3], old, new)
        op = term[1]
        if op in ('==', '!=', 'is', 'is not') and right < left:
            left, right = right, left
        return ('cmp', op, left, right)
    if term[0] in ('and', 'or'):
        return (term[0], frozenset(_rename(t, old, new) for t in term[1]))
    if term[0] in ('all', 'any'):
        return (term[0], _subst(term[1], old, new), _rename(term[2], old, new))
    return term


def _subst(text: str, old: str, new: str) -> str:
    try:
        tree = ast.parse(text, mode='eval')
    except SyntaxError:
        return text

    class Sub(ast.NodeTransformer):
        def visit_Name(self, node):
            if node.id == old:
                return ast.Name(id='_bound_', ctx=node.ctx)
            return node
    return ast.unparse(Sub().visit(tree)).replace('_bound_', new)


def _junction(kind: str, parts):
    flat = set()
    for part in parts:
        if part[0] == kind:
            flat |= part[1]
        elif part[0] == 'const':
            if part[1] == (kind == 'or'):
                return ('const', kind == 'or')
            continue
        else:
            flat.add(part)
    if not flat:
        return ('const', kind == 'and')
    if len(flat) == 1:
        return next(iter(flat))
    return (kind, frozenset(flat))


def equal_bool(a, b, symbol=None) -> bool:
    if isinstance(a, str):
        a = ast.parse(a, mode='eval').body
    if isinstance(b, str):
        b = ast.parse(b, mode='eval').body
    return bool_term(a, symbol) == bool_term(b, symbol)


def complement_bool(a, b, symbol=None) -> bool:
    """whether ``a`` is the negation of ``b``"""
    if isinstance(a, str):
        a = ast.parse(a, mode='eval').body
    if isinstance(b, str):
        b = ast.parse(b, mode='eval').body
    return bool_term(a, symbol) == bool_term(b, symbol, negate=True)


# ------------------------------------------------ semantic boolean equivalence
def _canon_quant(term):
    """('any', d, body) == not ('all', d, not body): canonical (atom, positive) pair"""
    if term[0] == 'any':
        return ('all', term[1], _negate(term[2])), False
    return term, True


def _negate(term):
    kind = term[0]
    if kind == 'const':
        return ('const', not term[1])
    if kind == 'atom':
        return ('atom', term[1], not term[2])
    if kind == 'cmp':
        return ('cmp', _CMP_NEG[term[1]], term[2], term[3])
    if kind == 'and':
        return ('or', frozenset(_negate(t) for t in term[1]))
    if kind == 'or':
        return ('and', frozenset(_negate(t) for t in term[1]))
    if kind == 'all':
        return ('any', term[1], _negate(term[2]))
    if kind == 'any':
        return ('all', term[1], _negate(term[2]))
    raise ValueError(term)


def _atoms(term, out):
    kind = term[0]
    if kind == 'const':
        return
    if kind in ('and', 'or'):
        for sub in term[1]:
            _atoms(sub, out)
        return
    if kind == 'atom':
        out.add(('atom', term[1]))
    elif kind == 'cmp':
        op, left, right = term[1], term[2], term[3]
        # canonical positive operator
        if op in ('>=', '!=', 'is not', 'not in', '>'):
            op = _CMP_NEG[op]
        out.add(('cmp', op, left, right))
    else:
        canon, _positive = _canon_quant(term)
        out.add(canon)


def _evaluate(term, env) -> bool:
    kind = term[0]
    if kind == 'const':
        return term[1]
    if kind == 'and':
        return all(_evaluate(t, env) for t in term[1])
    if kind == 'or':
        return any(_evaluate(t, env) for t in term[1])
    if kind == 'atom':
        return env[('atom', term[1])] == term[2]
    if kind == 'cmp':
        op, left, right = term[1], term[2], term[3]
        positive = True
        if op in ('>=', '!=', 'is not', 'not in', '>'):
            op, positive = _CMP_NEG[op], False
        return env[('cmp', op, left, right)] == positive
    canon, positive = _canon_quant(term)
    return env[canon] == positive


def equivalent_terms(a, b) -> bool:
    """truth-table equivalence of two normal-form terms over their (opaque) atoms"""
    atoms = set()
    _atoms(a, atoms)
    _atoms(b, atoms)
    atoms = sorted(atoms, key=repr)
    if len(atoms) > 16:
        return a == b
    for bits in itertools.product((False, True), repeat=len(atoms)):
        env = dict(zip(atoms, bits))
        if _evaluate(a, env) != _evaluate(b, env):
            return False
    return True


def function_predicate(fn_node, symbol=None, aliases=None):
    """
    boolean term computed by a function made of local assignments, if/elif/else chains and
    return statements (the value of the function as one formula)
    """
    aliases = dict(aliases or {})

    def expand(expr):
        import copy

        class Sub(ast.NodeTransformer):
            def visit_Name(self, node):
                if isinstance(node.ctx, ast.Load) and node.id in aliases:
                    return copy.deepcopy(aliases[node.id])
                return node
        return Sub().visit(copy.deepcopy(expr))

    def block(stmts):
        """term of a statement list, or None if it falls through without returning"""
        for index, stmt in enumerate(stmts):
            if isinstance(stmt, ast.Expr) and isinstance(stmt.value, ast.Constant):
                continue
            if isinstance(stmt, ast.Assign) and len(stmt.targets) == 1 and \
                    isinstance(stmt.targets[0], ast.Name):
                aliases[stmt.targets[0].id] = expand(stmt.value)
                continue
            if isinstance(stmt, ast.Assign) and len(stmt.targets) == 1 and \
                    isinstance(stmt.targets[0], ast.Tuple) and all(
                    isinstance(e, ast.Name) for e in stmt.targets[0].elts):
                # a, b = pair: each name is the matching item
                source = expand(stmt.value)
                parts = source.elts if isinstance(source, ast.Tuple) and \
                    len(source.elts) == len(stmt.targets[0].elts) else None
                for position, elt in enumerate(stmt.targets[0].elts):
                    aliases[elt.id] = parts[position] if parts is not None else \
                        ast.Subscript(value=source, slice=ast.Constant(value=position),
                                      ctx=ast.Load())
                continue
            if isinstance(stmt, ast.Return):
                if stmt.value is None:
                    return ('const', False)
                return bool_term(expand(stmt.value), symbol)
            if isinstance(stmt, ast.For):
                rewritten = _loop_as_test(stmt)
                if rewritten is None:
                    return None
                return block([rewritten] + stmts[index + 1:])
            if isinstance(stmt, ast.If):
                cond = bool_term(expand(stmt.test), symbol)
                rest = stmts[index + 1:]
                then = block(stmt.body + rest) if not _always_returns(stmt.body) \
                    else block(stmt.body)
                other = block(stmt.orelse + rest) if not _always_returns(stmt.orelse) \
                    else block(stmt.orelse)
                if then is None or other is None:
                    return None
                return _junction('or', [_junction('and', [cond, then]),
                                        _junction('and', [_negate(cond), other])])
            return None
        return None

    return block(list(fn_node.body))


def _quantified(kind, test, loop):
    call = ast.Call(
        func=ast.Name(id=kind, ctx=ast.Load()),
        args=[ast.GeneratorExp(elt=test, generators=[
            ast.comprehension(target=loop.target, iter=loop.iter, ifs=[], is_async=0)])],
        keywords=[])
    return ast.fix_missing_locations(ast.copy_location(call, loop))


def _loop_as_test(loop):
    """
    a search loop as the ``if`` statement it abbreviates, or None:
      for v in S: if c(v): return K              ->  if any(c(v) for v in S): return K
      for v in S: if c(v): break  else: BODY     ->  if not any(c(v) for v in S): BODY
    (the body may itself be such a loop: normalised inside out)
    """
    if len(loop.body) != 1:
        return None
    inner = loop.body[0]
    if isinstance(inner, ast.For):
        inner = _loop_as_test(inner)
        if inner is None:
            return None
    if not isinstance(inner, ast.If) or inner.orelse or len(inner.body) != 1:
        return None
    action = inner.body[0]
    if isinstance(action, ast.Return) and not loop.orelse:
        found = ast.If(test=_quantified('any', inner.test, loop), body=[action], orelse=[])
        return ast.fix_missing_locations(ast.copy_location(found, loop))
    if isinstance(action, ast.Break) and loop.orelse:
        missing = ast.UnaryOp(op=ast.Not(), operand=_quantified('any', inner.test, loop))
        found = ast.If(test=missing, body=list(loop.orelse), orelse=[])
        return ast.fix_missing_locations(ast.copy_location(found, loop))
    return None


def _always_returns(stmts) -> bool:
    for stmt in stmts:
        if isinstance(stmt, (ast.Return, ast.Raise)):
            return True
        if isinstance(stmt, ast.If) and stmt.orelse and _always_returns(stmt.body) and \
                _always_returns(stmt.orelse):
            return True
    return False
