"""
C05 -- a scope fails as itself or as Concurrent: promptly, with exactly right content.

Structural clauses decided (DESIGN.md section 5/C05):
  H  the task wrapper classifies the end of its payload per exception class: CancelTask and
     GeneratorExit are not failures; everything else reports failed=True with the very
     exception object
  X  ``_child_failures`` is appended only by ``__child_finished__`` under ``failed`` with
     ``child.__exception__`` and read only by ``_collect_exceptions``
  C  content: the arguments of ``Concurrent(*...)`` are exactly the recorded failures in
     recording order that are neither suppressed nor promoted; a promoted one is returned
     alone, at once
  E  either-or: what ``__aexit__`` lets escape, per class of the body's exception --
     the body's own exception, or (only when there is none / it is the scope's own signal)
     the concurrent failures; privileged ones win; foreign exceptions are never swallowed
  Q  promptness: a failing child must-calls ``__cancel__`` which schedules the scope's own
     cancel signal undated on the owning activity while the scope is interruptable
  T  SUPPRESS/PROMOTE tables contain the documented types and are disjoint
"""
import ast

from ..engine import Analysis, is_call_to, is_suspension, short, where_fn, tested, key_truth
from ..model import AnalysisError
from ..paths import SIGNALS, GENEXIT, CANCEL_TASK, CANCEL_SCOPE, CORE_INTERRUPT
from ..types import Callee
from .. import rules
from . import _scope

PROP = 'C05'
SCOPE = _scope.SCOPE
CONCURRENT = 'usim._primitives.concurrent_exception.Concurrent'


def check_own_exception_wins(check, an: Analysis, rule: str, foreign):
    """an exception of the body that is not the scope's own signal leaves the scope as
    itself: never swallowed, never replaced by the concurrent failures of children"""
    for recv in _scope.scope_receivers(an):
        aexit = an.callee(recv, '__aexit__')
        label = recv.rsplit('.', 1)[-1]
        for cls in foreign:
            summ = an.it.summary(aexit, 'exc:' + cls)
            bad = None
            for path in summ.paths:
                if path.kind == 'raise' and path.outcome[1].cls == CONCURRENT and \
                        not _raise_is_privileged(path):
                    bad = path
            check.instance(rule, '__aexit__[%s]{%s}:own-exception-wins' % (
                label, cls.rsplit('.', 1)[-1].replace('ext:', '')),
                summ.ret_truth == 'never' and bad is None, where_fn(aexit.fn),
                'a body exception of this class is never swallowed (%s) and never replaced '
                'by the concurrent failures' % summ.ret_truth,
                path=rules.path_lines(bad) if bad else None, analysed=len(summ.paths))


def run(check, an: Analysis):
    check.rule('H', 'wrapper: per exception class of the payload await, failed=True iff it '
                    'is neither CancelTask nor GeneratorExit; the stored error is the caught '
                    'object')
    check.rule('X', '_child_failures: appended only in __child_finished__ under `failed` '
                    'with child.__exception__; read only by _collect_exceptions')
    check.rule('C', '_collect_exceptions: in-order filter of the recorded failures; promoted '
                    'failure returned alone; Concurrent(*filtered)')
    check.rule('E', 'either-or per class of the pending exception (truth-inlined __aexit__)')
    check.rule('Q', 'failed child -> __cancel__ -> undated schedule of _cancel_self on the '
                    'owning activity, guarded by _interruptable')
    check.rule('T', 'SUPPRESS_CONCURRENT / PROMOTE_CONCURRENT contents, disjoint')
    an.cls(SCOPE)
    wrapper = _scope.wrapper_callee(an)
    wpaths = an.paths(wrapper)

    # ---- H ------------------------------------------------------------------
    by_class = {}
    for path in wpaths:
        for index, event in enumerate(path.events):
            if event.kind == 'susp' and event.depth == 0 and event.get('user') and \
                    event['exit'] != 'normal':
                calls = [e for e in path.events[index:] if is_call_to(e, '__child_finished__')]
                flags = tuple(_scope.child_finished_flag(e, path) for e in calls)
                stores = [e for e in path.events[index:] if e.kind == 'store'
                          and e['path'] == 'self._result']
                handler = [e for e in path.events[index:] if e.kind == 'handler'][:1]
                by_class.setdefault(event['exit'], []).append((flags, stores, handler, path,
                                                               index))
    for cls, entries in sorted(by_class.items()):
        not_failure = cls in (CANCEL_TASK, GENEXIT)
        want = (False,) if not_failure else (True,)
        ok = all(flags == want for flags, _s, _h, _p, _i in entries)
        stored_ok = True
        if not not_failure:
            for flags, stores, handler, path, index in entries:
                name = handler[0].node.name if handler and handler[0].node.name else None
                value = stores[0]['value'] if stores else None
                if value is not None:
                    # (a pair, or a record made of the same two items)
                    value = rules.value_expr(path, rules.event_index(path, stores[0]), value,
                                             keep=(name,) if name else ())
                stored_ok &= (name is not None and isinstance(value, ast.Tuple)
                              and len(value.elts) == 2
                              and isinstance(value.elts[1], ast.Name)
                              and value.elts[1].id == name
                              and isinstance(value.elts[0], ast.Constant)
                              and value.elts[0].value is None)
        bad = next(((p, i) for flags, _s, _h, p, i in entries if flags != want), None)
        check.instance('H', 'wrapper:payload-raises-%s' % cls.rsplit('.', 1)[-1].replace(
            'ext:', ''), ok and stored_ok, where_fn(wrapper.fn),
            'reported failed=%s%s' % (want[0], '' if not_failure else
                                      ' and the caught object is stored as the error'),
            path=rules.path_lines(*bad) if bad else None, analysed=len(entries))
    check.floor('H', 5)
    # ---- X ------------------------------------------------------------------
    uses = rules.attribute_method_calls(an, '_child_failures', SCOPE)
    for fn, node, kind, detail in uses:
        where = '%s:%d' % (fn.module.relpath, node.lineno)
        if kind == 'call' and detail == 'append':
            # in __child_finished__ itself, or in a private helper of it (rule paths run
            # private helpers in place: the guard is looked for on the paths of the entry)
            private = fn.name.startswith('_') and not fn.name.startswith('__')
            ok = (fn.name == '__child_finished__' or private) and len(node.args) == 1 and \
                ast.unparse(node.args[0]).endswith('.__exception__')
            guarded, reached = True, 0
            callee = an.callee(SCOPE, '__child_finished__')
            for path in an.paths(callee):
                for index, event in enumerate(path.events):
                    if event.node is node and event.kind == 'call':
                        reached += 1
                        guarded &= any(tested(e, ('truth', 'failed'), True)
                                       for e in path.events[:index])
            guarded = guarded and reached > 0
            check.instance('X', '%s:append' % short(fn.qn), ok and guarded, where,
                           'failures are recorded by __child_finished__ under `failed` as '
                           'child.__exception__')
        elif kind == 'call':
            check.instance('X', '%s:%s' % (short(fn.qn), detail), False, where,
                           'unexpected operation on the failure list: %s'
                           % ast.unparse(node)[:60])
        elif kind == 'iter':
            check.instance('X', '%s:read' % short(fn.qn), fn.name == '_collect_exceptions',
                           where, 'the failure list is read by _collect_exceptions only',
                           nontrivial=False)
    for fn, stmt, target, recvs in rules.attribute_stores(an, '_child_failures', SCOPE):
        ok = fn.name == '__init__' and isinstance(stmt.value, ast.List) and \
            not stmt.value.elts
        check.instance('X', '%s:_child_failures=' % short(fn.qn), ok,
                       '%s:%d' % (fn.module.relpath, stmt.lineno),
                       'the failure list starts empty and is never replaced')
    check.floor('X', 3)
    _scope.check_failure_is_kept_as_raised(check, an, 'X')
    _scope.check_scope_told_before_done(check, an, 'X')
    # ... and awaiting a task suspends also when the task is done already: the abort queued
    # by a failure is delivered before the awaiter can look at the child's exception
    from . import c20 as _c20
    t_await = an.callee(_scope.TASK, '__await__')
    t_summ = an.it.summary(t_await)
    t_bad = _c20.failing_normal_path(t_summ.paths)
    check.instance('X', 'Task.__await__:always-suspends', t_bad is None,
                   where_fn(t_await.fn), 'every normal completion of `await task` passed a '
                   'suspension that must suspend', path=t_bad.describe() if t_bad else None,
                   analysed=len(t_summ.paths))
    exc_prop = an.method(_scope.TASK, '__exception__')
    returned = {rules.value_text(p, len(p.events) - 1, p.outcome[1])
                for p in an.paths(Callee(exc_prop, _scope.TASK))
                if p.kind == 'return' and p.outcome[1] is not None and p.events}
    returned |= {ast.unparse(n.value) for n in ast.walk(exc_prop.node)
                 if isinstance(n, ast.Return) and n.value is not None} \
        if not returned else set()
    check.instance('X', 'Task.__exception__', returned == {'self._result[1]'},
                   where_fn(exc_prop),
                   '__exception__ is the error component of the stored result')
    # ---- C ------------------------------------------------------------------
    collect = an.callee(SCOPE, '_collect_exceptions')
    cfn = collect.fn
    _check_collect(check, an, collect)
    # ---- E ------------------------------------------------------------------
    # per receiver and per class of pending exception: what can __aexit__ do?
    own = {SCOPE: [CANCEL_SCOPE], _scope.INTERRUPT_SCOPE: [CANCEL_SCOPE],
           _scope.ENV_SCOPE: [CANCEL_SCOPE, 'usim.py.exceptions.StopSimulation']}
    foreign = ['ext:Exception', 'ext:KeyError', CORE_INTERRUPT, CANCEL_TASK,
               'usim._basics.streams.StreamClosed', CONCURRENT]
    check_own_exception_wins(check, an, 'E', foreign)
    for recv in _scope.scope_receivers(an):
        aexit = an.callee(recv, '__aexit__')
        label = recv.rsplit('.', 1)[-1]
        for cls in own.get(recv, [CANCEL_SCOPE]):
            summ = an.it.summary(aexit, 'exc:' + cls)
            can_swallow = summ.ret_truth in ('may', 'always')
            can_concurrent = any(p.kind == 'raise' and p.outcome[1].cls == CONCURRENT
                                 for p in summ.paths)
            check.instance('E', '__aexit__[%s]{%s}:own-signal' % (
                label, cls.rsplit('.', 1)[-1]), can_swallow and can_concurrent,
                where_fn(aexit.fn),
                'the scope\'s own signal is absorbed (%s) or replaced by the concurrent '
                'failures (%s)' % (can_swallow, can_concurrent), analysed=len(summ.paths))
        summ = an.it.summary(aexit, 'none')
        check.instance('E', '__aexit__[%s]{none}:may-raise-concurrent' % label,
                       CONCURRENT in summ.may_raise, where_fn(aexit.fn),
                       'a normally ending body can still fail with the children\'s '
                       'failures')
    _scope.check_suppression(check, an, 'E')
    _scope.check_foreign_signal_leaves_exit(check, an, 'E')
    prop = an.callee(SCOPE, '_propagate_exceptions')
    for path in an.paths(prop):
        for index, event in enumerate(path.events):
            if event.kind != 'raise' or event.depth != 0:
                continue
            # what is raised on this path, with the components of what
            # _collect_exceptions returned in place: `None or X` is X
            raised = rules.value_expr(path, index, event.node.exc)
            while isinstance(raised, ast.BoolOp) and isinstance(raised.op, ast.Or):
                rest = [v for v in raised.values
                        if not (isinstance(v, ast.Constant) and v.value is None)]
                raised = rest[0] if rest else ast.Constant(value=None)
            text = ast.unparse(raised)
            collected_here = any(e.kind == 'enter' and e.data.get('callee') is not None
                                 and e.data['callee'].fn is cfn
                                 for e in path.events[:index])
            names = (text,) if collected_here else None
            uses_concurrent = names is not None and 'Concurrent(' in text
            if uses_concurrent:
                promoted = any(tested(e, ('in', 'exc_type', 'self.PROMOTE_CONCURRENT'), True)
                               for e in path.events[:index])
                no_own = any(
                    (e.kind == 'test' and e.get('inlined') and '_is_suppressed' in
                     ast.unparse(e.node) and e['value'] is True)
                    or tested(e, ('isnone', 'exc_type'), True)
                    for e in path.events[:index])
                check.instance('E', '_propagate:concurrent-only-without-own', no_own and
                               not promoted, event.where,
                               'the concurrent failures are raised only when the body has '
                               'no exception of its own (or only the scope\'s signal)',
                               path=rules.path_lines(path, index))
            else:
                check.instance('E', '_propagate:privileged-else', names is not None and
                               not (isinstance(raised, ast.Constant)), event.where,
                               'otherwise only a privileged child failure replaces the '
                               'body\'s exception', path=rules.path_lines(path, index))
    check.floor('E', 20)
    # ---- Q ------------------------------------------------------------------
    finished = an.callee(SCOPE, '__child_finished__')
    for path in an.paths(finished):
        failed = [e for e in path.events if e.kind == 'test'
                  and e.get('key') == ('truth', 'failed')]
        if failed and key_truth(failed[0]) and path.normal:
            called = any(is_call_to(e, '__cancel__') for e in path.events)
            check.instance('Q', '__child_finished__:failed->__cancel__', called,
                           where_fn(finished.fn), 'a failing child cancels its scope',
                           path=rules.path_lines(path))
    _scope.check_child_failure_recorded(check, an, 'Q')
    # a block ends once: leaving it withdraws the abort signal that may still be queued
    _scope.check_disable_interrupts(check, an, 'Q')
    # the first failure aborts *all* remaining children, on every way out of the block
    from . import c04
    c04.check_copy_iteration(check, an, 'Q')
    c04.check_close_on_every_exit(check, an, 'Q', [SCOPE])
    cancel = an.callee(SCOPE, '__cancel__')
    n_sched = 0
    for path in an.paths(cancel):
        for index, event in enumerate(path.events):
            if is_call_to(event, 'schedule'):
                n_sched += 1
                call = event.node
                args = [rules.value_text(path, index, a) for a in call.args]
                kws = {kw.arg: rules.value_text(path, index, kw.value)
                       for kw in call.keywords}
                signal = kws.get('signal', args[1] if len(args) > 1 else None)
                ok = args[:1] == ['self._activity'] and signal == 'self._cancel_self' and \
                    'delay' not in kws and 'at' not in kws and \
                    rules.fact_value(event, ('truth', 'self._interruptable')) is True
                check.instance('Q', '__cancel__:undated-own-signal', ok, event.where,
                               'schedule(self._activity, self._cancel_self) without date, '
                               'only while interruptable', path=rules.path_lines(path, index))
    check.instance('Q', '__cancel__:schedules', n_sched > 0, where_fn(cancel.fn),
                   '__cancel__ delivers the scope\'s cancel signal')
    # ---- T ------------------------------------------------------------------
    cls = an.cls(SCOPE)
    tables = {}
    for name in ('SUPPRESS_CONCURRENT', 'PROMOTE_CONCURRENT'):
        value = cls.attrs.get(name)
        if not isinstance(value, ast.Tuple):
            raise AnalysisError('Scope.%s is not a tuple literal' % name)
        tables[name] = {ast.unparse(e) for e in value.elts}
    check.instance('T', 'SUPPRESS_CONCURRENT', {'TaskCancelled', 'TaskClosed',
                                                'GeneratorExit'} <= tables[
        'SUPPRESS_CONCURRENT'], where_fn(an.method(SCOPE, '__init__')),
        'contains TaskCancelled, TaskClosed, GeneratorExit: %s' % sorted(
            tables['SUPPRESS_CONCURRENT']))
    check.instance('T', 'PROMOTE_CONCURRENT', {'SystemExit', 'KeyboardInterrupt',
                                               'AssertionError'} <= tables[
        'PROMOTE_CONCURRENT'], where_fn(an.method(SCOPE, '__init__')),
        'contains SystemExit, KeyboardInterrupt, AssertionError: %s' % sorted(
            tables['PROMOTE_CONCURRENT']))
    check.instance('T', 'disjoint', not (tables['SUPPRESS_CONCURRENT'] &
                                         tables['PROMOTE_CONCURRENT']),
                   where_fn(an.method(SCOPE, '__init__')), 'no type is in both tables')
    from . import _scope as _sc
    _sc.check_scope_core(check, an, skip=('foreign', 'copies'))
    from . import _scope as _kernel
    _kernel.check_kernel_core(check, an)
    check.stats.update(an.stats())


def _check_collect(check, an: Analysis, collect: Callee):
    """
    _collect_exceptions as a function of the failure list, decided per path:
    the first privileged failure alone; else the unsuppressed ones, in recording order,
    in one Concurrent; else nothing
    """
    cfn = collect.fn
    paths = an.paths(collect)
    FAILURES = 'self._child_failures'

    def is_a(atoms, var, table):
        return atoms.get(('truth', 'isinstance(%s, self.%s)' % (var, table)))
    order_ok, n_loops = True, 0
    collect_ok, n_collected, bad_collect = True, 0, None
    promoted_ok, n_promoted = True, 0
    concurrent_ok, n_concurrent, bad_conc = True, 0, None
    nothing_ok, n_nothing = True, 0
    for path in paths:
        its = rules.iterations(path)
        for it in its:
            n_loops += 1
            if 'child_failures' in it.source or it.source == FAILURES:
                order_ok &= it.source == FAILURES
        over = [it for it in its if it.source == FAILURES]
        # (1) what is collected, and under which tests
        collected = {}   # list name -> [(iteration, position)]
        for it in over:
            for pos, event in it.events():
                name = None
                if event.kind == 'call' and isinstance(event.node, ast.Call) and \
                        isinstance(event.node.func, ast.Attribute) and \
                        event.node.func.attr == 'append' and event.depth == 0 and \
                        isinstance(event.node.func.value, ast.Name) and \
                        [ast.unparse(a) for a in event.node.args] == [it.var]:
                    name = event.node.func.value.id
                elif event.kind == 'element' and ast.unparse(event.node) == it.var:
                    stored = [e for e in path.events[it.stop:] if e.kind == 'store'
                              and e.get('value') is event.data.get('comprehension')]
                    name = stored[0]['path'] if stored else '?'
                if name is None:
                    continue
                n_collected += 1
                atoms = it.atoms(upto=pos)
                if is_a(atoms, it.var, 'SUPPRESS_CONCURRENT') is not False:
                    collect_ok, bad_collect = False, bad_collect or (path, pos)
                collected.setdefault(name, []).append((it, pos))
        pair = path.outcome[1] if path.kind == 'return' else None
        if isinstance(pair, ast.Call):
            # a record (typing.NamedTuple) of the two results is the pair of its fields
            pair = rules._record_display(pair, cfn) or pair
        if not isinstance(pair, ast.Tuple) or len(pair.elts) != 2:
            if path.kind == 'return':
                concurrent_ok = False
            continue
        end = len(path.events)
        first = rules.value_expr(path, end, pair.elts[0])
        second = rules.value_expr(path, end, pair.elts[1], keep=tuple(collected))
        none_first = isinstance(first, ast.Constant) and first.value is None
        none_second = isinstance(second, ast.Constant) and second.value is None
        if not none_first:
            # (2) a privileged failure: the loop variable of the iteration that found it
            n_promoted += 1
            last = over[-1] if over else None
            good = none_second and last is not None and ast.unparse(first) == last.var and \
                is_a(last.atoms(), last.var, 'PROMOTE_CONCURRENT') is True and all(
                    is_a(it.atoms(), it.var, 'PROMOTE_CONCURRENT') is False
                    for it in over if it.node is last.node and it is not last)
            promoted_ok &= bool(good)
            continue
        # no privileged failure was found: some complete pass tested every failure
        passes = {}
        for it in over:
            passes.setdefault(id(it.node), []).append(it)
        screened = any(
            rules.loop_completed(path, group[0].node) and all(
                is_a(it.atoms(), it.var, 'PROMOTE_CONCURRENT') is False for it in group)
            for group in passes.values()) or (not over and any(
                e.kind == 'iter-end' and rules.value_text(
                    path, rules.event_index(path, e), e.node.iter) == FAILURES
                for e in path.events))
        if none_second:
            # (4) nothing to report: only when nothing was collected
            n_nothing += 1
            nothing_ok &= screened and not any(collected.values())
            continue
        # (3) one Concurrent of exactly the collected failures
        n_concurrent += 1
        good = screened and isinstance(second, ast.Call) and \
            ast.unparse(second.func) == 'Concurrent' and len(second.args) == 1 and \
            isinstance(second.args[0], ast.Starred) and not second.keywords and \
            isinstance(second.args[0].value, ast.Name) and \
            bool(collected.get(second.args[0].value.id)) and len(collected) == 1
        if good:
            # every collected failure was screened before it was collected, or by a
            # complete earlier pass
            for it, pos in collected[second.args[0].value.id]:
                own = is_a(it.atoms(upto=pos), it.var, 'PROMOTE_CONCURRENT')
                earlier = any(rules.loop_completed(path, g[0].node) and g[0].node is not
                              it.node and g[-1].stop <= it.start and all(
                                  is_a(x.atoms(), x.var, 'PROMOTE_CONCURRENT') is False
                                  for x in g) for g in passes.values())
                good &= own is False or earlier
        if not good:
            concurrent_ok, bad_conc = False, bad_conc or (path, end - 1)
    # (5) nothing else is left out: in a loop that collects, a failure that is passed over
    # was found suppressed (or privileged, which ends the search) -- no further filter
    # (equality with one already collected, a limit, ...) drops a failure
    def _collects(it, path):
        return any(
            (event.kind == 'call' and isinstance(event.node, ast.Call) and isinstance(
                event.node.func, ast.Attribute) and event.node.func.attr == 'append'
             and [ast.unparse(a) for a in event.node.args] == [it.var]) or
            (event.kind == 'element' and ast.unparse(event.node) == it.var)
            for _pos, event in it.events())
    collecting = set()
    for path in paths:
        for it in rules.iterations(path):
            if it.source == FAILURES and _collects(it, path):
                collecting.add(id(it.node))
    n_skipped, bad_skip = 0, None
    for path in paths:
        if path.kind != 'return':
            continue
        for it in rules.iterations(path):
            if it.source != FAILURES or id(it.node) not in collecting or _collects(it, path):
                continue
            n_skipped += 1
            atoms = it.atoms()
            if is_a(atoms, it.var, 'SUPPRESS_CONCURRENT') is not True and \
                    is_a(atoms, it.var, 'PROMOTE_CONCURRENT') is not True:
                bad_skip = bad_skip or (path, it.start)
    check.instance('C', 'passed-over-only-if-suppressed', bad_skip is None and n_skipped > 0,
                   where_fn(cfn), 'a recorded failure that is not collected was found '
                   'suppressed (or privileged): nothing else filters the failures '
                   '(%d passed-over iterations on paths)' % n_skipped,
                   path=rules.path_lines(*bad_skip) if bad_skip else None,
                   analysed=n_skipped)
    check.instance('C', 'iterates-failures-in-order', order_ok and n_loops > 0,
                   where_fn(cfn), 'every loop runs directly over `self._child_failures` '
                   '(recording order; %d iterations on paths)' % n_loops)
    check.instance('C', 'append-only-unsuppressed-unpromoted', collect_ok and n_collected > 0,
                   where_fn(cfn), 'a failure is collected only after `isinstance(exc, '
                   'SUPPRESS_CONCURRENT)` was false (%d collections on paths)' % n_collected,
                   path=rules.path_lines(*bad_collect) if bad_collect else None,
                   analysed=n_collected)
    check.instance('C', 'Concurrent(*collected)', concurrent_ok and n_concurrent > 0,
                   where_fn(cfn), '(None, Concurrent(*collected)) with every collected '
                   'failure screened for privilege first (%d paths)' % n_concurrent,
                   path=rules.path_lines(*bad_conc) if bad_conc else None,
                   analysed=n_concurrent)
    check.instance('C', 'promoted-returned-alone', promoted_ok and n_promoted > 0,
                   where_fn(cfn), 'the first privileged failure is returned at once, '
                   'unwrapped (%d paths)' % n_promoted, analysed=n_promoted)
    check.instance('C', 'nothing-when-all-suppressed', nothing_ok and n_nothing > 0,
                   where_fn(cfn), '(None, None) exactly when nothing was collected '
                   '(%d paths)' % n_nothing, analysed=n_nothing)
    check.instance('C', 'collects', n_collected > 0, where_fn(cfn), 'failures are collected')


def _isinstance_fact(facts, arg, fn, table):
    """value of the fact `isinstance(arg, <alias of self.TABLE>)`"""
    for key, value in facts.items():
        if key[0] != 'truth' or not key[1].startswith('isinstance(%s, ' % arg):
            continue
        second = key[1][len('isinstance(%s, ' % arg):-1]
        expanded = rules.expand_alias(ast.parse(second, mode='eval').body, fn)
        if expanded.endswith(table):
            return value
    return None


def _append_target(fn):
    for node in ast.walk(fn.node):
        if isinstance(node, ast.Call) and isinstance(node.func, ast.Attribute) and \
                node.func.attr == 'append' and isinstance(node.func.value, ast.Name):
            return node.func.value.id
    return '?'


def _unpack_names(fn):
    """names of ``privileged, concurrent = self._collect_exceptions()``"""
    for node in ast.walk(fn.node):
        if isinstance(node, ast.Assign) and isinstance(node.value, ast.Call) and \
                ast.unparse(node.value.func) == 'self._collect_exceptions' and \
                isinstance(node.targets[0], ast.Tuple) and len(node.targets[0].elts) == 2:
            names = [ast.unparse(e) for e in node.targets[0].elts]
            if names[1] != '_':
                return names
    return None


def _raise_is_privileged(path) -> bool:
    """the raise that ends the path names only the privileged component"""
    raises = [e for e in path.events if e.kind == 'raise']
    if not raises:
        return False
    text = ast.unparse(raises[-1].node.exc) if raises[-1].node.exc is not None else ''
    return 'concurrent' not in text
