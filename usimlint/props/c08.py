"""
C08 -- awaiting a condition returns only when it is true, and is never missed.

Structural clauses decided (DESIGN.md section 5/C08):
  Y  every ``__await__`` of every condition class must suspend (shared with C20)
  E  EXIT-PRED: ``Condition.__await__`` (per receiver) and ``Connective.__await_children__``
     return only through a test of ``self`` being true evaluated after the last
     suspension; the time conditions are covered by their action tables instead (C01/L6)
  W  no lost wake-up: every store to a truth-source field is followed in the same atomic
     block by the trigger of the condition it can make true
  S  a connective subscribes to every false operand on every round and leaves all
     subscriptions on every exit
  C  trigger coverage: every condition class that parks waiters in its own waiter list
     and can turn true again has a trigger site
  B  boolean algebra of derived conditions: ``~`` yields the complement, ``&``/``|`` build
     All/Any of both operands (flattening keeps order and members), All/Any truth,
     comparison-operator complement table; every ``__bool__`` is pure
"""
import ast

from ..engine import Analysis, is_call_to, is_suspension, short, where_fn, tested, \
    key_truth, call_receiver
from ..model import AnalysisError
from ..paths import CORE_INTERRUPT
from ..norm import bool_term, equal_bool, complement_bool
from ..types import Callee, Frame
from .. import rules
from . import c01, c20

PROP = 'C08'
CONDITION = 'usim._primitives.condition.Condition'
CONNECTIVE = 'usim._primitives.condition.Connective'
ALL = 'usim._primitives.condition.All'
ANY = 'usim._primitives.condition.Any'
FLAG = 'usim._primitives.flag.Flag'
INVFLAG = 'usim._primitives.flag.InverseFlag'
DONE = 'usim._primitives.task.Done'
NOTDONE = 'usim._primitives.task.NotDone'
COMPARISON = 'usim._basics.tracked.AsyncComparison'
TRACKED = 'usim._basics.tracked.Tracked'
NOTIFICATION = 'usim._primitives.notification.Notification'
TIME_CLASSES = (c01.AFTER, c01.BEFORE, c01.MOMENT, c01.ETERNITY, c01.INSTANT)

#: classes whose truth can never (again) turn from false to true -- parked waiters of
#: these never need a trigger (each with the lemma that justifies it)
NEVER_RISES = {
    c01.BEFORE: 'time < date is monotone falling (clock monotone, date fixed: C01/L1, L6)',
    c01.ETERNITY: '__bool__ is constantly False (C01/L6)',
    NOTDONE: 'a finished task never becomes unfinished (C06: done is set once)',
    c01.MOMENT: 'only subscriptions for a passed date are parked in the moment itself; a '
                'passed moment never comes again (C01/L6 subscribe table)',
    c01.INSTANT: 'always true: subscribers are never parked (C01/L6 subscribe table)',
}


def _scaffolding(an: Analysis, qn: str) -> bool:
    """a private intermediate base class: named with a leading underscore, subclassed, and
    never instantiated by name anywhere in the package (only its subclasses exist as
    objects, and each of them is judged as the receiver of what it inherits)"""
    name = qn.rsplit('.', 1)[-1]
    if not name.startswith('_') or name.startswith('__') or not an.p.subclasses(qn):
        return False
    for module in an.p.modules.values():
        for node in ast.walk(module.tree):
            if isinstance(node, ast.Call) and isinstance(node.func, (ast.Name, ast.Attribute)) \
                    and ast.unparse(node.func).split('.')[-1] == name:
                try:
                    binding = an.p.resolve_dotted(module, node.func)
                except Exception:
                    binding = None
                if binding and binding[0] == 'class' and binding[1] == qn:
                    return False
    return True


def condition_classes(an: Analysis):
    return sorted(qn for qn in [CONDITION] + an.p.subclasses(CONDITION)
                  if not qn.startswith('usim.py.') and not _scaffolding(an, qn))


def run(check, an: Analysis):
    check.rule('Y', 'must-yield for `await <condition>` of every condition class')
    check.rule('E', 'EXIT-PRED: normal exit only via a test of `self` true after the last '
                    'suspension')
    check.rule('W', 'no lost wake-up: truth-source store -> trigger in the same atomic block')
    check.rule('S', 'connectives subscribe to every false operand and always unsubscribe')
    check.rule('C', 'trigger coverage for classes that park waiters in their own list')
    check.rule('B', 'boolean algebra of ~, &, |; truth of All/Any; pure __bool__')
    an.cls(CONDITION)
    classes = condition_classes(an)

    # ---- Y ------------------------------------------------------------------
    for qn in classes:
        method = an.p.find_method(qn, '__await__')
        callee = Callee(method, qn)
        summ = an.it.summary(callee)
        bad = c20.failing_normal_path(summ.paths)
        check.instance('Y', 'await:%s' % qn.rsplit('.', 1)[-1], bad is None,
                       where_fn(method), 'every normal exit passed a MUST suspension',
                       path=bad.describe() if bad else None, analysed=len(summ.paths))
    check.floor('Y', 12)
    # ---- E ------------------------------------------------------------------
    generic = an.method(CONDITION, '__await__')
    for qn in classes:
        method = an.p.find_method(qn, '__await__')
        label = qn.rsplit('.', 1)[-1]
        if qn in TIME_CLASSES:
            continue  # decided by the action tables below
        if method is generic:
            callee = Callee(method, qn)
            _check_exit_pred(check, an, callee, 'Condition.__await__[%s]' % label)
        elif an.p.is_subclass(qn, CONNECTIVE):
            callee = an.callee(qn, '__await_children__')
            _check_exit_pred(check, an, callee, 'Connective.__await_children__[%s]' % label)
            outer = an.callee(qn, '__await__')
            delegated = all(
                any(e.kind == 'susp' and is_call_to(e, '__await_children__')
                    for e in p.events) for p in an.paths(outer) if p.normal)
            check.instance('E', 'Connective.__await__[%s]:delegates' % label, delegated,
                           where_fn(outer.fn), '`await connective` runs __await_children__')
        else:
            raise AnalysisError('condition class %s overrides __await__: needs review' % qn)
    c01.check_await_table(check, an, rule='E')
    check.floor('E', 20)
    # ---- W ------------------------------------------------------------------
    _check_wakeups(check, an)
    # ---- S ------------------------------------------------------------------
    _check_connective_subscription(check, an)
    # ---- C ------------------------------------------------------------------
    _check_trigger_coverage(check, an, classes)
    # ---- B ------------------------------------------------------------------
    _check_algebra(check, an, classes)
    # the kernel rules every suspending operation rests on (shared; see _scope)
    from . import _scope as _kernel
    _kernel.check_kernel_core(check, an)
    from . import _scope as _sc
    _sc.check_until_core(check, an)
    from . import c03 as _c03
    _c03.check_activation_flags(check, an, 'C')
    check.stats.update(an.stats())


def _check_exit_pred(check, an: Analysis, callee: Callee, construct: str, rule: str = 'E'):
    paths = an.paths(callee)
    bad = None
    n = 0
    for path in paths:
        if not path.normal:
            continue
        n += 1
        last = max([i for i, e in enumerate(path.events) if is_suspension(e)] or [-1])
        tail = path.events[last + 1:]
        ok = any(tested(e, ('truth', 'self'), True) for e in tail)
        if not ok and bad is None:
            bad = path
    check.instance(rule, construct, n > 0 and bad is None, where_fn(callee.fn),
                   'all %d normal exits evaluate `self` true after their last suspension'
                   % n, path=rules.path_lines(bad) if bad else None, analysed=len(paths))


def truth_sources(an: Analysis, classes):
    """attribute names read by the __bool__ of condition classes, per owning class"""
    sources = {}
    for qn in classes:
        method = an.p.find_method(qn, '__bool__')
        if method is None or method.cls is None:
            continue
        for node in ast.walk(method.node):
            if isinstance(node, ast.Attribute) and isinstance(node.value, ast.Name) \
                    and node.value.id == 'self' and isinstance(node.ctx, ast.Load):
                sources.setdefault(method.cls.qn, set()).add(node.attr)
    return sources


def _check_wakeups(check, an: Analysis):
    # Flag-like: `_value` of Flag and Done
    for owner, rising_trigger, falling in ((FLAG, '__trigger__', '_inverse'),
                                           (DONE, '__trigger__', '_inverse')):
        for fn, stmt, target, recvs in rules.attribute_stores(an, '_value', owner):
            if fn.name == '__init__' and fn.cls is not None and fn.cls.qn in (owner,):
                continue
            if not any(an.p.is_subclass(r, owner) for r in recvs):
                continue
            where = '%s:%d' % (fn.module.relpath, stmt.lineno)
            recv_text = ast.unparse(target.value)
            fowner = an.p.enclosing_self_class(fn)
            callee = Callee(fn, fowner.qn if fowner else None)
            construct = '%s:%s._value=%s' % (short(fn.qn), recv_text,
                                             ast.unparse(stmt.value)[:12])
            whichs = ['none', 'exc:ext:Exception'] if fn.name == '__aexit__' else [None]
            ok, n_sites, bad = True, 0, None
            # a store inside a private helper is judged where the helper is used: on the
            # paths of its callers the helper runs in place
            roots = _store_roots(an, fn)
            exempt_roots = [r for r in roots
                            if _lowered_private_flag(an, r, stmt, recv_text)]
            if exempt_roots and len(exempt_roots) == len(roots):
                check.note('exempt %s: %s' % (construct, _lowered_private_flag(
                    an, exempt_roots[0], stmt, recv_text)))
                continue
            for which, root in [(w, r) for w in whichs for r in roots]:
                rowner = an.p.enclosing_self_class(root)
                for path in an.paths(Callee(root, rowner.qn if rowner else None), which):
                    for index, event in enumerate(path.events):
                        if event.kind != 'store' or event.get('stmt') is not stmt:
                            continue
                        if _lowered_private_flag(an, root, stmt, recv_text):
                            continue
                        n_sites += 1
                        direction = _direction(event, stmt.value)
                        block = rules.atomic_block(path, index)
                        later = block
                        stored = rules.value_text(path, index, stmt.value)

                        def receiver(e, truth):
                            """the object triggered, for a stored value of this truth"""
                            node = e.node
                            if isinstance(node, ast.Call) and isinstance(
                                    node.func, ast.Attribute):
                                pos = rules.event_index(path, e)
                                found = rules.value_expr(path, pos, node.func.value)
                                # (when_false, when_true)[bool(<stored value>)]
                                if isinstance(found, ast.Subscript) and isinstance(
                                        found.value, ast.Tuple) and \
                                        len(found.value.elts) == 2 and ast.unparse(
                                            found.slice) in (stored, 'bool(%s)' % stored):
                                    return rules.normalise_state_aliases(ast.unparse(
                                        found.value.elts[1 if truth else 0]))
                                return rules.normalise_state_aliases(ast.unparse(found))
                            return call_receiver(e)
                        here = rules.value_text(path, index, target.value)
                        rise = any(is_call_to(e, rising_trigger) and
                                   receiver(e, True) == here for e in later)
                        fall = any(is_call_to(e, rising_trigger) and
                                   receiver(e, False) == '%s.%s' % (here, falling)
                                   for e in later)
                        good = (direction == 'rise' and rise) or \
                            (direction == 'fall' and fall) or \
                            (direction == 'unknown' and rise and fall)
                        if not good:
                            ok = False
                            bad = bad or (path, index)
            check.instance('W', construct, ok and n_sites > 0, where,
                           'the condition that the store can make true is triggered before '
                           'the next suspension (%d stores on paths)' % n_sites,
                           path=rules.path_lines(*bad) if bad else None, analysed=n_sites)
    check_tracked_told(check, an, 'W')
    check_comparison_trigger(check, an, 'W')
    _check_comparison_listens(check, an)


def check_tracked_told(check, an: Analysis, rule: str):
    """a new value of a tracked object is told to every comparison listening, in the very
    atomic block that stores it (a signal arriving at the next suspension must not come
    between the change and the news of it)"""
    # tracked values: all listeners are told
    for fn, stmt, target, recvs in rules.attribute_stores(an, '_value', TRACKED):
        if fn.name == '__init__' or TRACKED not in recvs:
            continue
        fowner = an.p.enclosing_self_class(fn)
        callee = Callee(fn, fowner.qn if fowner else None)
        ok, n_sites, bad = True, 0, None
        for path in an.paths(callee):
            for index, event in enumerate(path.events):
                if event.kind == 'store' and event.get('stmt') is stmt:
                    n_sites += 1
                    block = rules.atomic_block(path, index)
                    looped = any(e.kind == 'iter-end' and '_listeners' in rules.value_text(
                        path, rules.event_index(path, e), e.node.iter) for e in block)
                    if not looped:
                        ok = False
                        bad = bad or (path, index)
        body_ok = _all_listeners_told(an, callee, stmt)
        check.instance(rule, '%s:self._value=' % short(fn.qn), ok and n_sites > 0 and body_ok,
                       '%s:%d' % (fn.module.relpath, stmt.lineno),
                       'every listener is told about the new value before the next '
                       'suspension (loop over all listeners: %s)' % body_ok,
                       path=rules.path_lines(*bad) if bad else None, analysed=n_sites)


def check_comparison_trigger(check, an: Analysis, rule: str):
    """a change of a tracked operand wakes the waiters (and delivers the signal of the
    subscribers: an `until` block has no second look) exactly when the comparison holds"""
    changed = an.callee(COMPARISON, '__on_changed__')
    seen = {}
    for path in an.paths(changed):
        if not path.normal:
            continue
        tests = [e for e in path.events if e.kind == 'test'
                 and e.get('key') == ('truth', 'self.%s()' % _test_name(an))]
        triggered = any(is_call_to(e, '__trigger__') for e in path.events)
        if tests:
            seen[key_truth(tests[0])] = triggered
    check.instance(rule, 'AsyncComparison.__on_changed__',
                   seen == {True: True, False: False},
                   where_fn(changed.fn), 'a comparison that now holds triggers its waiters, '
                   'one that does not hold stays quiet: %s' % seen)


def _check_comparison_listens(check, an: Analysis):
    cinit = an.callee(COMPARISON, '__init__')
    cparams = [a.arg for a in cinit.fn.node.args.args]
    verdict, n_paths, bad = True, 0, None
    for path in an.paths(cinit):
        if not path.normal:
            continue
        n_paths += 1
        for operand in (cparams[1], cparams[3]):
            tracked = [e for e in path.events if e.kind == 'test' and e.get('key') == (
                'truth', 'isinstance(%s, Tracked)' % operand)]
            if tracked and tracked[-1]['value'] is True:
                listening = any(e.kind == 'call' and isinstance(e.node, ast.Call) and
                                rules.text_at(path, e, e.node.func) == '%s.__add_listener__' % operand
                                and [ast.unparse(a) for a in e.node.args] == ['self']
                                for e in path.events)
                if not listening:
                    verdict = False
                    bad = bad or path
    check.instance('W', 'AsyncComparison.__init__:listens-to-every-tracked-operand',
                   verdict and n_paths >= 2, where_fn(cinit.fn),
                   'a comparison registers itself as listener of every operand that is a '
                   'Tracked value (%d construction paths)' % n_paths,
                   path=rules.path_lines(bad) if bad else None, analysed=n_paths)
    addl = an.method(TRACKED, '__add_listener__')
    # ... on every way through (a registration that is skipped for some listeners -- the ones
    # nobody waits for yet, say -- leaves a comparison that is kept and asked again stale)
    lparam = addl.node.args.args[1].arg
    n_add, unrecorded = 0, None
    for path in an.paths(an.callee(TRACKED, '__add_listener__')):
        if not path.normal:
            continue
        n_add += 1
        recorded = any(
            e.kind in ('store', 'call') and e.node is not None
            and 'self._listeners' in rules.value_text(path, i, e.node)
            and lparam in rules.value_text(path, i, e.node)
            for i, e in enumerate(path.events)
            if e.kind in ('store', 'call') and isinstance(e.node, ast.AST))
        if not recorded:
            unrecorded = unrecorded or path
    check.instance('W', 'Tracked.__add_listener__', unrecorded is None and n_add > 0,
                   where_fn(addl), 'the listener is recorded in `_listeners` on every way '
                   'through (%d paths)' % n_add,
                   path=rules.path_lines(unrecorded) if unrecorded else None, analysed=n_add)
    check_comparison_truth(check, an, 'W')
    check.floor('W', 7)


def check_resource_comparisons(check, an: Analysis, rule: str):
    """`resources >= {...}` compares the available levels with exactly what was asked: the
    levels object given, or the levels made of the given dict alone (a resource that is not
    named counts as zero) -- nothing of the *current* levels is mixed into the operand, which
    would be frozen into the condition when it is written"""
    base = 'usim._basics.resource.BaseResources'
    ops = {'__eq__': '==', '__ne__': '!=', '__gt__': '>', '__ge__': '>=', '__le__': '<=',
           '__lt__': '<'}
    for name, symbol in ops.items():
        method = an.method(base, name)
        param = method.node.args.args[1].arg
        forms = {text for _a, text, _n, _p in returned_forms(an, an.callee(base, name))}
        want = {'self._available %s %s' % (symbol, param),
                'self._available %s self.resource_type(**%s)' % (symbol, param)}
        check.instance(rule, 'BaseResources.%s' % name, forms == want, where_fn(method),
                       'compares the available levels with the levels given, or with the '
                       'levels made of the dict given and nothing else: %s' % sorted(forms))


def _test_name(an: Analysis) -> str:
    """the name of the predicate a comparison evaluates: the parameterless `self.<name>()`
    that its __bool__ returns (a thunk stored by the constructor, or a method)"""
    boolm = an.method(COMPARISON, '__bool__')
    returns = [n for n in ast.walk(boolm.node) if isinstance(n, ast.Return)]
    if len(returns) == 1 and isinstance(returns[0].value, ast.Call) and \
            not returns[0].value.args and not returns[0].value.keywords and \
            isinstance(returns[0].value.func, ast.Attribute) and \
            ast.unparse(returns[0].value.func.value) == 'self':
        return returns[0].value.func.attr
    return '_test'


def check_comparison_truth(check, an: Analysis, rule: str):
    """the truth of a comparison is computed from the current values whenever it is asked
    for (never remembered from an earlier look)"""
    boolm = an.method(COMPARISON, '__bool__')
    returns = [n for n in ast.walk(boolm.node) if isinstance(n, ast.Return)]
    check.instance(rule, 'AsyncComparison.__bool__==_test', len(returns) == 1 and
                   ast.unparse(returns[0].value) == 'self.%s()' % _test_name(an), where_fn(boolm),
                   'the truth value and the wake-up test are the same predicate')


def _all_listeners_told(an: Analysis, callee, stmt) -> bool:
    """every listener gets `__on_changed__()`; the loop over them is never left early"""
    ok, n = True, 0
    for path in an.paths(callee):
        if not path.normal:
            continue
        loop_events = [(i, e) for i, e in enumerate(path.events)
                       if e.kind in ('iter-next', 'iter-end') and '_listeners' in
                       rules.value_text(path, i, e.node.iter)]
        if not loop_events:
            return False
        n += 1
        ok &= loop_events[-1][1].kind == 'iter-end'
        for (i, e), (j, _nxt) in zip(loop_events, loop_events[1:]):
            if e.kind != 'iter-next':
                continue
            var = ast.unparse(e.node.target)
            told = any(x.kind in ('call', 'enter') and isinstance(x.node, ast.Call) and
                       ast.unparse(x.node.func) == '%s.__on_changed__' % var
                       for x in path.events[i:j])
            ok &= told
    return ok and n > 0


def _comparison_tests(an: Analysis, init) -> set:
    """
    what `_test()` of a comparison computes, in terms of the constructor's parameters: the
    thunks stored into `self._test` on the construction paths (lambda / partial, through
    helpers that return them), or the returns of a `_test` method with the attributes
    replaced by what the constructor stored in them
    """
    forms = set()
    method = an.p.find_method(COMPARISON, _test_name(an))
    callee = Callee(init, COMPARISON)
    if method is None:
        for path in an.paths(callee):
            for index, event in enumerate(path.events):
                if event.kind == 'store' and event.get('path') == 'self.%s' % _test_name(an):
                    value = event.data.get('value')
                    found = rules.value_expr(path, index, value) if value is not None \
                        else None
                    body = rules.thunk_body(an, init, found) if found is not None else None
                    forms.add('?' if body is None else ast.unparse(body))
        return forms
    held = {}
    for path in an.paths(callee):
        for index, event in enumerate(path.events):
            if event.kind == 'store' and (event.get('path') or '').startswith('self.') and \
                    event.data.get('value') is not None and event.depth == 0:
                held.setdefault(event['path'], set()).add(
                    rules.value_text(path, index, event['value']))
    single = {attr: next(iter(values)) for attr, values in held.items() if len(values) == 1}
    for _atoms, text, _node, _path in returned_forms(an, Callee(method, COMPARISON)):
        for attr in sorted(single, key=len, reverse=True):
            text = text.replace(attr, single[attr])
        forms.add(text)
    return forms


def _store_roots(an: Analysis, fn, depth: int = 3):
    """``fn``, or -- for a private plain function / static helper that only sets what it is
    given -- the functions that call it (where it runs in place)"""
    private = fn.name.startswith('_') and not (fn.name.startswith('__')
                                              and fn.name.endswith('__'))
    if not private or depth <= 0 or (fn.cls is not None and not fn.is_static):
        return [fn]
    callers = []
    for caller, _call, _frame in rules.call_sites_of(an, fn.qn):
        for root in _store_roots(an, caller, depth - 1):
            if root not in callers:
                callers.append(root)
    return callers or [fn]


def _direction(event, value) -> str:
    if isinstance(value, ast.Constant):
        return 'rise' if value.value else 'fall'
    if isinstance(value, ast.Name):
        fact = rules.fact_value(event, ('truth', value.id))
        if fact is True:
            return 'rise'
        if fact is False:
            return 'fall'
    return 'unknown'


def _lowered_private_flag(an: Analysis, fn, stmt, recv_text):
    """InterruptQueue.pop lowers a private flag whose inverse is never exposed"""
    if isinstance(stmt.value, ast.Constant) and stmt.value.value is False and \
            fn.cls is not None and fn.cls.qn == 'usim.py.events.InterruptQueue':
        # the inverse of this flag is never taken anywhere in the package
        attr = recv_text.split('.')[-1]
        for other in an.p.functions.values():
            if isinstance(other.node, ast.Lambda):
                continue
            for node in ast.walk(other.node):
                if isinstance(node, ast.UnaryOp) and isinstance(node.op, ast.Invert) and \
                        'interrupt' in ast.unparse(node.operand).lower():
                    return None
        return 'a private flag of the interrupt queue; `~flag` is never evaluated on it'
    return None


def _check_connective_subscription(check, an: Analysis):
    fn = an.method(CONNECTIVE, '__await_children__')
    for qn in (ALL, ANY):
        callee = an.callee(qn, '__await_children__')
        verdict, n_rounds, bad = True, 0, None
        for path in an.paths(callee):
            # one "round" = the operand loop that precedes a bare hibernate
            for index, event in enumerate(path.events):
                if not (event.kind == 'susp' and event.get('base') and event.depth == 0):
                    continue
                n_rounds += 1
                start = max([i for i, e in enumerate(path.events[:index])
                             if e.kind == 'exitstack-enter'] or [0])
                seg = path.events[start:index]
                loop = [(i, e) for i, e in enumerate(seg) if e.kind in ('iter-next',
                                                                        'iter-end')]
                good = bool(loop) and loop[-1][1].kind == 'iter-end' and \
                    rules.value_text(path, start + loop[-1][0],
                                     loop[-1][1].node.iter) == 'self._children'
                for (i, e), (j, _n) in zip(loop, loop[1:]):
                    if e.kind != 'iter-next':
                        continue
                    var = ast.unparse(e.node.target)
                    body = seg[i:j]
                    held = [t for t in body if t.kind == 'test'
                            and t.get('key') == ('truth', var)]
                    entered = [x for x in body if x.kind == 'call' and isinstance(
                        x.node, ast.Call) and x.node.args
                        and rules.value_text(path, start + body.index(x) + i,
                                             x.node.func).endswith('.enter_context')
                        and rules.value_text(path, start + body.index(x) + i,
                                             x.node.args[0]) == '%s.__subscription__()' % var]
                    if not held:
                        good = False
                    elif key_truth(held[0]):
                        good &= not entered
                    else:
                        good &= len(entered) == 1
                if not good:
                    verdict = False
                    bad = bad or (path, index)
        check.instance('S', 'Connective[%s]:subscribes-all-false-operands'
                       % qn.rsplit('.', 1)[-1], verdict and n_rounds > 0, where_fn(fn),
                       'before every hibernate, the loop over `self._children` ran to its '
                       'end and every false operand was subscribed through the ExitStack, '
                       'every true one skipped (%d rounds on paths)' % n_rounds,
                       path=rules.path_lines(*bad) if bad else None, analysed=n_rounds)
    for qn in (ALL, ANY):
        callee = an.callee(qn, '__await_children__')
        bad = None
        n = 0
        for path in an.paths(callee):
            opened = 0
            for event in path.events:
                if event.kind == 'exitstack-enter':
                    opened += 1
                elif event.kind == 'exitstack-exit':
                    opened -= 1
            n += 1
            if opened != 0 and bad is None:
                bad = path
        check.instance('S', 'Connective[%s]:unsubscribes-on-every-exit'
                       % qn.rsplit('.', 1)[-1], bad is None and n > 0, where_fn(callee.fn),
                       'every path leaves the ExitStack it entered (%d paths)' % n,
                       path=rules.path_lines(bad) if bad else None, analysed=n)
        # the wait happens while subscribed
        waits_ok = True
        for path in an.paths(callee):
            opened = 0
            for event in path.events:
                if event.kind == 'exitstack-enter':
                    opened += 1
                elif event.kind == 'exitstack-exit':
                    opened -= 1
                elif event.kind == 'susp' and event.get('base') and opened <= 0:
                    waits_ok = False
        check.instance('S', 'Connective[%s]:waits-while-subscribed' % qn.rsplit('.', 1)[-1],
                       waits_ok, where_fn(callee.fn),
                       'the bare hibernate happens inside the subscriptions')
    check_subscription_paired(check, an, 'S')


def check_subscription_paired(check, an: Analysis, rule: str):
    # the subscription context itself: subscribe / unsubscribe with the same pair
    sub = an.callee(NOTIFICATION, '__subscription__')
    verdict, n = True, 0
    generators = [sub] if sub.fn.kind == 'ctxgen' else []
    if sub.fn.kind != 'ctxgen':
        # the method hands out a generator context manager made by a plain function ...
        generators = [Callee(an.p.functions[t[1]], t[2]) for t in an.te.ret_type(sub)
                      if t[0] == 'ctx']
        if not generators:
            # ... or a context manager object: what __enter__ subscribed is what every way
            # through __exit__ unsubscribes, handed over in attributes of the object
            verdict, n = _manager_pairs(an, sub)
    n_fresh, stale = 0, None
    for gen in generators:
        for path in an.paths(gen):
            subs = [(i, e) for i, e in enumerate(path.events)
                    if is_call_to(e, '__subscribe__') and e.get('exit') == 'normal']
            unsubs = [e for e in path.events if is_call_to(e, '__unsubscribe__')]
            if subs:
                n += 1
                same = len(unsubs) == 1 and [ast.unparse(a) for a in unsubs[0].node.args] \
                    == [ast.unparse(a) for a in subs[0][1].node.args]
                verdict &= same
            # every subscription has a signal made for it: one that was delivered (and
            # revoked) in an earlier round would make the next delivery a dead letter
            frame = Frame(gen.fn, gen.recv)
            for index, event in subs:
                if not isinstance(event.node, ast.Call) or len(event.node.args) < 2:
                    continue
                n_fresh += 1
                made = rules.value_expr(path, index, event.node.args[1])
                fresh = isinstance(made, ast.Call) and any(
                    term[0] == 'cls' and an.p.is_subclass(term[1], CORE_INTERRUPT)
                    for term in an.te.expr_type(made.func, frame))
                if not fresh:
                    stale = stale or (path, index)
    if generators:
        check.instance(rule, 'Notification.__subscription__:signal-of-its-own',
                       stale is None and n_fresh > 0, where_fn(sub.fn),
                       'the signal subscribed is an Interrupt constructed for this '
                       'subscription (%d subscriptions on paths)' % n_fresh,
                       path=rules.path_lines(*stale) if stale else None, analysed=n_fresh)
    check.instance(rule, 'Notification.__subscription__:paired', verdict and n > 0,
                   where_fn(sub.fn), 'subscribe(task, wake_up) is undone by '
                   'unsubscribe(task, wake_up) on each of %d paths' % n, analysed=n)


def _manager_pairs(an: Analysis, factory: Callee):
    """(verdict, number of subscribing paths) for a ``__subscription__`` that returns a
    context manager object"""
    verdict, n = True, 0
    managers = [t[1] for t in an.te.ret_type(factory) if t[0] == 'inst'
                and an.p.find_method(t[1], '__enter__') and an.p.find_method(t[1], '__exit__')]
    if not managers:
        return False, 0
    for qn in managers:
        enter = Callee(an.p.find_method(qn, '__enter__'), qn)
        leave = Callee(an.p.find_method(qn, '__exit__'), qn)
        kept = None
        for path in an.paths(enter):
            subs = [(i, e) for i, e in enumerate(path.events)
                    if e.kind in ('call', 'enter') and isinstance(e.node, ast.Call)
                    and isinstance(e.node.func, ast.Attribute)
                    and e.node.func.attr == '__subscribe__' and e.get('exit') == 'normal']
            if not path.normal:
                continue
            if len(subs) != 1:
                return False, n
            n += 1
            index, event = subs[0]
            held = {}
            for pos, store in enumerate(path.events):
                if store.kind == 'store' and (store.get('path') or '').startswith('self.') \
                        and store.data.get('value') is not None:
                    held[rules.value_text(path, pos, store.data['value'])] = store['path']
            args = [held.get(rules.value_text(path, index, a)) for a in event.node.args]
            if None in args or (kept is not None and kept != args):
                return False, n
            kept = args
        for which in ('none', 'genexit', 'exc:ext:Exception', 'exc:' + CORE_INTERRUPT):
            for path in an.paths(leave, which):
                unsubs = [(i, e) for i, e in enumerate(path.events)
                          if e.kind in ('call', 'enter') and isinstance(e.node, ast.Call)
                          and isinstance(e.node.func, ast.Attribute)
                          and e.node.func.attr == '__unsubscribe__']
                verdict &= len(unsubs) == 1 and [
                    rules.value_text(path, unsubs[0][0], a)
                    for a in unsubs[0][1].node.args] == kept
    return verdict, n


def _check_trigger_coverage(check, an: Analysis, classes):
    # where can a class park a subscriber in its *own* list?
    sites = {}
    for fn, frame in rules.all_frames(an):
        if isinstance(fn.node, ast.Lambda):
            continue
        impl = fn.cls is not None and fn.cls.qn in (CONDITION, NOTIFICATION) and \
            fn.name in ('__trigger__', '__awake_all__', '__awake_next__')
        from ..types import _walk_own
        for node in _walk_own(fn.node):
            if isinstance(node, ast.Call) and isinstance(node.func, ast.Attribute) and \
                    node.func.attr in ('__trigger__', '__awake_all__', '__awake_next__'):
                if impl and isinstance(node.func.value, ast.Name) and \
                        node.func.value.id == 'self':
                    continue  # the mechanism itself, not a trigger site
                # (receiver expression, function it stands in, its frame): a parameter of a
                # plain function is followed to the arguments given at the call sites
                receivers = [(node.func.value, fn, frame)]
                if isinstance(node.func.value, ast.Name) and fn.cls is None and \
                        rules._is_param(fn, node.func.value.id):
                    params = [a.arg for a in fn.node.args.posonlyargs + fn.node.args.args]
                    position = params.index(node.func.value.id) \
                        if node.func.value.id in params else None
                    given = []
                    for caller, call, cframe in rules.call_sites_of(an, fn.qn):
                        args = [a for a in call.args if not isinstance(a, ast.Starred)]
                        named = [kw.value for kw in call.keywords
                                 if kw.arg == node.func.value.id]
                        if named:
                            given.append((named[0], caller, cframe))
                        elif position is not None and position < len(args) == len(call.args):
                            given.append((args[position], caller, cframe))
                    receivers = given or receivers
                for recv_expr, recv_fn, recv_frame in receivers:
                    recv_types = an.te.classes_of(an.te.expr_type(recv_expr, recv_frame))
                    is_self = isinstance(recv_expr, ast.Name) and recv_expr.id == 'self'
                    for qn in recv_types:
                        targets = [qn]
                        if is_self:
                            # inherited by every subclass that does not override the method
                            targets += [s for s in an.p.subclasses(qn)
                                        if an.p.find_method(s, recv_fn.name) is recv_fn]
                        for target in targets:
                            sites.setdefault(target, []).append(
                                '%s:%d' % (fn.module.relpath, node.lineno))
    for qn in classes:
        label = qn.rsplit('.', 1)[-1]
        if qn in (CONDITION, CONNECTIVE):
            continue  # abstract bases
        parks = _parks_in_own_list(an, qn)
        where = where_fn(an.method(qn, '__bool__'))
        if not parks:
            check.instance('C', '%s:never-parks' % label, True, where,
                           'subscribers are never parked in this object', nontrivial=False)
            continue
        if qn in NEVER_RISES:
            check.instance('C', '%s:never-rises' % label, True, where,
                           'parked waiters need no trigger: %s' % NEVER_RISES[qn],
                           nontrivial=False)
            continue
        found = sites.get(qn, [])
        check.instance('C', '%s:parks-waiters-without-trigger' % label, bool(found), where,
                       'parks subscribers in its own waiter list; trigger sites: %s'
                       % (sorted(set(found))[:4] or 'none'), analysed=max(1, len(found)))
    check.floor('C', 10)


def _parks_in_own_list(an: Analysis, qn: str) -> bool:
    """whether ``qn.__subscribe__`` can reach Notification.__subscribe__ on itself"""
    callee = an.callee(qn, '__subscribe__')
    paths = an.inlined_paths(callee, c01._inline_sync, 4)
    for path in paths:
        for event in path.events:
            if event.kind == 'call' and isinstance(event.node, ast.Call) and \
                    isinstance(event.node.func, ast.Attribute) and \
                    event.node.func.attr == 'append' and \
                    rules.text_at(path, event, event.node.func.value) == 'self._waiting' and \
                    event.recv == qn:
                return True
    return False


# ---------------------------------------------------------------------- B
def _single_return(fn):
    returns = [n for n in ast.walk(fn.node) if isinstance(n, ast.Return)]
    if len(returns) != 1:
        return None
    return returns[0].value


def _splice_starred(expr):
    """f(a, *(b,), *[c, d]) -> f(a, b, c, d): literal sequences spliced into the call"""
    import copy

    class Sub(ast.NodeTransformer):
        def visit_Call(self, node):
            node = self.generic_visit(node)
            args = []
            for arg in node.args:
                if isinstance(arg, ast.Starred) and isinstance(
                        arg.value, (ast.Tuple, ast.List)) and not any(
                        isinstance(e, ast.Starred) for e in arg.value.elts):
                    args.extend(arg.value.elts)
                else:
                    args.append(arg)
            node.args = args
            return node
    return Sub().visit(copy.deepcopy(expr))


def _hook_results(an: Analysis, callee: Callee, expr, except_classes=()):
    """``self.hook()`` -- a parameterless plain method of the receiver that only returns one
    expression -- replaced by that expression, when every class the receiver stands for
    (its subclasses, but for ``except_classes`` and theirs, which are judged on their own)
    has the same definition of the hook"""
    import copy
    if callee.recv is None:
        return expr

    def definition(cls_qn, name):
        method = an.p.find_method(cls_qn, name)
        if method is None or method.kind != 'sync' or len(method.node.args.args) != 1 or \
                method.node.args.args[0].arg != 'self':
            return None
        stmts = [s for s in method.node.body
                 if not (isinstance(s, ast.Expr) and isinstance(s.value, ast.Constant))]
        if len(stmts) != 1 or not isinstance(stmts[0], ast.Return) or stmts[0].value is None:
            return None
        return method, stmts[0].value

    excluded = set()
    for qn in except_classes:
        if qn != callee.recv:
            excluded.add(qn)
            excluded.update(an.p.subclasses(qn))

    class Sub(ast.NodeTransformer):
        def visit_Call(self, node):
            node = self.generic_visit(node)
            if node.args or node.keywords or not isinstance(node.func, ast.Attribute) or \
                    not isinstance(node.func.value, ast.Name) or node.func.value.id != 'self':
                return node
            found = definition(callee.recv, node.func.attr)
            if found is None:
                return node
            for qn in an.p.subclasses(callee.recv):
                if qn in excluded:
                    continue
                other = definition(qn, node.func.attr)
                if other is None or other[0] is not found[0]:
                    return node
            return copy.deepcopy(found[1])
    return Sub().visit(copy.deepcopy(expr))


def returned_forms(an: Analysis, callee: Callee, except_classes=()):
    """[(path atoms, expanded text of the returned value, expanded node)] per return path"""
    result = []
    for path in an.paths(callee):
        if path.kind != 'return' or path.outcome[1] is None:
            continue
        node = rules.value_expr(path, len(path.events), path.outcome[1])
        node = _splice_starred(_hook_results(an, callee, node, except_classes))
        result.append((rules.path_atoms(path), rules.normalise_state_aliases(
            ast.unparse(node)), node, path))
    return result


def _returns_only(an, cls_qn, name, want: str) -> bool:
    forms = returned_forms(an, an.callee(cls_qn, name))
    return bool(forms) and {text for _a, text, _n, _p in forms} == {want}


def _method_predicate(an, cls_qn, name):
    from ..norm import function_predicate
    method = an.method(cls_qn, name)
    try:
        return function_predicate(method.node)
    except Exception:
        return None


def _mapped_operands(an, fn, path, node):
    """(source text, element text over `x`) when ``node`` is `*(f(x) for x in S)` or a
    local list built as that map"""
    if not isinstance(node, ast.Starred):
        return None
    value = node.value
    if isinstance(value, (ast.GeneratorExp, ast.ListComp)) and len(value.generators) == 1 \
            and not value.generators[0].ifs and isinstance(value.generators[0].target,
                                                            ast.Name):
        gen = value.generators[0]
        return ast.unparse(gen.iter), _over_x(value.elt, gen.target.id)
    if isinstance(value, ast.Name):
        found = rules.sequence_maps(fn.node).get(value.id)
        if found is not None and getattr(found, 'cond', None) is None:
            return ast.unparse(found.src), _over_x(found.elt, found.var)
    return None


def _over_x(expr, var):
    import copy

    class Sub(ast.NodeTransformer):
        def visit_Name(self, node):
            return ast.Name(id='x_', ctx=node.ctx) if node.id == var else node
    return ast.unparse(Sub().visit(copy.deepcopy(expr)))


def _init_mapping(an: Analysis, cls_qn: str, call: ast.Call):
    """attribute -> argument expression for ``cls(*call.args)`` from plain stores in init"""
    init = an.p.find_method(cls_qn, '__init__')
    if init is None:
        return {}
    params = [a.arg for a in init.node.args.args][1:]
    binding = {}
    for param, arg in zip(params, call.args):
        if isinstance(arg, ast.Starred):
            break
        binding[param] = arg
    if init.node.args.vararg is not None:
        binding['*' + init.node.args.vararg.arg] = call.args
    mapping = {}
    for node in ast.walk(init.node):
        if isinstance(node, ast.Assign) and isinstance(node.targets[0], ast.Attribute) and \
                ast.unparse(node.targets[0].value) == 'self':
            value = node.value
            if isinstance(value, ast.Name) and value.id in binding:
                mapping[node.targets[0].attr] = binding[value.id]
            elif isinstance(value, ast.Name) and '*' + value.id in binding:
                mapping[node.targets[0].attr] = ('varargs', binding['*' + value.id])
    return mapping


class Truth:
    """symbolic truth of condition objects, with one level of object substitution"""

    def __init__(self, an: Analysis):
        self.an = an

    def of_object(self, cls_qn: str, attrs: dict, depth=0) -> ast.expr:
        """truth expression of an instance of cls with given attribute expressions"""
        method = self.an.p.find_method(cls_qn, '__bool__')
        if method is None:
            raise AnalysisError('%s has no __bool__' % cls_qn)
        expr = _single_return(method)
        if expr is None:
            raise AnalysisError('%s.__bool__ is not a single return' % cls_qn)
        return self._subst(expr, method, attrs, depth)

    def _subst(self, expr, method, attrs, depth):
        import copy
        outer = self

        class Sub(ast.NodeTransformer):
            def visit_Attribute(self, node):
                if isinstance(node.value, ast.Name) and node.value.id == 'self' and \
                        node.attr in attrs and not isinstance(attrs[node.attr], tuple):
                    return copy.deepcopy(attrs[node.attr])
                return self.generic_visit(node)
        text = rules.normalise_state_aliases(rules.expand_alias(expr, method))
        tree = ast.parse(text, mode='eval').body
        return Sub().visit(tree)


def check_connective_operators(check, an: Analysis, rule: str):
    """`a & b` / `a | b` hold both operands in order; an operand of the same kind (and only
    that: `a & (b | c)` is not `All(a, b, c)`) is flattened (shared with C01, C07)"""
    # & and |
    for qn, name, cls_name in ((CONDITION, '__and__', 'All'), (CONDITION, '__or__', 'Any'),
                               (ALL, '__and__', 'All'), (ANY, '__or__', 'Any')):
        method = an.method(qn, name)
        param = method.node.args.args[1].arg
        mine = '*self._children' if qn != CONDITION else 'self'
        forms = returned_forms(an, an.callee(qn, name),
                               (ALL,) if cls_name == 'All' else (ANY,))
        ok, seen = bool(forms), set()
        for atoms, text, _node, _path in forms:
            same = atoms.get(('truth', 'isinstance(%s, %s)' % (param, cls_name)))
            seen.add(same)
            if same is True:
                ok &= text == '%s(%s, *%s._children)' % (cls_name, mine, param)
            elif same is False:
                ok &= text == '%s(%s, %s)' % (cls_name, mine, param)
            else:
                ok = False
        check.instance(rule, '%s.%s' % (qn.rsplit('.', 1)[-1], name),
                       ok and seen == {True, False}, where_fn(method),
                       'both operands in order; a same-kind operand (and only that) is '
                       'flattened: %s' % sorted({t for _a, t, _n, _p in forms}))


def _check_algebra(check, an: Analysis, classes):
    truth = Truth(an)
    # pure __bool__
    for qn in classes:
        method = an.p.find_method(qn, '__bool__')
        if method.cls is not None and method.cls.qn == CONDITION:
            continue  # abstract: raises NotImplementedError
        pure = an.it.is_pure(Callee(method, qn))
        check.instance('B', '%s.__bool__:pure' % qn.rsplit('.', 1)[-1], pure,
                       where_fn(method), 'evaluating the condition has no effect')
    # All / Any truth
    from ..norm import bool_term as _bt, equivalent_terms as _eq
    for qn, want in ((ALL, 'all(self._children)'), (ANY, 'any(self._children)')):
        got = _method_predicate(an, qn, '__bool__')
        check.instance('B', '%s.__bool__' % qn.rsplit('.', 1)[-1],
                       got is not None and _eq(got, _bt(ast.parse(want, mode='eval').body)),
                       where_fn(an.method(qn, '__bool__')), 'truth == %s' % want)
    init = an.method(CONNECTIVE, '__init__')
    stores = [n for n in ast.walk(init.node) if isinstance(n, ast.Assign)
              and ast.unparse(n.targets[0]) == 'self._children']
    vararg = init.node.args.vararg.arg if init.node.args.vararg else None
    check.instance('B', 'Connective._children', len(stores) == 1 and vararg is not None and
                   ast.unparse(stores[0].value) == vararg, where_fn(init),
                   'the operands are stored as given, in order')
    # inversion pairs via stored partner objects
    for qn, partner, attr, back in ((FLAG, INVFLAG, '_inverse', '_event'),
                                    (DONE, NOTDONE, '_inverse', '_done')):
        init = an.callee(qn, '__init__')
        made = set()
        for path in an.paths(init):
            if path.normal:
                made.add(tuple(rules.value_text(path, i, e['value'])
                               for i, e in enumerate(path.events) if e.kind == 'store'
                               and e['path'] == 'self.%s' % attr and e['value'] is not None))
        ok = _returns_only(an, qn, '__invert__', 'self.%s' % attr) and \
            made == {('%s(self)' % partner.rsplit('.', 1)[-1],)}
        pexpr = _method_predicate(an, partner, '__bool__')
        ok_truth = pexpr is not None and _eq(pexpr, _bt(ast.parse(
            'not self.%s' % back, mode='eval').body))
        pinit = an.callee(partner, '__init__')
        param = pinit.fn.node.args.args[1].arg
        kept = all(any(e.kind == 'store' and e['path'] == 'self.%s' % back
                       and e['value'] is not None
                       and rules.value_text(path, i, e['value']) == param
                       for i, e in enumerate(path.events))
                   for path in an.paths(pinit) if path.normal)
        ok_back = _returns_only(an, partner, '__invert__', 'self.%s' % back)
        label = qn.rsplit('.', 1)[-1]
        check.instance('B', '~%s' % label, ok and ok_truth and kept,
                       where_fn(an.method(qn, '__invert__')),
                       '~x is the stored %s(x) whose truth is `not x`'
                       % partner.rsplit('.', 1)[-1])
        check.instance('B', '~~%s' % label, ok_back,
                       where_fn(an.method(partner, '__invert__')),
                       'double inversion gives the original object back')
    # After <-> Before on the same date
    for qn, partner in ((c01.AFTER, 'Before'), (c01.BEFORE, 'After')):
        ok = _returns_only(an, qn, '__invert__', '%s(self.date)' % partner)
        mine = truth.of_object(qn, {})
        other_qn = c01.BEFORE if partner == 'Before' else c01.AFTER
        theirs = truth.of_object(other_qn, {})
        check.instance('B', '~%s' % qn.rsplit('.', 1)[-1],
                       ok and complement_bool(mine, theirs),
                       where_fn(an.method(qn, '__invert__')),
                       '~ builds %s(self.date); `%s` is the complement of `%s`' % (
                           partner, ast.unparse(theirs), ast.unparse(mine)))
    for qn, partner in ((c01.ETERNITY, 'Instant'), (c01.INSTANT, 'Eternity')):
        check.instance('B', '~%s' % qn.rsplit('.', 1)[-1],
                       _returns_only(an, qn, '__invert__', '%s()' % partner),
                       where_fn(an.method(qn, '__invert__')), '~ builds %s()' % partner)
    # De Morgan
    for qn, partner in ((ALL, 'Any'), (ANY, 'All')):
        callee = an.callee(qn, '__invert__')
        forms = returned_forms(an, callee)
        ok = bool(forms)
        for _atoms, _text, node, path in forms:
            good = isinstance(node, ast.Call) and ast.unparse(node.func) == partner and \
                not node.keywords
            if good and not node.args:
                # no operand at all: only when the loop over the children ran zero times
                loops = [e for e in path.events if e.kind in ('iter-next', 'iter-end')
                         and rules.value_text(path, rules.event_index(path, e),
                                              e.node.iter) == 'self._children']
                ok &= bool(loops) and all(e.kind == 'iter-end' for e in loops)
                continue
            mapped = _mapped_operands(an, callee.fn, path, node.args[0]) \
                if good and len(node.args) == 1 else None
            ok &= mapped == ('self._children', '~x_')
        check.instance('B', '~%s' % qn.rsplit('.', 1)[-1], ok, where_fn(callee.fn),
                       'De Morgan: %s(*(~child for child in self._children))' % partner)
    # comparison operator table
    cls = an.cls(COMPARISON)
    table = cls.attrs.get('_operator_inverse')
    pairs = {}
    if isinstance(table, ast.Dict):
        for key, value in zip(table.keys, table.values):
            pairs[ast.unparse(key).split('.')[-1]] = ast.unparse(value).split('.')[-1]
    want = {'lt': 'ge', 'ge': 'lt', 'gt': 'le', 'le': 'gt', 'eq': 'ne', 'ne': 'eq'}
    check.instance('B', 'AsyncComparison._operator_inverse', pairs == want,
                   where_fn(an.method(COMPARISON, '__invert__')),
                   'complement map of the six comparison operators (an involution): %s'
                   % pairs)
    # ... which is the negation only where the compared values are totally ordered.  The
    # resource levels compare field by field, all fields joined with `and` (the generated
    # methods of `_resource_level.__comparison_op__`): a partial order, for which
    # `not (a > b)` is *not* `a <= b`
    maker = an.p.functions.get('usim._basics._resource_level.__comparison_op__')
    conjoined = maker is not None and any(
        isinstance(n, ast.JoinedStr) and any(
            isinstance(v, ast.Constant) and isinstance(v.value, str)
            and v.value.strip().startswith('and ') for v in n.values)
        for n in ast.walk(maker.node))
    tracked_levels = any(
        isinstance(n, ast.Call) and ast.unparse(n.func).split('.')[-1] == 'Tracked'
        for fn in an.p.functions.values() if fn.module.name == 'usim._basics.resource'
        for n in ast.walk(fn.node))
    check.instance('B', 'ResourceLevels:complement-of-fieldwise-comparison',
                   not (conjoined and tracked_levels),
                   where_fn(maker) if maker is not None else '',
                   'the inverse of a comparison is built by complementing the operator; for '
                   'values that compare field by field with `and` (resource levels with more '
                   'than one field) the complemented operator is not the negation: both `c` '
                   'and `~c` can be false')
    forms = returned_forms(an, an.callee(COMPARISON, '__invert__'))
    ok = bool(forms) and all(
        isinstance(node, ast.Call) and not node.keywords and [ast.unparse(a) for a in node.args]
        == ['self._left', 'self._operator_inverse[self._condition]', 'self._right']
        and ast.unparse(node.func).split('.')[-1] in ('AsyncComparison', '__class__')
        for _a, _t, node, _p in forms)
    check.instance('B', '~AsyncComparison', ok, where_fn(an.method(COMPARISON, '__invert__')),
                   'same operands, complemented operator')
    init = an.method(COMPARISON, '__init__')
    forms = sorted(_comparison_tests(an, init))
    check.instance('B', 'AsyncComparison._test', forms == [
        'condition(left.value, right)', 'condition(left.value, right.value)'],
        where_fn(init), 'the test applies the operator to the current values: %s' % forms)
    ops = {'__lt__': 'lt', '__le__': 'le', '__eq__': 'eq', '__ne__': 'ne', '__ge__': 'ge',
           '__gt__': 'gt'}
    for name, op in ops.items():
        method = an.method(TRACKED, name)
        param = method.node.args.args[1].arg
        ok = _returns_only(an, TRACKED, name,
                           'AsyncComparison(self, operator.%s, %s)' % (op, param))
        check.instance('B', 'Tracked.%s' % name, ok, where_fn(method),
                       'builds the comparison with its own operator')
    check_connective_operators(check, an, 'B')
    # a comparison of the clock with a date is a condition *object* for that date: its
    # truth follows the clock afterwards (shared with C01)
    c01.check_time_operators(check, an, 'B')
    check_resource_comparisons(check, an, 'B')
    # a time condition trusts that its one wake-up means the date is reached: the loop
    # queues it under the date as given, a date of 0 included (rules shared with C01)
    c01.check_schedule_keys(check, an, 'B')
    c01._check_optional_dates(check, an, 'B')
    check.floor('B', 30)
