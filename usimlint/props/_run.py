"""
``usim.run`` decided on its paths (shared by C07 and C15).

For every normal path of ``run`` the one ``Loop(...)`` construction is located and its
starred argument is followed to the value that reaches it on that path: either run's own
``activities`` (no ``till``) or a one-element tuple holding a call of the *root* coroutine
function, whose parameters are bound back to run's parameters.
"""
import ast

from ..engine import Analysis, is_call_to, key_truth, where_fn
from ..types import Callee
from .. import rules

LOOP = 'usim._core.loop.Loop'


class RunPath:
    def __init__(self, path):
        self.path = path
        self.limited = None       # a `till` is given on this path
        self.loops = []           # indices of Loop(...) construction events
        self.runs = []            # indices of Loop.run() calls
        self.initial = None       # 'activities' | 'root' | 'other'
        self.root_fn = None
        self.bound = {}           # root parameter -> text in terms of run's parameters
        self.start = None


def _root_function(an: Analysis, run_fn, name: str):
    for fn in an.p.functions.values():
        if fn.name == name and fn.kind == 'coroutine' and (
                fn.parent is run_fn or (fn.parent is None and fn.cls is None
                                        and fn.module is run_fn.module)):
            return fn
    return None


def _bind_root(an, run_fn, root_fn, call: ast.Call, path, index):
    """root parameter -> expression text over run's parameters"""
    args = root_fn.node.args
    names = [a.arg for a in args.posonlyargs + args.args]
    bound = {}
    defaults = args.defaults
    offset = len(names) - len(defaults)
    for k, default in enumerate(defaults):
        # defaults of a nested function are evaluated where it is defined
        bound[names[offset + k]] = ast.unparse(default)
    for a, default in zip(args.kwonlyargs, args.kw_defaults):
        if default is not None:
            bound[a.arg] = ast.unparse(default)
    for name, arg in zip(names, call.args):
        if isinstance(arg, ast.Starred):
            return {}
        bound[name] = ast.unparse(arg)
    for kw in call.keywords:
        if kw.arg is None:
            return {}
        bound[kw.arg] = ast.unparse(kw.value)
    return bound


def run_paths(an: Analysis):
    run_fn = an.fn('usim.run')
    params = run_fn.node.args
    acts = params.vararg.arg if params.vararg else None
    result = []
    for path in an.paths(Callee(run_fn, None)):
        if not path.normal:
            continue
        rp = RunPath(path)
        for index, event in enumerate(path.events):
            if event.depth != 0:
                continue
            if event.kind == 'test' and event.get('key') == ('isnone', 'till') and \
                    rp.limited is None:
                rp.limited = not key_truth(event)
            elif event.kind == 'call' and is_call_to(event, '__init__', LOOP):
                rp.loops.append(index)
            elif event.kind == 'call' and is_call_to(event, 'run', LOOP):
                rp.runs.append(index)
        if len(rp.loops) == 1:
            index = rp.loops[0]
            node = path.events[index].node
            kws = {kw.arg: rules.value_text(path, index, kw.value) for kw in node.keywords}
            rp.start = kws.get('start')
            rp.initial = 'other'
            if len(node.args) == 1 and set(kws) == {'start'}:
                if isinstance(node.args[0], ast.Starred):
                    value = rules.value_expr(path, index, node.args[0].value)
                else:
                    # Loop(x, start=...) is Loop(*(x,), start=...)
                    value = ast.Tuple(elts=[rules.value_expr(path, index, node.args[0])],
                                      ctx=ast.Load())
                if isinstance(value, ast.Name) and value.id == acts:
                    rp.initial = 'activities'
                elif isinstance(value, ast.Tuple) and len(value.elts) == 1 and \
                        isinstance(value.elts[0], ast.Call) and \
                        isinstance(value.elts[0].func, ast.Name):
                    root = _root_function(an, run_fn, value.elts[0].func.id)
                    if root is not None:
                        rp.initial = 'root'
                        rp.root_fn = root
                        rp.bound = _bind_root(an, run_fn, root, value.elts[0], path, index)
        result.append(rp)
    return run_fn, acts, result


def root_shape(an: Analysis, root_fn, bound: dict, acts: str, till: str = 'till'):
    """(until(time == till) ok, every activity is started once, in order, as a regular
    child of that scope; number of paths)"""
    cond_ok, loop_ok, n = True, True, 0
    seen_until = seen_do = 0
    for path in an.paths(Callee(root_fn, None)):
        n += 1
        events = path.events
        scope_name = None
        inside = False
        segment = None
        for index, event in enumerate(events):
            if event.depth != 0:
                continue
            if event.kind == 'susp' and event['how'] in ('aenter', 'aexit') and \
                    isinstance(event.node, ast.AsyncWith):
                item = event.node.items[0]
                ctx = rules.value_expr(path, index, item.context_expr)
                good = isinstance(ctx, ast.Call) and ast.unparse(ctx.func) == 'until' and \
                    len(ctx.args) == 1 and not ctx.keywords and \
                    isinstance(ctx.args[0], ast.Compare) and \
                    len(ctx.args[0].ops) == 1 and isinstance(ctx.args[0].ops[0], ast.Eq)
                if good:
                    sides = [ast.unparse(ctx.args[0].left),
                             ast.unparse(ctx.args[0].comparators[0])]
                    sides = [bound.get(s, s) for s in sides]
                    good = sorted(sides) == sorted(['time', till])
                if event['how'] == 'aenter':
                    seen_until += 1
                    cond_ok &= good
                    inside = event['exit'] == 'normal'
                    scope_name = ast.unparse(item.optional_vars) if item.optional_vars \
                        else None
                else:
                    inside = False
            elif event.kind in ('iter-next', 'iter-end') and isinstance(event.node, ast.For):
                if segment is not None and segment != 1:
                    loop_ok = False
                segment = 0 if event.kind == 'iter-next' else None
                if event.kind == 'iter-next':
                    source = rules.value_text(path, index, event.node.iter)
                    loop_ok &= bound.get(source, source) == acts and inside
            elif event.kind == 'test' and segment is not None:
                loop_ok = False
            elif event.kind in ('call', 'enter') and is_call_to(event, 'do'):
                seen_do += 1
                node = event.node
                loops = [e for e in events[:index] if e.kind == 'iter-next' and e.depth == 0]
                loop_ok &= segment is not None and inside and not node.keywords and \
                    len(node.args) == 1 and bool(loops) and \
                    ast.unparse(node.args[0]) == ast.unparse(loops[-1].node.target) and \
                    isinstance(node.func, ast.Attribute) and \
                    ast.unparse(node.func.value) == scope_name
                if segment is not None:
                    segment += 1
    return cond_ok and seen_until > 0, loop_ok and seen_do > 0, n
