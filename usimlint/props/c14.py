"""
C14 -- interval() ticks on a fixed grid, delay() pauses a fixed span, for any body.

Structural clauses decided (DESIGN.md section 5/C14):
  A  interval: remaining == last + period - now (rational-function normal form); ``last``
     is re-read from the clock after the wait and is the value yielded.  delay: each step
     waits exactly ``period`` and yields the clock
  G  sign split: remaining < 0 -> IntervalExceeded, > 0 -> suspend(remaining), else
     postpone -- the three branches partition the orderings; a negative period raises
     ValueError before the first wait in both generators
  Y  every step (entry->yield, yield->yield) must suspend, for period == 0 too
  L3 the delays handed to suspend() are dominated by their positivity
The tick grid as numbers (float accumulation of last + period) is not decided.
"""
import ast

from ..engine import Analysis, is_call_to, is_suspension, short, where_fn, tested, key_truth
from ..model import AnalysisError
from ..norm import equal_algebra
from ..types import Callee
from .. import rules
from . import c20

PROP = 'C14'
INTERVAL = 'usim._primitives.timing.interval'
DELAY = 'usim._primitives.timing.delay'


def _clock_locals(fn):
    return [name for name in {n.id for n in ast.walk(fn.node) if isinstance(n, ast.Name)}
            if any(v is not None and rules.is_current_time(v, fn)
                   for v in rules.local_values(fn, name))]


def run(check, an: Analysis):
    check.rule('A', 'interval: remaining == last + period - now; last re-read after the wait '
                    'and yielded; delay waits exactly period and yields the clock')
    check.rule('G', 'sign split of the remaining delay; negative periods rejected before the '
                    'first wait')
    check.rule('Y', 'every step must suspend')
    check.rule('L3', 'suspend(delay=...) dominated by delay > 0')
    ifn = an.fn(INTERVAL)
    dfn = an.fn(DELAY)
    icallee, dcallee = Callee(ifn, None), Callee(dfn, None)
    period = ifn.node.args.args[0].arg

    # ---- A: interval -----------------------------------------------------------
    ipaths = an.paths(icallee)
    sus = [n for n in ast.walk(ifn.node) if isinstance(n, ast.Call)
           and ast.unparse(n.func) == 'suspend']
    clock_names = _clock_locals(ifn)
    ok_formula, detail = False, 'suspend(delay=...) not found'
    if len(sus) == 1:
        kws = {kw.arg: kw.value for kw in sus[0].keywords}
        delay_expr = kws.get('delay')
        if isinstance(delay_expr, ast.Name):
            values = rules.local_values(ifn, delay_expr.id)
            if len(values) == 1 and values[0] is not None:
                expr = values[0]
                # replace direct clock reads by a symbol, keep the `last` local as symbol
                text = ast.unparse(expr).replace('time.now', 'NOW')
                last = [n for n in clock_names if n in text]
                if len(last) == 1:
                    want = '%s + %s - NOW' % (last[0], period)
                    ok_formula = equal_algebra(text, want)
                    detail = 'remaining = %s  (expected %s)' % (ast.unparse(expr), want)
        until_none = 'until' in kws and isinstance(kws['until'], ast.Constant) \
            and kws['until'].value is None
        ok_formula = ok_formula and until_none
    check.instance('A', 'interval:remaining', ok_formula, where_fn(ifn), detail)
    # last is re-read after the wait and yielded
    verdict, n, bad = True, 0, None
    for path in ipaths:
        for index, event in enumerate(path.events):
            if event.kind == 'yield' and event.depth == 0 and event['exit'] == 'normal':
                n += 1
                value = event.node.value
                ok = isinstance(value, ast.Name) and value.id in clock_names
                # the last store to that name lies after the last suspension
                store = susp = None
                for pos in range(index - 1, -1, -1):
                    before = path.events[pos]
                    if store is None and before.kind == 'store' and \
                            isinstance(value, ast.Name) and before['path'] == value.id:
                        store = pos
                    if susp is None and before.kind == 'susp' and is_suspension(before):
                        susp = pos
                    if before.kind == 'yield':
                        break
                ok = ok and store is not None and susp is not None and store > susp
                if not ok:
                    verdict = False
                    bad = bad or (path, index)
    check.instance('A', 'interval:yields-fresh-clock', verdict and n > 0, where_fn(ifn),
                   'the yielded value is the clock read after the wait and becomes the new '
                   'reference point (%d yields on paths)' % n,
                   path=rules.path_lines(*bad) if bad else None, analysed=n)
    # ---- A: delay --------------------------------------------------------------
    dperiod = dfn.node.args.args[0].arg
    sus = [n for n in ast.walk(dfn.node) if isinstance(n, ast.Call)
           and ast.unparse(n.func) == 'suspend']
    ok = len(sus) == 1 and {kw.arg: ast.unparse(kw.value) for kw in sus[0].keywords} == {
        'delay': dperiod, 'until': 'None'}
    check.instance('A', 'delay:waits-period', ok, where_fn(dfn),
                   'each step suspends for exactly `%s`' % dperiod)
    yields = [n for n in ast.walk(dfn.node) if isinstance(n, ast.Yield)]
    ok = bool(yields) and all(y.value is not None and rules.is_current_time(y.value, dfn)
                              for y in yields)
    check.instance('A', 'delay:yields-clock', ok, where_fn(dfn),
                   'every step yields the current time')
    dpaths = an.paths(dcallee)
    verdict = True
    for path in dpaths:
        for index, event in enumerate(path.events):
            if event.kind == 'susp' and event.depth == 0 and event['exit'] == 'normal':
                pos = rules.fact_value(event, ('lt', '0', dperiod))
                if is_call_to(event, 'suspend'):
                    verdict &= pos is True
                elif is_call_to(event, 'postpone'):
                    verdict &= pos is False
    check.instance('A', 'delay:branch-by-sign', verdict, where_fn(dfn),
                   'suspend(period) iff period > 0, postpone otherwise')
    # ---- G ---------------------------------------------------------------------
    branches = {}
    for path in ipaths:
        tests = [e for e in path.events if e.kind == 'test']
        first_wait = next((i for i, e in enumerate(path.events)
                           if e.kind == 'susp' and e.depth == 0), None)
        first_raise = next((i for i, e in enumerate(path.events)
                            if e.kind == 'raise' and e.depth == 0), None)
        name = _remaining_name(ifn)
        neg = [e for e in tests if e.get('key') == ('lt', name, '0')]
        pos = [e for e in tests if e.get('key') == ('lt', '0', name)]
        if first_raise is not None and (first_wait is None or first_raise < first_wait):
            exc = path.events[first_raise]['exc']
            if exc.endswith('IntervalExceeded'):
                ok = bool(neg) and key_truth(neg[0]) is True
                branches.setdefault(('negative->IntervalExceeded', ok), path)
            elif exc == 'ext:ValueError':
                ok = any(tested(e, ('lt', period, '0'), True) for e in tests)
                branches.setdefault(('period<0->ValueError', ok), path)
        elif first_wait is not None:
            event = path.events[first_wait]
            if is_call_to(event, 'suspend'):
                ok = bool(pos) and key_truth(pos[0]) is True and bool(neg) and \
                    key_truth(neg[0]) is False
                branches.setdefault(('positive->suspend', ok), path)
            elif is_call_to(event, 'postpone'):
                ok = bool(pos) and key_truth(pos[0]) is False and bool(neg) and \
                    key_truth(neg[0]) is False
                branches.setdefault(('zero->postpone', ok), path)
    for (name, ok), path in sorted(branches.items(), key=lambda kv: repr(kv[0])):
        check.instance('G', 'interval:%s' % name, ok, where_fn(ifn),
                       'branch guarded by the matching sign test',
                       path=rules.path_lines(path))
    names = {name for name, _ok in branches}
    check.instance('G', 'interval:partition', names == {
        'negative->IntervalExceeded', 'positive->suspend', 'zero->postpone',
        'period<0->ValueError'}, where_fn(ifn), 'branches found: %s' % sorted(names))
    neg_paths = [p for p in dpaths if p.kind == 'raise' and
                 p.outcome[1].cls == 'ext:ValueError']
    ok = bool(neg_paths) and all(
        not any(e.kind == 'susp' for e in p.events) and
        any(tested(e, ('lt', dperiod, '0'), True) for e in p.events) for p in neg_paths)
    check.instance('G', 'delay:period<0->ValueError', ok, where_fn(dfn),
                   'a negative period is rejected before the first wait')
    # ---- Y ---------------------------------------------------------------------
    for callee, label in ((icallee, 'interval'), (dcallee, 'delay')):
        seg = c20.failing_segment(an.paths(callee))
        lines = None
        if seg is not None:
            path, start, stop = seg
            lines = [e.text() for e in path.events[start:stop + 1]]
        check.instance('Y', '%s:step' % label, seg is None, where_fn(callee.fn),
                       'every entry|yield -> yield segment contains a MUST suspension',
                       path=lines, analysed=len(an.paths(callee)))
    # ---- L3 --------------------------------------------------------------------
    for callee, label in ((icallee, 'interval'), (dcallee, 'delay')):
        verdict, n = True, 0
        for path in an.paths(callee):
            for event in path.events:
                if event.kind == 'call' and is_call_to(event, 'suspend'):
                    n += 1
                    arg = [kw.value for kw in event.node.keywords if kw.arg == 'delay']
                    text = ast.unparse(arg[0]) if arg else '?'
                    verdict &= rules.fact_value(event, ('lt', '0', text)) is True
        check.instance('L3', '%s:suspend-delay-positive' % label, verdict and n > 0,
                       where_fn(callee.fn), 'delay > 0 established before every suspend '
                       '(%d sites on paths)' % n, analysed=n)
    check.stats.update(an.stats())


def _remaining_name(fn):
    for node in ast.walk(fn.node):
        if isinstance(node, ast.Call) and ast.unparse(node.func) == 'suspend':
            for kw in node.keywords:
                if kw.arg == 'delay' and isinstance(kw.value, ast.Name):
                    return kw.value.id
    return '?'
