"""
C14 -- interval() ticks on a fixed grid, delay() pauses a fixed span, for any body.

Structural clauses decided (DESIGN.md section 5/C14), all on paths with the values that
reach each use (temporaries, helpers and remembered comparisons are seen through):
  A  interval: whatever is waited for equals E = last + period - now as a rational
     function, where ``last`` is the clock read after the previous wait (the value that was
     yielded) and ``now`` a clock read of the current step.  delay: each step waits exactly
     ``period`` and yields the clock read after the wait
  G  sign split: E < 0 -> IntervalExceeded, E > 0 -> suspend(E), E == 0 -> postpone -- the
     branches partition the orderings; a negative (and only a negative) period raises
     ValueError before the first wait in both generators
  Y  every step (entry->yield, yield->yield) must suspend, for period == 0 too
  L3 the delays handed to suspend() are dominated by their positivity
The tick grid as numbers (float accumulation of last + period) is not decided.
"""
import ast
import copy

from ..engine import Analysis, is_call_to, is_suspension, short, where_fn, tested, key_truth
from ..model import AnalysisError
from ..norm import equal_algebra
from ..types import Callee
from .. import rules
from . import c20

PROP = 'C14'
INTERVAL = 'usim._primitives.timing.interval'
DELAY = 'usim._primitives.timing.delay'
NOW = 'NOW_'


def _now_symbol(expr, fn):
    """direct reads of the clock become NOW_; locals that hold an earlier read stay"""
    class Sub(ast.NodeTransformer):
        def visit_Attribute(self, node):
            if isinstance(node.ctx, ast.Load) and rules.is_current_time(node, fn):
                return ast.Name(id=NOW, ctx=ast.Load())
            return self.generic_visit(node)

        def visit_Call(self, node):
            # the clock read through its getter (`time._now()`)
            if rules.is_clock_call(node, fn):
                return ast.Name(id=NOW, ctx=ast.Load())
            return self.generic_visit(node)
    return Sub().visit(copy.deepcopy(expr))


def _ineq(text, value=True):
    return rules.asserted(ast.parse(text, mode='eval').body, value)


def _step_bounds(path):
    """indices that start a step: entry and every yield"""
    return [0] + [i + 1 for i, e in enumerate(path.events) if e.kind == 'yield'
                  and e.depth == 0]


def _clock_local(path, index, name):
    """position of the store when local ``name`` holds a clock read at ``index``"""
    found = rules.reaching_store(path, index, name)
    if found is None or found[1].data.get('value') is None:
        return None
    if rules.is_current_time(found[1]['value'], found[1].fn):
        return found[0]
    return None


def run(check, an: Analysis):
    check.rule('A', 'interval: the wait equals last + period - now; last is the clock read '
                    'after the previous wait and is what was yielded; delay waits exactly '
                    'period and yields the clock')
    check.rule('G', 'sign split of the remaining delay; negative periods rejected before the '
                    'first wait')
    check.rule('Y', 'every step must suspend')
    check.rule('P', 'the pause primitives withdraw their wake-up on every exit (a ticker '
                    'closed during its pause leaves nothing behind), and a nested run() in '
                    'the body gives the clock of this simulation back (rules shared with '
                    'C03 and C15)')
    check.rule('L3', 'suspend(delay=...) dominated by delay > 0')
    ifn = an.fn(INTERVAL)
    dfn = an.fn(DELAY)
    icallee, dcallee = Callee(ifn, None), Callee(dfn, None)
    # both tick for ever: no way through either generator ends the iteration (for some
    # period, zero say) -- they are left by an exception or by being closed
    for label, callee in (('interval', icallee), ('delay', dcallee)):
        ends = [p for p in an.paths(callee) if p.normal]
        check.instance('A', '%s:never-ends' % label, not ends, where_fn(callee.fn),
                       'the iteration has no end of its own: every path leaves by an '
                       'exception (%d paths)' % len(an.paths(callee)),
                       path=rules.path_lines(ends[0]) if ends else None,
                       analysed=len(an.paths(callee)))
    period = ifn.node.args.args[0].arg
    ipaths = an.paths(icallee)

    # ---- interval: formula, sign split, freshness ---------------------------------
    formula_ok, fresh_ok, l3_ok = True, True, True
    n_wait = n_yield = 0
    bad_formula = bad_fresh = None
    branches = {}
    for path in ipaths:
        events = path.events
        bounds = _step_bounds(path)
        for index, event in enumerate(events):
            if event.depth != 0:
                continue
            start = max(b for b in bounds if b <= index)
            if event.kind == 'raise' and isinstance(event.node, ast.Raise):
                exc = event['exc']
                facts = [f for _p, f, _a in rules.path_inequalities(
                    path, start, index, transform=_now_symbol)]
                if exc.endswith('IntervalExceeded'):
                    last = _last_symbol(path, index, facts, period)
                    ok = last is not None and _ineq(
                        '%s + %s - %s < 0' % (last, period, NOW)) in facts
                    branches.setdefault(('negative->IntervalExceeded', ok), (path, index))
                elif exc == 'ext:ValueError':
                    waited = any(e.kind == 'susp' and e.depth == 0 for e in events[:index])
                    ok = _ineq('%s < 0' % period) in facts and not waited
                    branches.setdefault(('period<0->ValueError', ok), (path, index))
                continue
            if not (event.kind == 'susp' and event['how'] == 'await'):
                continue
            facts = [f for _p, f, _a in rules.path_inequalities(
                path, start, index, transform=_now_symbol)]
            last = _last_symbol(path, index, facts, period)
            n_wait += 1
            want = '%s + %s - %s' % (last, period, NOW)
            # a zero period is waited for like any other: the period is not rejected
            if _ineq('%s < 0' % period, False) not in [
                    f for _p, f, _a in rules.path_inequalities(
                        path, 0, index, transform=_now_symbol)]:
                branches.setdefault(('period>=0-accepted', False), (path, index))
            if is_call_to(event, 'suspend'):
                call = event.node.value if isinstance(event.node, ast.Await) else None
                kws = {kw.arg: kw.value for kw in call.keywords} if isinstance(
                    call, ast.Call) else {}
                delay = kws.get('delay')
                good = last is not None and delay is not None and not (
                    call.args if call else True)
                if good:
                    text = ast.unparse(_now_symbol(rules.value_expr(path, index, delay), ifn))
                    good = equal_algebra(text, want) and \
                        rules.value_text(path, index, kws.get('until', delay)) == 'None'
                if not good:
                    formula_ok, bad_formula = False, bad_formula or (path, index)
                pos = last is not None and _ineq('%s > 0' % want) in facts
                neg = last is not None and _ineq('%s < 0' % want, False) in facts
                l3_ok &= bool(pos)
                branches.setdefault(('positive->suspend', bool(pos and neg)), (path, index))
            elif is_call_to(event, 'postpone'):
                pos = last is not None and _ineq('%s > 0' % want, False) in facts
                neg = last is not None and _ineq('%s < 0' % want, False) in facts
                branches.setdefault(('zero->postpone', bool(pos and neg)), (path, index))
            else:
                branches.setdefault(('other-wait', False), (path, index))
        # yields: the clock read after the wait of this step, the next reference point
        for index, event in enumerate(events):
            if event.kind != 'yield' or event.depth != 0:
                continue
            n_yield += 1
            waits = [i for i in range(index) if events[i].kind == 'susp'
                     and events[i].depth == 0 and is_suspension(events[i])]
            value = event.node.value
            good = bool(waits) and value is not None
            if good:
                seen = rules.value_expr(path, index, value)
                if isinstance(seen, ast.Name):
                    pos = _clock_local(path, index, seen.id)
                    good = pos is not None and pos > waits[-1]
                    # ... and the next step measures from it
                    later = [i for i in range(index + 1, len(events))
                             if events[i].kind == 'susp' and events[i].depth == 0
                             and events[i]['how'] == 'await']
                    if good and later:
                        facts = [f for _p, f, _a in rules.path_inequalities(
                            path, index + 1, later[0], transform=_now_symbol)]
                        good = _last_symbol(path, later[0], facts, period) == seen.id and \
                            _clock_local(path, later[0], seen.id) == pos
                else:
                    good = False  # a direct read would not be remembered for the next step
            if not good:
                fresh_ok, bad_fresh = False, bad_fresh or (path, index)
    check.instance('A', 'interval:remaining', formula_ok and n_wait > 0, where_fn(ifn),
                   'suspend(delay=last + period - now, until=None) (%d waits on paths)'
                   % n_wait, path=rules.path_lines(*bad_formula) if bad_formula else None,
                   analysed=n_wait)
    check.instance('A', 'interval:yields-fresh-clock', fresh_ok and n_yield > 0,
                   where_fn(ifn), 'the yielded value is the clock read after the wait and '
                   'becomes the new reference point (%d yields on paths)' % n_yield,
                   path=rules.path_lines(*bad_fresh) if bad_fresh else None,
                   analysed=n_yield)
    for (name, ok), where in sorted(branches.items(), key=lambda kv: repr(kv[0])):
        check.instance('G', 'interval:%s' % name, ok, where_fn(ifn),
                       'branch guarded by the matching sign test',
                       path=rules.path_lines(*where))
    names = {name for name, _ok in branches}
    check.instance('G', 'interval:partition', names == {
        'negative->IntervalExceeded', 'positive->suspend', 'zero->postpone',
        'period<0->ValueError'}, where_fn(ifn), 'branches found: %s' % sorted(names))
    check.instance('L3', 'interval:suspend-delay-positive', l3_ok and n_wait > 0,
                   where_fn(ifn), 'delay > 0 established before every suspend '
                   '(%d waits on paths)' % n_wait, analysed=n_wait)
    # ---- delay ------------------------------------------------------------------------
    dperiod = dfn.node.args.args[0].arg
    dpaths = an.paths(dcallee)
    wait_ok, sign_ok, yield_ok, n_dwait, n_dyield = True, True, True, 0, 0
    bad = None
    for path in dpaths:
        events = path.events
        for index, event in enumerate(events):
            if event.depth != 0:
                continue
            if event.kind == 'susp' and event['how'] == 'await':
                n_dwait += 1
                facts = [f for _p, f, _a in rules.path_inequalities(path, 0, index)]
                if is_call_to(event, 'suspend'):
                    call = event.node.value if isinstance(event.node, ast.Await) else None
                    kws = {kw.arg: rules.value_text(path, index, kw.value)
                           for kw in call.keywords} if isinstance(call, ast.Call) else {}
                    if kws != {'delay': dperiod, 'until': 'None'} or call.args:
                        wait_ok, bad = False, bad or (path, index)
                    if _ineq('%s > 0' % dperiod) not in facts:
                        sign_ok, bad = False, bad or (path, index)
                elif is_call_to(event, 'postpone'):
                    if _ineq('%s > 0' % dperiod, False) not in facts:
                        sign_ok, bad = False, bad or (path, index)
                else:
                    wait_ok, bad = False, bad or (path, index)
            elif event.kind == 'yield':
                n_dyield += 1
                waits = [i for i in range(index) if events[i].kind == 'susp'
                         and events[i].depth == 0 and is_suspension(events[i])]
                value = event.node.value
                good = bool(waits) and value is not None
                if good:
                    seen = rules.value_expr(path, index, value)
                    if isinstance(seen, ast.Name):
                        pos = _clock_local(path, index, seen.id)
                        good = pos is not None and pos > waits[-1]
                    else:
                        good = rules.is_current_time(seen, dfn)
                if not good:
                    yield_ok, bad = False, bad or (path, index)
    check.instance('A', 'delay:waits-period', wait_ok and n_dwait > 0, where_fn(dfn),
                   'each step suspends for exactly `%s` (%d waits on paths)' % (
                       dperiod, n_dwait),
                   path=rules.path_lines(*bad) if bad and not wait_ok else None)
    check.instance('A', 'delay:yields-clock', yield_ok and n_dyield > 0, where_fn(dfn),
                   'every step yields the time read after its wait (%d yields on paths)'
                   % n_dyield, path=rules.path_lines(*bad) if bad and not yield_ok else None)
    check.instance('A', 'delay:branch-by-sign', sign_ok and n_dwait > 0, where_fn(dfn),
                   'suspend(period) iff period > 0, postpone otherwise',
                   path=rules.path_lines(*bad) if bad and not sign_ok else None)
    check.instance('L3', 'delay:suspend-delay-positive', sign_ok and n_dwait > 0,
                   where_fn(dfn), 'delay > 0 established before every suspend '
                   '(%d sites on paths)' % n_dwait, analysed=n_dwait)
    neg_paths = [p for p in dpaths if p.kind == 'raise' and
                 p.outcome[1].cls == 'ext:ValueError']
    ok = bool(neg_paths) and all(
        not any(e.kind == 'susp' for e in p.events) and
        _ineq('%s < 0' % dperiod) in [f for _p, f, _a in rules.path_inequalities(p)]
        for p in neg_paths)
    accepted = all(_ineq('%s < 0' % dperiod, False) in [
        f for _p, f, _a in rules.path_inequalities(p, 0, i)]
        for p in dpaths for i, e in enumerate(p.events)
        if e.kind == 'susp' and e.depth == 0 and e['how'] == 'await')
    check.instance('G', 'delay:period<0->ValueError', ok and accepted, where_fn(dfn),
                   'a negative period, and only a negative one, is rejected before the '
                   'first wait')
    # ---- Y ---------------------------------------------------------------------
    for callee, label in ((icallee, 'interval'), (dcallee, 'delay')):
        seg = c20.failing_segment(an.paths(callee))
        lines = None
        if seg is not None:
            path, start, stop = seg
            lines = [e.text() for e in path.events[start:stop + 1]]
        check.instance('Y', '%s:step' % label, seg is None, where_fn(callee.fn),
                       'every entry|yield -> yield segment contains a MUST suspension',
                       path=lines, analysed=len(an.paths(callee)))
    # ---- P ------------------------------------------------------------------
    from . import _scope, c01, c03, c15
    c03._check_signal_lifecycles(
        check, an, _scope.wrapper_callee(an), rule='P',
        only=lambda fn, cls: fn.cls is None and fn.module.name == 'usim._primitives.notification')
    c03.check_own_wakeup_is_fresh(check, an, 'P')
    c15.check_assign_restores(check, an, 'P')
    # ticks are exact: the clock is the start time and then the queued dates as given
    # (no conversion that would put later dates on another number grid)
    c01.check_clock_writers(check, an, 'A')
    c01.check_schedule_keys(check, an, 'A')
    c01.check_exact_arithmetic(check, an, 'A')
    handler_cls = an.cls(c15.HANDLER)
    check.instance('P', 'StateHandler:threading.local',
                   'ext:threading.local' in handler_cls.mro,
                   where_fn(an.method(c15.HANDLER, '__init__')),
                   'the clock a ticker reads is the one of the simulation of its own thread')
    _scope.check_disable_interrupts(check, an, 'P')
    # the kernel rules every suspending operation rests on (shared; see _scope)
    from . import _scope as _kernel
    _kernel.check_kernel_core(check, an)
    from . import _scope as _sc
    _sc.check_until_core(check, an)
    from . import c01 as _c01
    _c01._check_schedule_preconditions(check, an)
    _c01._check_plumbing_sites(check, an)
    check.stats.update(an.stats())


def _last_symbol(path, index, facts, period):
    """the clock local L for which the step's tests speak about L + period - NOW_"""
    names = set()
    for event in path.events[:index]:
        if event.kind == 'store' and event.depth == 0 and isinstance(event.node, ast.Name) \
                and event.data.get('value') is not None and \
                rules.is_current_time(event['value'], event.fn):
            names.add(event.node.id)
    for name in sorted(names):
        probes = [_ineq('%s + %s - %s %s 0' % (name, period, NOW, op), value)
                  for op in ('<', '>') for value in (True, False)]
        if any(p in facts for p in probes):
            return name
    return None
