"""
C10 -- Queue delivers every accepted item exactly once, in order, to waiters in order.

Structural clauses decided (DESIGN.md section 5/C10):
  W  exactly-once: no suspension between taking an item from the buffer and returning it
  D  closed/empty logic: items are stored only while open; StreamClosed on the receive
     side is raised only on evidence that the buffer is empty
  K  wake pairing: closing wakes all waiters, putting wakes the oldest -- in one atomic block
  F  FIFO discipline of the buffer; receivers serialised by the read mutex for the whole
     receive (the mutex's own FIFO is C09's)
  I  iteration yields exactly what ``await queue`` returns and ends only on StreamClosed
"""
import ast

from ..engine import Analysis, is_call_to, is_ext_call, is_suspension, short, where_fn, \
    call_receiver, key_truth
from ..model import AnalysisError
from .. import rules
from .c09 import check_waiting_fifo

PROP = 'C10'
QUEUE = 'usim._basics.streams.Queue'
LOCK = 'usim._primitives.locks.Lock'
CLOSED = 'usim._basics.streams.StreamClosed'


def _is_pop(event, path=None):
    return event.kind == 'call' and event.get('exit') == 'normal' and \
        (rules.receiver_at(path, event) if path is not None
         else call_receiver(event)) == 'self._buffer' and \
        isinstance(event.node, ast.Call) and event.node.func.attr in ('popleft', 'pop')


def check_buffer_fifo(check, an: Analysis, rule: str):
    """the Queue's buffer only sees append / popleft and is created empty, once"""
    n_ops = 0
    for fn, node, kind, detail in rules.attribute_method_calls(an, '_buffer', QUEUE):
        where = '%s:%d' % (fn.module.relpath, node.lineno)
        if kind == 'call':
            n_ops += 1
            if detail in ('append', 'popleft'):
                check.instance(rule, '%s:_buffer.%s' % (short(fn.qn), detail), True, where,
                               'FIFO operation', nontrivial=False)
            elif detail in ('pop', 'appendleft', 'insert', 'reverse', 'rotate', 'sort',
                            'extendleft', 'remove', 'clear'):
                check.instance(rule, '%s:_buffer.%s' % (short(fn.qn), detail), False, where,
                               'operation %s breaks the FIFO discipline of the buffer'
                               % ast.unparse(node)[:50])
            else:
                raise AnalysisError('unclassified operation on Queue._buffer: %s at %s' % (
                    ast.unparse(node)[:50], where))
        elif kind == 'subscript':
            check.instance(rule, '%s:_buffer[]' % short(fn.qn), False, where,
                           'indexed access to the buffer')
    for fn, stmt, target, recvs in rules.attribute_stores(an, '_buffer', QUEUE):
        ok = fn.name == '__init__' and isinstance(stmt.value, ast.Call) and \
            ast.unparse(stmt.value.func) in ('deque', 'collections.deque') and \
            not stmt.value.args and all(
                kw.arg == 'maxlen' and isinstance(kw.value, ast.Constant)
                and kw.value.value is None for kw in stmt.value.keywords)
        check.instance(rule, '%s:_buffer=' % short(fn.qn), ok,
                       '%s:%d' % (fn.module.relpath, stmt.lineno),
                       'the buffer is created once, empty, as an unbounded deque (a bounded '
                       'one silently drops the oldest item when a new one is appended)')


def run(check, an: Analysis):
    check.rule('W', 'exactly-once: no suspension between `_buffer.popleft()` and the return '
                    'of that very value')
    check.rule('D', 'closed/empty: append dominated by `not _closed`; every StreamClosed of '
                    'the receive path dominated by evidence that the buffer is empty')
    check.rule('K', 'wake pairing: `_closed = True` -> __awake_all__, append -> '
                    '__awake_next__, each without a suspension in between')
    check.rule('F', 'FIFO: `_buffer` only sees append/popleft; the receive runs inside the '
                    'read mutex')
    check.rule('I', 'iteration yields the values of `await self`, ends only on StreamClosed')
    check.rule('M', 'the mutex that orders the receivers keeps the Lock discipline (C09): '
                    'taken only when free, handed over FIFO, passed on by a leaving '
                    'designated owner whatever interrupts it')
    from ..report import SubCheck
    from . import c09
    c09.run(SubCheck(check, 'M', 'Lock'), an)
    an.cls(QUEUE)
    put = an.callee(QUEUE, 'put')
    close = an.callee(QUEUE, 'close')
    aiter = an.callee(QUEUE, '__aiter__')
    await_ = an.callee(QUEUE, '__await__')
    # the coroutine that `await queue` delegates to (a method, or a private function of the
    # module that is given the queue)
    receivers = []
    for path in an.paths(await_):
        for event in path.events:
            if event.kind == 'susp' and event.depth == 0:
                for callee in event.get('callees') or ():
                    if callee.fn.kind == 'coroutine' and callee not in receivers:
                        receivers.append(callee)
    if len(receivers) != 1:
        raise AnalysisError('Queue.__await__ delegates to %d coroutines' % len(receivers))
    recv = receivers[0]

    # ---- W ------------------------------------------------------------------
    recv_paths = an.paths(recv)
    n_pop = 0
    for path in recv_paths:
        for index, event in enumerate(path.events):
            if not _is_pop(event, path):
                continue
            n_pop += 1
            later = [e for e in path.events[index + 1:] if is_suspension(e)]
            returned = path.kind == 'return' and _returns_value_of(path, event, recv.fn)
            ok = not later and returned
            check.instance('W', 'pop@%d->return' % event.line, ok, event.where,
                           'suspensions after the pop: %d; the popped value is what is '
                           'returned: %s' % (len(later), returned),
                           path=rules.path_lines(path, index))
    check.instance('W', 'receive:takes-buffered-and-awaited', n_pop >= 2, where_fn(recv.fn),
                   'the receive path pops both on the buffered and on the waiting branch '
                   '(%d pops on %d paths)' % (n_pop, len(recv_paths)), analysed=len(recv_paths))
    # __await__ delegates to _await_message and returns its value
    for path in an.paths(await_):
        if path.kind == 'return':
            delegated = any(e.kind == 'susp' and is_call_to(e, recv.fn.name)
                            and e['exit'] == 'normal' for e in path.events)
            value = path.outcome[1]
            ok = delegated and isinstance(value, ast.YieldFrom)
            check.instance('W', '__await__:delegates', ok, where_fn(await_.fn),
                           '`await queue` returns the value of _await_message',
                           path=rules.path_lines(path))
    # ---- D ------------------------------------------------------------------
    n_append = 0
    for path in an.paths(put):
        for index, event in enumerate(path.events):
            if event.kind == 'call' and rules.receiver_at(path, event) == 'self._buffer' \
                    and event.node.func.attr in ('append', 'appendleft', 'extend'):
                n_append += 1
                open_ = rules.fact_value(event, ('truth', 'self._closed'))
                check.instance('D', 'put:append-only-open', open_ is False, event.where,
                               'append dominated by `self._closed` being false (fact=%s)'
                               % open_, path=rules.path_lines(path, index))
    check.instance('D', 'put:appends', n_append > 0, where_fn(put.fn),
                   'put stores the item in the buffer')
    closed_raise = [p for p in an.paths(put) if p.kind == 'raise'
                    and p.outcome[1].cls == CLOSED]
    check.instance('D', 'put:closed-raises', bool(closed_raise) and all(
        not any(e.kind == 'call' and rules.receiver_at(p, e) == 'self._buffer' for e in p.events)
        for p in closed_raise), where_fn(put.fn),
        'put on a closed queue raises StreamClosed and stores nothing')
    n_raise = 0
    for path in recv_paths:
        for index, event in enumerate(path.events):
            if event.kind == 'raise' and event['exc'] == CLOSED and not event['reraise']:
                n_raise += 1
                empty = rules.fact_value(event, ('truth', 'self._buffer')) is False
                handler = any(e.kind == 'handler' and e['exc'] == 'ext:IndexError'
                              and _is_pop_failure(path, pos)
                              for pos, e in enumerate(path.events[:index]))
                how = 'test' if empty else ('IndexError' if handler else 'none')
                check.instance('D', 'recv:closed-only-empty/%s@%d' % (how, event.line),
                               empty or handler, event.where,
                               'StreamClosed raised on evidence of an empty buffer (%s)'
                               % how, path=rules.path_lines(path, index))
    check.instance('D', 'recv:closed-reported', n_raise >= 2, where_fn(recv.fn),
                   'a closed and empty queue raises StreamClosed both on entry and after '
                   'waiting (%d raise sites reached)' % n_raise)
    # a receiver only ever starts to wait for the notification after it saw -- in the same
    # atomic block, i.e. after it got the read mutex -- that the queue is still open:
    # close() wakes the receivers waiting at that moment, nobody wakes one that starts to
    # wait on a closed, drained queue afterwards
    n_wait, wait_ok, bad = 0, True, None
    for path in recv_paths:
        for index, event in enumerate(path.events):
            if not (event.kind == 'susp' and is_suspension(event)
                    and event.get('expr') is not None and rules.value_text(
                        path, index, event['expr']).startswith('self._notification')):
                continue
            n_wait += 1
            block = rules.atomic_block(path, index)
            open_ = any(e.kind == 'test' and e.get('key') == ('truth', 'self._closed')
                        and key_truth(e) is False for e in block)
            if not open_:
                wait_ok, bad = False, bad or (path, index)
    check.instance('D', 'recv:waits-only-while-open', wait_ok and n_wait > 0,
                   where_fn(recv.fn),
                   'every wait for the notification follows, without a suspension in '
                   'between, a test that the queue is not closed (%d waits on paths)' % n_wait,
                   path=rules.path_lines(*bad) if bad else None, analysed=n_wait)
    # ---- K ------------------------------------------------------------------
    for path in an.paths(close):
        for index, event in enumerate(path.events):
            if event.kind == 'store' and event['path'] == 'self._closed':
                block = rules.atomic_block(path, index)
                woke = any(is_call_to(e, '__awake_all__') for e in block)
                value = event['value']
                ok = woke and isinstance(value, ast.Constant) and value.value is True
                check.instance('K', 'close:wake-all', ok, event.where,
                               'storing `_closed = True` and __awake_all__ happen in one '
                               'atomic block', path=rules.path_lines(path, index))
    for path in an.paths(put):
        for index, event in enumerate(path.events):
            if event.kind == 'call' and rules.receiver_at(path, event) == 'self._buffer' \
                    and event.node.func.attr == 'append':
                block = rules.atomic_block(path, index)
                woke = any(is_call_to(e, '__awake_next__') for e in block)
                check.instance('K', 'put:wake-next', woke, event.where,
                               'append and __awake_next__ happen in one atomic block',
                               path=rules.path_lines(path, index))
    # ---- F ------------------------------------------------------------------
    check_buffer_fifo(check, an, 'F')
    check.floor('F', 4)
    # receive inside the mutex
    for path in recv_paths:
        for index, event in enumerate(path.events):
            if not _is_pop(event, path):
                continue
            entered = any(e.kind == 'susp' and e['how'] == 'aenter' and e['exit'] == 'normal'
                          and is_call_to(e, '__aenter__', LOCK)
                          for e in path.events[:index])
            left = any(e.kind == 'susp' and e['how'] == 'aexit'
                       and is_call_to(e, '__aexit__', LOCK)
                       for e in path.events[index + 1:])
            check.instance('F', 'recv:pop-under-mutex@%d' % event.line, entered and left,
                           event.where, 'the pop happens inside `async with <Lock>`',
                           path=rules.path_lines(path, index))
    # every wait of the receive path happens inside the mutex too
    for path in recv_paths:
        for index, event in enumerate(path.events):
            if event.kind == 'susp' and event['how'] == 'await' and event.depth == 0:
                # inside the mutex *now*: the last thing done with it is a completed entry
                mutex = [e for e in path.events[:index] if e.kind == 'susp' and (
                    (e['how'] == 'aenter' and is_call_to(e, '__aenter__', LOCK))
                    or (e['how'] == 'aexit' and is_call_to(e, '__aexit__', LOCK)))]
                entered = bool(mutex) and mutex[-1]['how'] == 'aenter' and \
                    mutex[-1]['exit'] == 'normal'
                if not entered:
                    check.instance('F', 'recv:wait-under-mutex@%d' % event.line, False,
                                   event.where, 'a receiver waits outside the read mutex',
                                   path=rules.path_lines(path, index))
    check_waiting_fifo(check, an)
    # ---- I ------------------------------------------------------------------
    paths = an.paths(aiter)
    n_yield = 0
    for path in paths:
        for index, event in enumerate(path.events):
            if event.kind == 'yield' and event.depth == 0 and event['exit'] == 'normal':
                n_yield += 1
                value = event.node.value
                prev = None
                for before in reversed(path.events[:index]):
                    if before.kind in ('yield',):
                        break
                    if before.kind == 'susp' and before['how'] == 'await':
                        prev = before
                        break
                ok = prev is not None and prev['exit'] == 'normal' and \
                    is_call_to(prev, '__await__', QUEUE) and isinstance(value, ast.Name) and \
                    _assigned_from_await_self(aiter.fn, value.id)
                check.instance('I', 'yield-is-received-value', ok, event.where,
                               'each yielded value is the result of one `await self`',
                               path=rules.path_lines(path, index))
        if path.normal:
            ended = any(e.kind == 'handler' and e['exc'] == CLOSED for e in path.events)
            check.instance('I', 'ends-only-on-StreamClosed', ended, where_fn(aiter.fn),
                           'iteration ends only through the StreamClosed handler',
                           path=rules.path_lines(path))
    check.instance('I', 'yields', n_yield > 0, where_fn(aiter.fn), 'iteration yields items')
    # every queue has state of its own, made by its constructor (a default in the class
    # body would be one object shared by all of them), and its put()/close() are over after
    # one postponement: they never wait for consumers
    # (the mutex that orders the receivers: the attribute the constructor makes a Lock for)
    qinit = an.method(QUEUE, '__init__')
    mutexes = [ast.unparse(t)[len('self.'):] for n in ast.walk(qinit.node)
               if isinstance(n, (ast.Assign, ast.AnnAssign)) and isinstance(n.value, ast.Call)
               and ast.unparse(n.value.func).split('.')[-1] == 'Lock'
               for t in (n.targets if isinstance(n, ast.Assign) else [n.target])
               if ast.unparse(t).startswith('self.')]
    for field, fresh in (('_buffer', True), ('_notification', True),
                         (mutexes[0] if len(mutexes) == 1 else '_read_mutex', True),
                         ('_closed', False)):
        made = rules.constructor_field(an, QUEUE, field)
        ok = made is not None and (not fresh or isinstance(made, (ast.Call, ast.Dict, ast.List)))
        if not fresh and made is None:
            # an immutable default in the class body is rebound per instance when it changes
            default = an.cls(QUEUE).attrs.get(field)
            ok = isinstance(default, ast.Constant)
            made = default
        check.instance('D', 'Queue.__init__:%s' % field, ok,
                       where_fn(an.method(QUEUE, '__init__')),
                       'set per instance by the constructor: %s' % (
                           ast.unparse(made) if made is not None else None))
    for name in ('put', 'close'):
        op = an.callee(QUEUE, name)
        counts = set()
        for path in an.paths(op):
            if path.normal:
                counts.add(sum(1 for e in path.events if is_suspension(e) and e.depth == 0))
        check.instance('D', 'Queue.%s:one-postponement' % name, counts == {1},
                       where_fn(op.fn), 'every completed %s() suspended exactly once '
                       '(suspensions per normal path: %s)' % (name, sorted(counts)))
    # the kernel rules every suspending operation rests on (shared; see _scope)
    from . import _scope as _kernel
    _kernel.check_kernel_core(check, an)
    from . import _scope as _sc
    _sc.check_until_core(check, an)
    check.stats.update(an.stats())


def _returns_value_of(path, pop_event, fn) -> bool:
    value = path.outcome[1]
    if value is pop_event.node:
        return True
    if isinstance(value, ast.Name):
        values = rules.local_values(fn, value.id)
        return any(v is pop_event.node for v in values)
    return False


def _is_pop_failure(path, handler_pos) -> bool:
    """the IndexError handled at ``handler_pos`` comes from popping the buffer"""
    for event in reversed(path.events[:handler_pos]):
        if event.kind == 'call':
            return event.get('exit') == 'ext:IndexError' and \
                rules.receiver_at(path, event) == 'self._buffer'
        if event.kind in ('test', 'finally'):
            continue
        return False
    return False


def _assigned_from_await_self(fn, name) -> bool:
    for value in rules.local_values(fn, name):
        if isinstance(value, ast.Await) and isinstance(value.value, ast.Name) \
                and value.value.id == 'self':
            return True
    return False
