"""
C17 -- Concurrent[...] handlers select exactly the documented sets of failures.

Structural clauses decided (DESIGN.md section 5/C17):
  B  the matching predicate, as a boolean normal form compared by truth table:
     _subclasscheck_specialisation == (all listed types matched by some child) and
     (inclusive or all children match some listed type); the path table of
     __subclasscheck__ (identity / same template / unspecialised / delegate);
     __instancecheck__ delegates with type(instance)
  N  normalisation: the cache key is frozenset(item); lookup precedes creation; a created
     class is stored under that key; inclusive == (... in key); the specialisations exclude
     ``...``; Concurrent.__new__ specialises by type(child) of every child
  X  except-clause agreement: the interpreter matches ``except`` through the real MRO only;
     every pair the metaclass predicate accepts must therefore also be related by real
     inheritance
  L  flattened(): in-order traversal, leaves appended in order, recursion on nested ones
"""
import ast

from ..engine import Analysis, is_call_to, short, where_fn, tested, key_truth
from ..model import AnalysisError
from ..norm import bool_term, equivalent_terms, function_predicate, equal_bool
from ..types import Callee
from .. import rules

PROP = 'C17'
META = 'usim._primitives.concurrent_exception.MetaConcurrent'
CONCURRENT = 'usim._primitives.concurrent_exception.Concurrent'


def run(check, an: Analysis):
    check.rule('B', 'matching predicate equals the documented formula (truth-table over '
                    'normal forms); path table of __subclasscheck__; __instancecheck__')
    check.rule('N', 'specialisations are normalised through frozenset keys and cached; '
                    'Concurrent(...) specialises by the types of its children')
    check.rule('X', 'every pair accepted by the metaclass predicate is related by real '
                    'inheritance (what `except` uses)')
    check.rule('L', 'flattened() keeps leaves and their order')
    an.cls(META)
    an.cls(CONCURRENT)
    # ---- B ------------------------------------------------------------------
    spec = an.method(META, '_subclasscheck_specialisation')
    params = [a.arg for a in spec.node.args.args]
    cls_n, sub_n = params[0], params[1]
    got = function_predicate(spec.node)
    want = bool_term(ast.parse(
        'all(any(issubclass(c, s) for c in {sub}.specialisations) '
        'for s in {cls}.specialisations) and ({cls}.inclusive or '
        'all(issubclass(c, {cls}.specialisations) for c in {sub}.specialisations))'.format(
            cls=cls_n, sub=sub_n), mode='eval').body)
    check.instance('B', '_subclasscheck_specialisation', got is not None and
                   equivalent_terms(got, want), where_fn(spec),
                   'every listed type is matched by some child, and (inclusive or every '
                   'child matches some listed type)')
    sub = an.callee(META, '__subclasscheck__')
    sparams = [a.arg for a in sub.fn.node.args.args]
    table = {}
    for path in an.paths(sub):
        if path.kind != 'return':
            continue
        conds = []
        for event in path.events:
            if event.kind == 'test' and event.depth == 0:
                conds.append((ast.unparse(event.node), event['value']))
            elif event.kind == 'handler':
                conds.append(('except ' + event['exc'].replace('ext:', ''), True))
        table[tuple(conds)] = ast.unparse(path.outcome[1])
    c, s = sparams[0], sparams[1]
    same = '%s is %s' % (c, s)
    tmpl = None
    for conds in table:
        for text, _v in conds:
            if 'template' in text and '==' in text:
                tmpl = text
    want_table = {
        ((same, True),): 'True',
        ((same, False), ('except AttributeError', True)): 'False',
        ((same, False), (tmpl, True), ('%s.specialisations is None' % c, True)): 'True',
        ((same, False), (tmpl, True), ('%s.specialisations is None' % c, False)):
            '%s._subclasscheck_specialisation(%s)' % (c, s),
        ((same, False), (tmpl, False)): 'False',
    }
    tmpl_ok = tmpl is not None and equal_bool(
        tmpl.replace('template', '%s.template' % s, 1) if tmpl.startswith('template')
        else tmpl, '%s.template == %s.template' % (s, c))
    src = rules.local_values(sub.fn, 'template')
    tmpl_ok = tmpl_ok and len(src) == 1 and src[0] is not None and \
        ast.unparse(src[0]) == '%s.template' % s
    check.instance('B', '__subclasscheck__:path-table', table == want_table and tmpl_ok,
                   where_fn(sub.fn), 'identity -> True; no template -> False; same template: '
                   'unspecialised -> True else the specialisation predicate; other template '
                   '-> False (%d return paths)' % len(table), analysed=len(table))
    inst = an.method(META, '__instancecheck__')
    rets = [n for n in ast.walk(inst.node) if isinstance(n, ast.Return)]
    iparams = [a.arg for a in inst.node.args.args]
    check.instance('B', '__instancecheck__', len(rets) == 1 and ast.unparse(
        rets[0].value) == '%s.__subclasscheck__(type(%s))' % tuple(iparams),
        where_fn(inst), 'isinstance delegates to issubclass(type(instance), cls)')
    # ---- N ------------------------------------------------------------------
    getspec = an.callee(META, '_get_specialisation')
    gfn = getspec.fn
    key_defs = [n for n in ast.walk(gfn.node) if isinstance(n, ast.Assign)
                and isinstance(n.value, ast.Call)
                and ast.unparse(n.value.func) == 'frozenset']
    item = gfn.node.args.args[1].arg
    key = ast.unparse(key_defs[0].targets[0]) if key_defs else '?'
    check.instance('N', 'key=frozenset(item)', len(key_defs) == 1 and
                   ast.unparse(key_defs[0].value) == 'frozenset(%s)' % item, where_fn(gfn),
                   'order and multiplicity of the listed types are irrelevant')
    hit = miss = False
    for path in an.paths(getspec):
        if path.kind != 'return':
            continue
        looked = [i for i, e in enumerate(path.events) if e.kind == 'subscript'
                  or (e.kind == 'handler' and e['exc'] == 'ext:KeyError')]
        created = [i for i, e in enumerate(path.events) if e.kind == 'call'
                   and isinstance(e.node, ast.Call)
                   and rules.text_at(path, e, e.node.func) == 'MetaConcurrent']
        stored = [i for i, e in enumerate(path.events) if e.kind == 'store'
                  and e.get('base') and e['base'].endswith('__specialisations__')]
        if created:
            miss = True
            ok = bool(stored) and created[0] < stored[0] and any(
                e.kind == 'handler' and e['exc'] == 'ext:KeyError'
                for e in path.events[:created[0]]) and \
                ast.unparse(path.events[stored[0]].node.slice) == key
            check.instance('N', 'miss:create-and-store-under-key', ok, where_fn(gfn),
                           'a class is created only after the lookup missed and is stored '
                           'under the same key', path=rules.path_lines(path))
        else:
            hit = True
            check.instance('N', 'hit:returns-cached', not stored, where_fn(gfn),
                           'an existing specialisation is returned (identical class)',
                           path=rules.path_lines(path))
    check.instance('N', 'hit-and-miss', hit and miss, where_fn(gfn),
                   'both the cached and the creating path exist')
    incl = [n for n in ast.walk(gfn.node) if isinstance(n, ast.Assign)
            and ast.unparse(n.targets[0]) == 'inclusive']
    check.instance('N', 'inclusive=(... in key)', len(incl) == 1 and
                   ast.unparse(incl[0].value) == '... in %s' % key, where_fn(gfn),
                   'a trailing ... makes the specialisation inclusive')
    specs = [n for n in ast.walk(gfn.node) if isinstance(n, ast.Assign)
             and ast.unparse(n.targets[0]) == 'specialisations']
    ok = False
    if len(specs) == 1 and isinstance(specs[0].value, ast.Call) and \
            ast.unparse(specs[0].value.func) == 'tuple' and \
            isinstance(specs[0].value.args[0], ast.GeneratorExp):
        gen = specs[0].value.args[0]
        comp = gen.generators[0]
        var = ast.unparse(comp.target)
        ok = ast.unparse(comp.iter) == key and ast.unparse(gen.elt) == var and \
            len(comp.ifs) == 1 and equal_bool(comp.ifs[0], '%s is not ...' % var)
    check.instance('N', 'specialisations-exclude-ellipsis', ok, where_fn(gfn),
                   'the listed types are the key without ...')
    created = [n for n in ast.walk(gfn.node) if isinstance(n, ast.Call)
               and ast.unparse(n.func) == 'MetaConcurrent']
    kws = {kw.arg: ast.unparse(kw.value) for kw in created[0].keywords} if created else {}
    bases = ast.unparse(created[0].args[1]) if created and len(created[0].args) > 1 else '?'
    check.instance('N', 'created-class-carries-spec', kws == {
        'specialisations': 'specialisations', 'inclusive': 'inclusive'}, where_fn(gfn),
        'the new class records its specialisations and inclusiveness')
    new = an.method(CONCURRENT, '__new__')
    picks = [n for n in ast.walk(new.node) if isinstance(n, ast.Subscript)
             and isinstance(n.ctx, ast.Load) and isinstance(n.slice, ast.Call)
             and ast.unparse(n.slice.func) == 'tuple']
    vararg = new.node.args.vararg.arg if new.node.args.vararg else '?'
    ok = False
    if len(picks) == 1 and isinstance(picks[0].slice.args[0], ast.GeneratorExp):
        gen = picks[0].slice.args[0]
        comp = gen.generators[0]
        ok = ast.unparse(comp.iter) == vararg and not comp.ifs and \
            ast.unparse(gen.elt) == 'type(%s)' % ast.unparse(comp.target)
    check.instance('N', 'Concurrent.__new__:by-child-types', ok, where_fn(new),
                   'Concurrent(*children) is of type cls[tuple(type(child) for child in '
                   'children)]')
    getitem = an.callee(META, '__getitem__')
    rets = {}
    for path in an.paths(getitem):
        if path.kind == 'return':
            rets[ast.unparse(path.outcome[1])] = path
    ok = set(rets) == {getitem.fn.node.args.args[0].arg,
                       '%s._get_specialisation(%s)' % (
                           getitem.fn.node.args.args[0].arg,
                           getitem.fn.node.args.args[1].arg)}
    check.instance('N', '__getitem__', ok, where_fn(getitem.fn),
                   'Cls[...] is Cls itself; everything else goes through '
                   '_get_specialisation: %s' % sorted(rets))
    # ---- X ------------------------------------------------------------------
    is_exception = 'ext:BaseException' in an.cls(CONCURRENT).mro
    overrides = an.p.find_method(META, '__subclasscheck__') is not None
    related = bases != '(cls,)' and 'specialisations' in bases
    check.instance('X', 'MetaConcurrent.__subclasscheck__:except-clause-agreement',
                   not (is_exception and overrides) or related, where_fn(gfn),
                   'Concurrent derives from BaseException and its metaclass overrides '
                   '__subclasscheck__, but every specialisation is created with bases %s: '
                   'two specialisations that match each other are siblings, so an `except` '
                   'clause (which uses the real MRO) disagrees with isinstance/issubclass'
                   % bases)
    # ---- L ------------------------------------------------------------------
    flat = an.method(CONCURRENT, 'flattened')
    loops = [n for n in ast.walk(flat.node) if isinstance(n, ast.For)]
    ok = False
    detail = 'loop over the children not found'
    if len(loops) == 1 and ast.unparse(loops[0].iter) == 'self.children':
        loop = loops[0]
        var = ast.unparse(loop.target)
        branches = [n for n in loop.body if isinstance(n, ast.If)]
        if len(branches) == 1 and len(loop.body) == 1:
            br = branches[0]
            nested = ast.unparse(br.test) == 'isinstance(%s, Concurrent)' % var
            ext = len(br.body) == 1 and ast.unparse(br.body[0]).endswith(
                '.extend(%s.flattened().children)' % var)
            app = len(br.orelse) == 1 and ast.unparse(br.orelse[0]).endswith(
                '.append(%s)' % var)
            target = ast.unparse(br.body[0]).split('.extend')[0] if ext else '?'
            made = [n for n in ast.walk(flat.node) if isinstance(n, ast.Call)
                    and ast.unparse(n.func) == 'Concurrent']
            built = len(made) == 1 and [ast.unparse(a) for a in made[0].args] == [
                '*%s' % target]
            ok = nested and ext and app and built
            detail = ('nested failures are flattened recursively in place (%s, %s), leaves '
                      'are appended in order (%s), the result is Concurrent(*leafs) (%s)'
                      % (nested, ext, app, built))
    check.instance('L', 'flattened', ok, where_fn(flat), detail)
    check.stats.update(an.stats())
