"""
C17 -- Concurrent[...] handlers select exactly the documented sets of failures.

Structural clauses decided (DESIGN.md section 5/C17):
  B  the matching predicate, as a boolean normal form compared by truth table:
     _subclasscheck_specialisation == (all listed types matched by some child) and
     (inclusive or all children match some listed type); the path table of
     __subclasscheck__ (identity / same template / unspecialised / delegate);
     __instancecheck__ delegates with type(instance)
  N  normalisation: the cache key is frozenset(item); lookup precedes creation; a created
     class is stored under that key; inclusive == (... in key); the specialisations exclude
     ``...``; Concurrent.__new__ specialises by type(child) of every child
  X  except-clause agreement: the interpreter matches ``except`` through the real MRO only;
     every pair the metaclass predicate accepts must therefore also be related by real
     inheritance
  L  flattened(): in-order traversal, leaves appended in order, recursion on nested ones
"""
import ast

from ..engine import Analysis, is_call_to, short, where_fn, tested, key_truth
from ..model import AnalysisError
from ..norm import bool_term, equivalent_terms, function_predicate, equal_bool
from ..types import Callee
from .. import rules

PROP = 'C17'
META = 'usim._primitives.concurrent_exception.MetaConcurrent'
CONCURRENT = 'usim._primitives.concurrent_exception.Concurrent'


def check_children_fixed(check, an: Analysis, rule: str):
    """the class of a Concurrent is chosen from its children when it is made: the children
    are set by its constructor and never again, anywhere in the package (a failure whose
    children change afterwards keeps a class that no longer describes them)"""
    writers = []
    for fn in an.p.functions.values():
        if isinstance(fn.node, ast.Lambda):
            continue
        for node in rules._walk_own(fn.node):
            targets = []
            if isinstance(node, ast.Assign):
                targets = node.targets
            elif isinstance(node, (ast.AugAssign, ast.AnnAssign)):
                targets = [node.target]
            elif isinstance(node, ast.Delete):
                targets = node.targets
            for target in targets:
                for sub in ast.walk(target):
                    if isinstance(sub, ast.Attribute) and sub.attr == 'children' and \
                            isinstance(sub.ctx, (ast.Store, ast.Del)):
                        writers.append((fn, node))
            if isinstance(node, ast.Call) and isinstance(node.func, ast.Name) and \
                    node.func.id == 'setattr' and len(node.args) >= 2 and isinstance(
                        node.args[1], ast.Constant) and node.args[1].value == 'children':
                writers.append((fn, node))
    foreign = [(fn, node) for fn, node in writers
               if not (fn.cls is not None and fn.cls.qn == CONCURRENT
                       and fn.name in ('__init__', '__new__'))]
    check.instance(rule, 'Concurrent.children:set-once', bool(writers) and not foreign,
                   '%s:%d' % (foreign[0][0].module.relpath, foreign[0][1].lineno)
                   if foreign else where_fn(an.method(CONCURRENT, '__init__')),
                   '`children` is written by the constructor of Concurrent only (%d writers '
                   'in the package%s)' % (len(writers), '' if not foreign else
                                          '; also by %s' % short(foreign[0][0].qn)))


def run(check, an: Analysis):
    check.rule('B', 'matching predicate equals the documented formula (truth-table over '
                    'normal forms); path table of __subclasscheck__; __instancecheck__')
    check.rule('N', 'specialisations are normalised through frozenset keys and cached; '
                    'Concurrent(...) specialises by the types of its children')
    check.rule('X', 'every pair accepted by the metaclass predicate is related by real '
                    'inheritance (what `except` uses)')
    check.rule('L', 'flattened() keeps leaves and their order')
    an.cls(META)
    an.cls(CONCURRENT)
    # ---- B ------------------------------------------------------------------
    spec = an.method(META, '_subclasscheck_specialisation')
    params = [a.arg for a in spec.node.args.args]
    cls_n, sub_n = params[0], params[1]
    got = function_predicate(spec.node)
    want = bool_term(ast.parse(
        'all(any(issubclass(c, s) for c in {sub}.specialisations) '
        'for s in {cls}.specialisations) and ({cls}.inclusive or '
        'all(issubclass(c, {cls}.specialisations) for c in {sub}.specialisations))'.format(
            cls=cls_n, sub=sub_n), mode='eval').body)
    check.instance('B', '_subclasscheck_specialisation', got is not None and
                   equivalent_terms(got, want), where_fn(spec),
                   'every listed type is matched by some child, and (inclusive or every '
                   'child matches some listed type)')
    sub = an.callee(META, '__subclasscheck__')
    sparams = [a.arg for a in sub.fn.node.args.args]
    c, s = sparams[0], sparams[1]
    table_ok, guard_ok, n_rows, bad = True, True, 0, None
    rows = set()
    for path in an.paths(sub):
        if path.kind != 'return':
            continue
        n_rows += 1
        # what the method itself tested on this path (not its helper)
        facts, caught = {}, False
        for event in path.events:
            if event.fn is not sub.fn:
                continue
            if event.kind == 'test' and event.depth == 0 and event.get('key') is not None:
                facts[event['key']] = key_truth(event)
            elif event.kind == 'handler' and 'AttributeError' in event['exc']:
                caught = True
        same = facts.get(('is',) + tuple(sorted((c, s))))
        template = [v for k, v in facts.items() if k[0] == 'eq' and 'template' in k[1]
                    and 'template' in k[2]]
        bare_cls = facts.get(('isnone', '%s.specialisations' % c))
        bare_sub = facts.get(('isnone', '%s.specialisations' % s))
        got = ast.unparse(path.outcome[1])
        if same is True:
            want, row = 'True', 'identical'
        elif caught:
            want, row = 'False', 'not-a-template'
        elif template == [False]:
            want, row = 'False', 'other-template'
        elif template == [True] and bare_cls is True:
            want, row = 'True', 'bare-superclass'
        elif template == [True] and bare_cls is False and bare_sub is True:
            want, row = 'False', 'bare-subclass'
        elif template == [True] and bare_cls is False:
            want, row = '%s._subclasscheck_specialisation(%s)' % (c, s), 'specialised'
            # the predicate walks the children of both: neither may be the bare class
            if bare_sub is not False:
                guard_ok = False
                bad = bad or path
        else:
            want, row = '?', 'unexpected'
        rows.add(row)
        if got != want:
            table_ok = False
            bad = bad or path
    tmpl_src = rules.local_values(sub.fn, 'template')
    tmpl_ok = len(tmpl_src) != 1 or (tmpl_src[0] is not None and
                                      ast.unparse(tmpl_src[0]) == '%s.template' % s)
    check.instance('B', '__subclasscheck__:path-table', table_ok and tmpl_ok and
                   {'identical', 'not-a-template', 'other-template', 'bare-superclass',
                    'specialised'} <= rows and 'unexpected' not in rows,
                   where_fn(sub.fn), 'identity -> True; no template -> False; same template: '
                   'unspecialised superclass -> True, unspecialised subclass -> False, else '
                   'the specialisation predicate; other template -> False (%d return paths: '
                   '%s)' % (n_rows, sorted(rows)), analysed=n_rows,
                   path=rules.path_lines(bad) if bad and not table_ok else None)
    check.instance('B', '__subclasscheck__:children-present', guard_ok,
                   where_fn(sub.fn), 'the specialisation predicate walks '
                   '`.specialisations` of both classes: it is only reached when neither is '
                   'the bare class (whose specialisations are None)',
                   path=rules.path_lines(bad) if bad and not guard_ok else None)
    inst = an.callee(META, '__instancecheck__')
    iparams = [a.arg for a in inst.fn.node.args.args]
    forms = {rules.value_text(p, len(p.events), p.outcome[1]) for p in an.paths(inst)
             if p.kind == 'return' and p.outcome[1] is not None}
    check.instance('B', '__instancecheck__', forms == {
        '%s.__subclasscheck__(type(%s))' % tuple(iparams)}, where_fn(inst.fn),
        'isinstance delegates to issubclass(type(instance), cls): %s' % sorted(forms))
    # ---- N ------------------------------------------------------------------
    getspec = an.callee(META, '_get_specialisation')
    gfn = getspec.fn
    me, item = gfn.node.args.args[0].arg, gfn.node.args.args[1].arg
    KEY = 'frozenset(%s)' % item
    hit = miss = False
    key_ok, n_key = True, 0
    created_ok, n_created, bases = True, 0, '?'
    for path in an.paths(getspec):
        if path.kind != 'return':
            continue
        events = path.events
        lookups = [(i, e) for i, e in enumerate(events) if e.kind == 'subscript'
                   or (e.kind == 'handler' and e['exc'] == 'ext:KeyError')]
        created = [(i, e) for i, e in enumerate(events) if e.kind == 'call'
                   and isinstance(e.node, ast.Call)
                   and rules.text_at(path, e, e.node.func) == 'MetaConcurrent']
        stored = [(i, e) for i, e in enumerate(events) if e.kind == 'store'
                  and isinstance(e.node, ast.Subscript)
                  and rules.value_text(path, i, e.node.value).endswith('__specialisations__')]
        reads = [(i, e) for i, e in enumerate(events) if e.kind == 'subscript'
                 and isinstance(e.node, ast.Subscript)
                 and rules.value_text(path, i, e.node.value).endswith('__specialisations__')]
        for i, e in stored + reads:
            n_key += 1
            key_ok &= rules.value_text(path, i, e.node.slice) == KEY
        for i, e in enumerate(events):
            # successful look-ups show as the value that is stored or returned
            value = e.data.get('value') if e.kind == 'store' else None
            if isinstance(value, ast.Subscript) and rules.value_text(
                    path, i, value.value).endswith('__specialisations__'):
                n_key += 1
                key_ok &= rules.value_text(path, i, value.slice) == KEY
        returned = rules.value_expr(path, len(events), path.outcome[1])
        if created:
            miss = True
            at, call = created[0]
            missed = any(e.kind == 'handler' and e['exc'] == 'ext:KeyError'
                         for e in events[:at])
            ok = len(created) == 1 and len(stored) == 1 and at < stored[0][0] and missed \
                and stored[0][1]['value'] is not None and rules.value_expr(
                    path, stored[0][0], stored[0][1]['value']) is not None and \
                ast.unparse(rules.value_expr(path, stored[0][0], stored[0][1]['value'])) \
                == ast.unparse(returned)
            check.instance('N', 'miss:create-and-store-under-key', ok, where_fn(gfn),
                           'a class is created only after the lookup missed, stored under '
                           'the same key and returned', path=rules.path_lines(path))
            # what the new class is made of
            n_created += 1
            node = call.node
            kws = {kw.arg: rules.value_expr(path, at, kw.value) for kw in node.keywords}
            incl = kws.get('inclusive')
            good = incl is not None and ast.unparse(incl) == '... in %s' % KEY
            spec = kws.get('specialisations')
            seq = rules.mapped_sequence(None, spec) if spec is not None else None
            good &= seq is not None and seq[0] == KEY and seq[1] == 'x_' and \
                seq[2] is not None and equal_bool(ast.parse(seq[2], mode='eval').body,
                                                  'x_ is not ...')
            good &= set(kws) == {'specialisations', 'inclusive'}
            created_ok &= bool(good)
            if len(node.args) > 1:
                bases = rules.value_text(path, at, node.args[1])
        else:
            hit = True
            check.instance('N', 'hit:returns-cached', not stored and
                           ast.unparse(returned) == '%s.__specialisations__[%s]' % (me, KEY),
                           where_fn(gfn),
                           'an existing specialisation is returned (identical class)',
                           path=rules.path_lines(path))
    check.instance('N', 'key=frozenset(item)', key_ok and n_key > 0, where_fn(gfn),
                   'the cache is read and written under frozenset(item): order and '
                   'multiplicity of the listed types are irrelevant (%d accesses on paths)'
                   % n_key, analysed=n_key)
    check.instance('N', 'hit-and-miss', hit and miss, where_fn(gfn),
                   'both the cached and the creating path exist')
    check.instance('N', 'created-class-carries-spec', created_ok and n_created > 0,
                   where_fn(gfn), 'the new class records inclusive = (... in key) and '
                   'specialisations = the key without ... (%d creations on paths)'
                   % n_created, analysed=n_created)
    new = an.callee(CONCURRENT, '__new__')
    vararg = new.fn.node.args.vararg.arg if new.fn.node.args.vararg else '?'
    ok, n_pick = True, 0
    for path in an.paths(new):
        for index, event in enumerate(path.events):
            picked = event.data.get('value') if event.kind == 'store' else (
                event.node if event.kind == 'subscript' else None)
            if isinstance(picked, ast.Subscript) and \
                    rules.value_text(path, index, picked.value) == \
                    new.fn.node.args.args[0].arg:
                n_pick += 1
                chosen = rules.value_expr(path, index, picked.slice)
                seq = rules.mapped_sequence(new.fn.node, chosen)
                ok &= seq == (vararg, 'type(x_)', None) and isinstance(
                    chosen, ast.Call) and ast.unparse(chosen.func) == 'tuple'
    # ... on every path that is given children: no way through __new__ makes an instance
    # of the class as called (whose specialisation need not be the children's types)
    cls_n = new.fn.node.args.args[0].arg
    n_made, as_called = 0, None
    for path in an.paths(new):
        if path.kind != 'return' or path.outcome[1] is None:
            continue
        empty = any(e.kind == 'test' and e.get('key') == ('truth', vararg)
                    and key_truth(e) is False for e in path.events)
        made = rules.value_expr(path, len(path.events), path.outcome[1])
        if isinstance(made, ast.Call) and made.args:
            n_made += 1
            of = ast.unparse(made.args[0])
            if not empty and of == cls_n:
                as_called = as_called or path
    check.instance('N', 'Concurrent.__new__:never-the-class-as-called', as_called is None
                   and n_made >= 2, where_fn(new.fn),
                   'with children, the instance is made of the class looked up for their '
                   'types, never of `%s` as called (%d constructions on paths)' % (
                       cls_n, n_made),
                   path=rules.path_lines(as_called) if as_called else None, analysed=n_made)
    check.instance('N', 'Concurrent.__new__:by-child-types', ok and n_pick > 0,
                   where_fn(new.fn), 'Concurrent(*children) is of type cls[tuple(type(child) '
                   'for child in children)] (%d specialisations on paths)' % n_pick)
    check_children_fixed(check, an, 'N')
    # one table per template, for the whole process: the table `_get_specialisation` looks
    # up and stores into is an attribute bound in the body of the template class -- not a
    # property or a lookup that may answer with another table for another thread or run
    table = an.cls(CONCURRENT).attrs.get('__specialisations__')
    computed = an.p.find_method(META, '__specialisations__') or \
        an.p.find_method(CONCURRENT, '__specialisations__')
    check.instance('N', 'Concurrent.__specialisations__:one-table',
                   isinstance(table, ast.Call) and computed is None,
                   where_fn(an.method(CONCURRENT, '__init__')),
                   'the cache of specialisations is one object made in the class body of '
                   'the template (%s), not computed on access (%s)' % (
                       ast.unparse(table) if table is not None else None,
                       computed is not None))
    getitem = an.callee(META, '__getitem__')
    rets = {}
    me_n, item_n = [a.arg for a in getitem.fn.node.args.args[:2]]
    ok, bad = True, None
    for path in an.paths(getitem):
        if path.kind != 'return':
            continue
        end = len(path.events)
        value = path.outcome[1]
        if isinstance(value, ast.Call) and not value.keywords and len(value.args) == 1 \
                and not isinstance(value.args[0], ast.Starred):
            # the call as written, with the argument that reaches it on this path (the
            # callee may run in place on rule paths: not looked into here)
            got = '%s(%s)' % (ast.unparse(value.func),
                              rules.value_text(path, end, value.args[0]))
        else:
            got = rules.value_text(path, end, value) if value is not None else 'None'
        rets[got] = path
        # what the method itself tested about the item it was given (before it re-binds
        # the name to the normalised tuple)
        atoms = {}
        for event in path.events:
            if event.kind == 'store' and event.fn is getitem.fn and \
                    event.data.get('path') == item_n:
                break
            if event.kind == 'test' and event.fn is getitem.fn and \
                    event.get('key') is not None:
                atoms.setdefault(event['key'], key_truth(event))
        ellipsis = atoms.get(('is', *sorted(('...', item_n))))
        if ellipsis is None:
            ellipsis = atoms.get(('is', *sorted(('Ellipsis', item_n))))
        is_tuple = None
        for key in (('is', *sorted(('tuple', 'type(%s)' % item_n))),
                    ('eq', 'type(%s)' % item_n, 'tuple')):
            if atoms.get(key) is not None:
                is_tuple = atoms[key]
        if is_tuple is None and atoms.get(
                ('truth', 'isinstance(%s, tuple)' % item_n)) is not None:
            is_tuple = atoms[('truth', 'isinstance(%s, tuple)' % item_n)]
        if ellipsis is True:
            want = {me_n}
        elif is_tuple is True:
            want = {'%s._get_specialisation(%s)' % (me_n, item_n)}
        elif is_tuple is False:
            want = {'%s._get_specialisation((%s,))' % (me_n, item_n)}
        else:
            want = set()
        if got not in want:
            ok, bad = False, bad or path
    check.instance('N', '__getitem__', ok and len(rets) >= 3, where_fn(getitem.fn),
                   'Cls[...] (and only that) is Cls itself; a single type is specialised '
                   'as the 1-tuple of it, a tuple as it is -- whatever it lists: %s'
                   % sorted(rets), path=rules.path_lines(bad) if bad else None)
    # ---- X ------------------------------------------------------------------
    is_exception = 'ext:BaseException' in an.cls(CONCURRENT).mro
    overrides = an.p.find_method(META, '__subclasscheck__') is not None
    related = bases != '(%s,)' % me and 'specialisations' in bases
    check.instance('X', 'MetaConcurrent.__subclasscheck__:except-clause-agreement',
                   not (is_exception and overrides) or related, where_fn(gfn),
                   'Concurrent derives from BaseException and its metaclass overrides '
                   '__subclasscheck__, but every specialisation is created with bases %s: '
                   'two specialisations that match each other are siblings, so an `except` '
                   'clause (which uses the real MRO) disagrees with isinstance/issubclass'
                   % bases)
    # ---- L ------------------------------------------------------------------
    flat = an.callee(CONCURRENT, 'flattened')
    CHILDREN = 'self.children'

    def nested(it, upto=None):
        return it.atoms(upto=upto).get(('truth', 'isinstance(%s, Concurrent)' % it.var))
    ok_self, ok_build, n_self, n_build, bad = True, True, 0, 0, None
    for path in an.paths(flat):
        if path.kind != 'return':
            continue
        its = [it for it in rules.iterations(path) if it.source == CHILDREN]
        returned = rules.value_expr(path, len(path.events), path.outcome[1])
        if ast.unparse(returned) == 'self':
            # nothing nested: some complete pass over the children found no Concurrent
            n_self += 1
            passes = {}
            for it in its:
                passes.setdefault(id(it.node), []).append(it)
            good = any(rules.loop_completed(path, g[0].node) and all(
                nested(it) is False for it in g) for g in passes.values()) or \
                (not its and any(e.kind == 'iter-end' for e in path.events))
            if not good:
                ok_self, bad = False, bad or (path, len(path.events) - 1)
            continue
        # a new Concurrent of the leaves, in order
        n_build += 1
        made = [(i, e) for i, e in enumerate(path.events) if e.kind == 'call'
                and isinstance(e.node, ast.Call)
                and rules.text_at(path, e, e.node.func) == 'Concurrent']
        good = len(made) == 1 and len(made[0][1].node.args) == 1 and isinstance(
            made[0][1].node.args[0], ast.Starred) and isinstance(
            made[0][1].node.args[0].value, ast.Name)
        target = made[0][1].node.args[0].value.id if good else '?'
        filled = 0
        for it in its:
            ops = [(i, e) for i, e in it.events() if e.kind == 'call'
                   and isinstance(e.node, ast.Call)
                   and isinstance(e.node.func, ast.Attribute)
                   and isinstance(e.node.func.value, ast.Name)
                   and e.node.func.value.id == target]
            if not ops:
                continue   # a pass that only looks for nested failures
            filled += 1
            good = good and len(ops) == 1
            if not good:
                break
            pos, op = ops[0]
            arg = ast.unparse(op.node.args[0]) if len(op.node.args) == 1 else '?'
            inner = nested(it, upto=pos)
            if inner is True:
                good = op.node.func.attr == 'extend' and \
                    arg == '%s.flattened().children' % it.var
            elif inner is False:
                good = op.node.func.attr == 'append' and arg == it.var
            else:
                good = False
        building = [it for it in its if any(
            e.kind == 'call' and isinstance(e.node, ast.Call)
            and isinstance(e.node.func, ast.Attribute)
            and isinstance(e.node.func.value, ast.Name) and e.node.func.value.id == target
            for _i, e in it.events())]
        good = good and bool(building) and rules.loop_completed(path, building[0].node) and \
            len({id(it.node) for it in building}) == 1 and \
            building[-1].stop <= (made[0][0] if made else 0)
        if not good:
            ok_build, bad = False, bad or (path, len(path.events) - 1)
    check.instance('L', 'flattened', ok_self and ok_build and n_self > 0 and n_build > 0,
                   where_fn(flat.fn), 'without nested failures the exception itself; '
                   'otherwise Concurrent(*leafs): one in-order pass over the children, '
                   'nested ones extended by their flattened children, leaves appended '
                   '(%d + %d return paths)' % (n_self, n_build),
                   path=rules.path_lines(*bad) if bad else None)
    check.stats.update(an.stats())
