"""
C01 -- virtual time is monotone; every timed wait resumes at exactly its date.

Structural lemmas decided (DESIGN.md section 5/C01); each is a necessary condition:
  L1  the clock is written only by the loop, with the key popped from the wait queue
  L2  both wait-queue classes pop the smallest key together with its deque
  L3  nothing is scheduled into the past: every dated ``schedule`` is dominated by the
      positivity of its delay / futurity of its date (test, class invariant, assertion)
  L4  same-time work: the popped deque is drained until empty before the next pop;
      undated scheduling appends to that very deque
  L5  plumbing: delays and dates reach the loop unchanged (keywords not swapped)
  L6  comparison table: truth terms of After/Before/Moment and, per ordering of clock and
      date, the action their ``__await__`` takes (postpone / wait until the date / forever)
  L7  optional dates are tested with ``is None``, never by truthiness
"""
import ast

from ..engine import Analysis, is_call_to, is_suspension, short, where_fn, tested, key_truth
from ..model import AnalysisError
from ..norm import equal_algebra, equal_bool, bool_term
from ..types import Callee, Frame
from .. import rules

PROP = 'C01'
LOOP = 'usim._core.loop.Loop'
HQ = 'usim._core.waitq.HQWaitQueue'
SD = 'usim._core.waitq.SDWaitQueue'
TIMING = 'usim._primitives.timing'
AFTER, BEFORE, MOMENT = TIMING + '.After', TIMING + '.Before', TIMING + '.Moment'
ETERNITY, INSTANT, DELAY = TIMING + '.Eternity', TIMING + '.Instant', TIMING + '.Delay'
TIME = TIMING + '.Time'
NOTIFICATION = 'usim._primitives.notification.Notification'
ORDERINGS = ('lt', 'eq', 'gt')  # clock < date, clock == date, clock > date


# ----------------------------------------------------------------- L6 helpers
def bool_expr(an: Analysis, cls_qn: str):
    """the expression returned by ``cls.__bool__`` (single return statement)"""
    method = an.p.find_method(cls_qn, '__bool__')
    if method is None:
        raise AnalysisError('%s.__bool__ not found' % cls_qn)
    returns = [n for n in ast.walk(method.node) if isinstance(n, ast.Return)]
    if len(returns) != 1 or returns[0].value is None:
        raise AnalysisError('%s.__bool__ is not a single return' % cls_qn)
    return returns[0].value, method


def eval_time_test(an: Analysis, node, recv: str, fn, order: str):
    """truth of a test about clock vs date under an ordering, None if not about time"""
    if isinstance(node, ast.Constant):
        return bool(node.value)
    if isinstance(node, ast.UnaryOp) and isinstance(node.op, ast.Not):
        inner = eval_time_test(an, node.operand, recv, fn, order)
        return None if inner is None else not inner
    if isinstance(node, ast.BoolOp):
        values = [eval_time_test(an, v, recv, fn, order) for v in node.values]
        if any(v is None for v in values):
            return None
        return all(values) if isinstance(node.op, ast.And) else any(values)
    if isinstance(node, ast.Name) and node.id == 'self':
        expr, method = bool_expr(an, recv)
        return eval_time_test(an, expr, method.cls.qn if method.cls else recv, method, order)
    if isinstance(node, ast.Attribute) and isinstance(node.value, ast.Name) \
            and node.value.id == 'self':
        types = an.te.attr_type(recv, node.attr)
        classes = an.te.classes_of(types)
        if len(classes) == 1 and an.p.is_subclass(classes[0],
                                                  'usim._primitives.condition.Condition'):
            expr, method = bool_expr(an, classes[0])
            return eval_time_test(an, expr, classes[0], method, order)
        return None
    if isinstance(node, ast.Compare) and len(node.ops) == 1:
        left, right = node.left, node.comparators[0]
        op = node.ops[0]
        lt_time = rules.is_current_time(left, fn)
        rt_time = rules.is_current_time(right, fn)
        l_date = ast.unparse(left) == 'self.date'
        r_date = ast.unparse(right) == 'self.date'
        if lt_time and r_date:
            pass
        elif rt_time and l_date:
            op = {ast.Lt: ast.Gt, ast.Gt: ast.Lt, ast.LtE: ast.GtE, ast.GtE: ast.LtE,
                  ast.Eq: ast.Eq, ast.NotEq: ast.NotEq}.get(type(op), type(None))()
        else:
            return None
        table = {ast.Lt: ('lt',), ast.LtE: ('lt', 'eq'), ast.Gt: ('gt',),
                 ast.GtE: ('gt', 'eq'), ast.Eq: ('eq',), ast.NotEq: ('lt', 'gt')}
        allowed = table.get(type(op))
        if allowed is None:
            return None
        return order in allowed
    return None


def _inline_sync(callee: Callee, depth: int) -> bool:
    return callee.fn.kind == 'sync' and not callee.fn.is_property and \
        callee.fn.name not in ('__init__', '__new__', 'schedule', '__bool__')


def feasible(an: Analysis, path, recv: str, order: str, stop_at_suspension=True) -> bool:
    """whether every time test before the first suspension agrees with the ordering"""
    frames = [recv]
    for index, event in enumerate(path.events):
        if event.kind == 'enter':
            frames.append(event['callee'].recv or frames[-1])
        elif event.kind == 'leave':
            if len(frames) > 1:
                frames.pop()
        elif event.kind == 'susp' and is_suspension(event) and stop_at_suspension:
            return True
        elif event.kind in ('test', 'retval'):
            cur = event.recv or frames[-1]
            node = event.node
            if isinstance(node, ast.Name):
                # a local that holds an attribute of self read in this atomic block
                node = rules.value_expr(path, index, node)
            expected = eval_time_test(an, node, cur, event.fn, order)
            if expected is not None and expected != event['value']:
                return False
    return True


_FLAGS = {}


def _dated_trigger(path, index, event) -> bool:
    """a call that schedules something for ``self.date``"""
    return event.kind == 'call' and is_call_to(event, 'schedule') and any(
        kw.arg == 'at' and rules.value_text(path, index, kw.value) == 'self.date'
        for kw in event.node.keywords)


def scheduled_flags(an: Analysis, cls_qn: str) -> set:
    """attributes ``self.X`` of the class that are set True only in an atomic block that
    also schedules the trigger for ``self.date``: `X is True` means "trigger ensured"""
    key = (id(an), cls_qn)
    if key in _FLAGS:
        return _FLAGS[key]
    cls = an.cls(cls_qn)
    result = set()
    stores = {}
    for fn in an.p.functions.values():
        if fn.cls is not cls or fn.name == '__init__' or isinstance(fn.node, ast.Lambda):
            continue
        callee = Callee(fn, cls_qn)
        try:
            paths = an.paths(callee)
        except AnalysisError:
            continue
        for path in paths:
            for index, event in enumerate(path.events):
                if event.kind == 'store' and (event['path'] or '').startswith('self.') and \
                        isinstance(event.get('value'), ast.Constant) and \
                        event['value'].value is True:
                    block = rules.atomic_block(path, index)
                    paired = any(_dated_trigger(path, rules.event_index(path, e), e)
                                 for e in block)
                    stores.setdefault(event['path'], []).append(paired)
    for attr, paired in stores.items():
        if paired and all(paired):
            result.add(attr)
    _FLAGS.clear()
    _FLAGS[key] = result
    return result


def await_action(an: Analysis, cls_qn: str, order: str, depth=0):
    """POSTPONE / UNTIL-DATE / FOREVER for ``await cls(date)`` under an ordering"""
    callee = an.callee(cls_qn, '__await__')
    actions = set()
    witness = None
    flags = scheduled_flags(an, cls_qn)
    for path in an.paths(callee):
        if not feasible(an, path, cls_qn, order):
            continue
        first = None
        ensured = False
        for index, event in enumerate(path.events):
            if _dated_trigger(path, index, event):
                ensured = True
            if event.kind == 'test' and event.get('key') and event['key'][0] == 'truth' \
                    and event['key'][1] in flags and key_truth(event) is True:
                ensured = True  # the trigger was scheduled earlier
            if event.kind == 'susp' and event.depth == 0:
                first = event
                break
        if first is None:
            actions.add('NO-SUSPENSION')
            witness = witness or path
            continue
        if first['base']:
            action = 'FOREVER'
        elif is_call_to(first, 'postpone'):
            action = 'POSTPONE'
        elif is_call_to(first, '__await__', NOTIFICATION):
            action = 'UNTIL-DATE' if ensured else 'WAIT-WITHOUT-TRIGGER'
        elif any(c.fn.name == '__await__' and c.recv == AFTER for c in first['callees']) \
                and depth < 2:
            action = '/'.join(sorted(await_action(an, AFTER, order, depth + 1)[0]))
        else:
            action = 'OTHER:%s' % [repr(c) for c in first['callees']]
        actions.add(action)
        witness = witness or path
    return actions, witness


AWAIT_TABLE = {
    AFTER: ('UNTIL-DATE', 'POSTPONE', 'POSTPONE'),
    BEFORE: ('POSTPONE', 'FOREVER', 'FOREVER'),
    MOMENT: ('UNTIL-DATE', 'POSTPONE', 'FOREVER'),
    ETERNITY: ('FOREVER', 'FOREVER', 'FOREVER'),
    INSTANT: ('POSTPONE', 'POSTPONE', 'POSTPONE'),
}


def check_await_table(check, an: Analysis, rule='L6'):
    for cls_qn, wanted in AWAIT_TABLE.items():
        an.cls(cls_qn)
        for order, want in zip(ORDERINGS, wanted):
            actions, witness = await_action(an, cls_qn, order)
            check.instance(rule, 'await:%s/clock-%s-date' % (cls_qn.rsplit('.', 1)[-1], order),
                           actions == {want}, where_fn(an.method(cls_qn, '__await__')),
                           'action %s (expected %s)' % (sorted(actions), want),
                           path=rules.path_lines(witness) if witness and
                           actions != {want} else None)


def subscribe_action(an: Analysis, cls_qn: str, order: str):
    """IMMEDIATE / PARK / PARK+TRIGGER for ``cls.__subscribe__`` under an ordering"""
    callee = an.callee(cls_qn, '__subscribe__')
    paths = an.inlined_paths(callee, _inline_sync, 4)
    actions = set()
    witness = None
    for path in paths:
        if not path.normal or not feasible(an, path, cls_qn, order, stop_at_suspension=False):
            continue
        immediate = parked = ensured = False
        parked_where = None
        for event in path.events:
            if is_call_to(event, 'schedule'):
                call = event.node
                dated = any(kw.arg in ('delay', 'at') for kw in call.keywords)
                if dated:
                    ensured = True
                else:
                    immediate = True
            elif event.kind == 'call' and isinstance(event.node, ast.Call) and \
                    isinstance(event.node.func, ast.Attribute) and \
                    event.node.func.attr == 'append' and \
                    rules.text_at(path, event, event.node.func.value) == 'self._waiting':
                parked = True
                parked_where = event.recv
        if immediate and not parked:
            action = 'IMMEDIATE'
        elif parked and not immediate:
            action = 'PARK+TRIGGER' if ensured else 'PARK'
        else:
            action = 'immediate=%s parked=%s' % (immediate, parked)
        actions.add(action)
        witness = witness or path
    return actions, witness


SUBSCRIBE_TABLE = {
    AFTER: ('PARK+TRIGGER', 'IMMEDIATE', 'IMMEDIATE'),
    BEFORE: ('IMMEDIATE', 'PARK', 'PARK'),
    MOMENT: ('PARK+TRIGGER', 'IMMEDIATE', 'PARK'),
    ETERNITY: ('PARK', 'PARK', 'PARK'),
    INSTANT: ('IMMEDIATE', 'IMMEDIATE', 'IMMEDIATE'),
}


def check_subscribe_table(check, an: Analysis, rule='L6'):
    for cls_qn, wanted in SUBSCRIBE_TABLE.items():
        for order, want in zip(ORDERINGS, wanted):
            actions, witness = subscribe_action(an, cls_qn, order)
            # a trigger that was ensured earlier need not be ensured again
            ok = actions == {want} or (want == 'PARK+TRIGGER' and actions <= {
                'PARK+TRIGGER', 'PARK'} and 'PARK+TRIGGER' in actions)
            check.instance(rule, 'subscribe:%s/clock-%s-date' % (
                cls_qn.rsplit('.', 1)[-1], order), ok,
                where_fn(an.method(cls_qn, '__subscribe__')),
                'a subscriber is %s (expected %s): delivered at once exactly when the '
                'condition holds, parked with a trigger while it can still turn true, '
                'parked for good when it never can' % (sorted(actions), want),
                path=rules.path_lines(witness) if witness and not ok else None)


# ------------------------------------------------------------------------ run
def run(check, an: Analysis):
    check.rule('L1', 'the clock is written only by Loop.__init__/_run_events, with the key '
                     'popped from the wait queue')
    check.rule('L2', 'wait queues pop the smallest key with its own deque')
    check.rule('L3', 'every dated schedule is dominated by delay > 0 / date > now')
    check.rule('L4', 'the popped deque is drained to empty before the next pop; undated '
                     'schedule appends to it')
    check.rule('L5', 'delays/dates reach the loop unchanged')
    check.rule('L6', 'truth terms and await/subscribe action tables of the time conditions '
                     'under the three orderings of clock and date')
    check.rule('L7', 'optional dates are tested with `is None`')
    check.rule('L8', 'absolute dates reach the loop unchanged; no delay is derived from them')
    check.rule('L9', 'a timed wait that is abandoned leaves no activation behind: suspend/'
                     'postpone withdraw their wake-up on every exit (rule shared with C03)')
    an.cls(LOOP)

    # ---- L1 -----------------------------------------------------------------
    check_clock_writers(check, an, 'L1')
    check.floor('L1', 2)
    # no other object masquerades as the loop's clock source: `time.now` reads loop.time
    now = an.method(TIME, 'now')
    returns = [n for n in ast.walk(now.node) if isinstance(n, ast.Return)]
    check.instance('L1', 'time.now', len(returns) == 1 and rules.is_current_time(
        returns[0].value, now), where_fn(now), '`time.now` is the loop clock')
    _run_rest(check, an)


#: modules through which dates, delays, rates and the clock travel
TIME_MODULES = ('usim._core.loop', 'usim._core.waitq', 'usim._primitives.timing',
                'usim._primitives.notification', 'usim._primitives.task',
                'usim._primitives.context', 'usim._basics.pipe')
_COERCIONS = ('float', 'int', 'round', 'abs', 'divmod')


def check_exact_arithmetic(check, an: Analysis, rule: str, modules=TIME_MODULES):
    """dates, delays and the clock are compared and added exactly as given: the modules they
    travel through never round, truncate, convert or compare with a tolerance (no
    float()/int()/round()/abs(), nothing of `math`/`decimal`/`fractions`, no tiny epsilon
    literal) -- `float('inf')` as a literal default is the one accepted form"""
    n_calls, bad = 0, None
    for name in modules:
        module = an.p.modules.get(name)
        if module is None:
            raise AnalysisError('module %s is gone' % name)
        imported = set()
        for node in ast.walk(module.tree):
            if isinstance(node, ast.Import):
                imported.update((a.asname or a.name).split('.')[0] for a in node.names
                                if a.name.split('.')[0] in ('math', 'decimal', 'fractions',
                                                            'numbers', 'statistics'))
            elif isinstance(node, ast.ImportFrom) and not node.level and node.module and \
                    node.module.split('.')[0] in ('math', 'decimal', 'fractions',
                                                  'statistics'):
                imported.update(a.asname or a.name for a in node.names)
        shadowed = {n.id for n in ast.walk(module.tree) if isinstance(n, ast.Name)
                    and isinstance(n.ctx, ast.Store)} | {
            a.arg for n in ast.walk(module.tree) if isinstance(n, ast.arguments)
            for a in n.args + n.kwonlyargs + n.posonlyargs}
        for node in ast.walk(module.tree):
            what = None
            if isinstance(node, ast.Call):
                n_calls += 1
                func = node.func
                if isinstance(func, ast.Name) and func.id in _COERCIONS and \
                        func.id not in shadowed:
                    literal = len(node.args) == 1 and isinstance(
                        node.args[0], ast.Constant) and isinstance(node.args[0].value, str)
                    if not (func.id == 'float' and literal):
                        what = ast.unparse(node)[:50]
                elif isinstance(func, ast.Name) and func.id in imported:
                    what = ast.unparse(node)[:50]
                elif isinstance(func, ast.Attribute) and isinstance(func.value, ast.Name) \
                        and func.value.id in imported:
                    what = ast.unparse(node)[:50]
            elif isinstance(node, ast.Constant) and isinstance(node.value, float) and \
                    node.value == node.value and 0 < abs(node.value) < 1e-3:
                what = 'the tolerance literal %r' % node.value
            if what is not None and bad is None:
                bad = ('%s:%d' % (module.relpath, node.lineno), what)
    check.instance(rule, 'exact-arithmetic-on-time', bad is None and n_calls > 20 * len(modules),
                   bad[0] if bad else 'usim/**',
                   'no rounding, conversion or tolerance where dates, delays and rates are '
                   'computed (%d calls in %d modules looked at)%s' % (
                       n_calls, len(modules), '' if bad is None else ': ' + bad[1]),
                   analysed=n_calls)


def check_clock_writers(check, an: Analysis, rule: str):
    """the clock holds the start time exactly as given, then the keys popped from the
    queue exactly as queued: nothing rounds, converts or advances it"""
    for fn, stmt, target, recvs in rules.attribute_stores(an, 'time', LOOP):
        where = '%s:%d' % (fn.module.relpath, stmt.lineno)
        ok = rules.owned_by(an, fn, LOOP) and fn.name in ('__init__',
                                                                     '_run_events')
        detail = 'Loop.time written by %s' % short(fn.qn)
        if ok and fn.name == '_run_events':
            values = _stored_values(an, fn, target)
            ok = bool(values) and values <= {'self._activations.pop()[0]'}
            detail += ': the value is the key component of `self._activations.pop()`: ' \
                      '%s' % sorted(values)
        elif ok:
            value = stmt.value if isinstance(stmt, ast.Assign) else None
            ok = isinstance(value, ast.Name) and rules._is_param(fn, value.id)
            detail += ': the start time parameter'
        check.instance(rule, 'clock-writer:%s' % short(fn.qn), ok, where, detail)


def _run_rest(check, an: Analysis):
    # ---- L2 -----------------------------------------------------------------
    _check_waitqueues(check, an)

    # ---- L3 -----------------------------------------------------------------
    _check_schedule_preconditions(check, an)

    # ---- L4 -----------------------------------------------------------------
    run_events = an.callee(LOOP, '_run_events')
    check_drain(check, an, run_events, 'L4')
    schedule = an.callee(LOOP, 'schedule')
    for path in an.paths(schedule):
        if not path.normal:
            continue
        undated = any(tested(e, ('isnone', 'delay'), True) for e in path.events) and \
            any(tested(e, ('isnone', 'at'), True) for e in path.events)
        appends = [e for e in path.events if e.kind == 'call' and isinstance(
            e.node, ast.Call) and rules.text_at(path, e, e.node.func) == 'self._pending.append']
        pushes = [e for e in path.events if is_call_to(e, 'push')]
        if undated:
            check.instance('L4', 'schedule:undated->pending', len(appends) == 1 and
                           not pushes, where_fn(schedule.fn),
                           'an undated activation joins the deque being drained',
                           path=rules.path_lines(path))
    # ---- L5 -----------------------------------------------------------------
    _check_plumbing(check, an)
    # ---- L6 -----------------------------------------------------------------
    for cls_qn, want in ((AFTER, '__USIM_STATE__.loop.time >= self.date'),
                         (BEFORE, '__USIM_STATE__.loop.time < self.date'),
                         (MOMENT, '__USIM_STATE__.loop.time == self.date')):
        expr, method = bool_expr(an, cls_qn)
        got = ast.parse(rules.normalise_state_aliases(rules.expand_alias(expr, method)),
                        mode='eval').body
        check.instance('L6', 'truth:%s' % cls_qn.rsplit('.', 1)[-1], equal_bool(got, want),
                       where_fn(method), '__bool__ == `%s`: %s' % (want, ast.unparse(got)))
    for cls_qn, want in ((ETERNITY, False), (INSTANT, True)):
        expr, method = bool_expr(an, cls_qn)
        check.instance('L6', 'truth:%s' % cls_qn.rsplit('.', 1)[-1],
                       isinstance(expr, ast.Constant) and expr.value is want,
                       where_fn(method), '__bool__ is constantly %s' % want)
    init = an.method(MOMENT, '__init__')
    trans = [n for n in ast.walk(init.node) if isinstance(n, ast.Assign)
             and ast.unparse(n.targets[0]) == 'self._transition']
    check.instance('L6', 'Moment._transition', len(trans) == 1 and
                   ast.unparse(trans[0].value) == 'After(date)', where_fn(init),
                   'a moment waits for After(date) of its own date')
    for name in (AFTER, BEFORE, MOMENT):
        for fn, stmt, target, recvs in rules.attribute_stores(an, 'date', name):
            ok = fn.name == '__init__'
            check.instance('L6', 'date-writer:%s' % short(fn.qn), ok,
                           '%s:%d' % (fn.module.relpath, stmt.lineno),
                           'the date of a time condition never changes', nontrivial=False)
    check_await_table(check, an)
    check_subscribe_table(check, an)
    # After's trigger fires at its date and triggers that very condition
    n_trigger = n_activity = 0
    for fn in sorted(an.p.functions.values(), key=lambda f: f.qn):
        if fn.cls is None or fn.cls.qn != AFTER or isinstance(fn.node, ast.Lambda):
            continue
        sites = {}
        for path in an.paths(Callee(fn, AFTER)):
            for index, event in enumerate(path.events):
                if event.kind == 'call' and is_call_to(event, 'schedule') and \
                        event.fn is fn and event.node.keywords:
                    call = event.node
                    kws = {kw.arg: rules.value_text(path, index, kw.value)
                           for kw in call.keywords}
                    what = rules.value_expr(path, index, call.args[0]) if call.args else None
                    triggers = _triggers_self(an, fn, what)
                    n_activity += triggers
                    ok = kws.get('at') == 'self.date' and 'delay' not in kws and triggers
                    sites[id(call)] = (sites.get(id(call), (True,))[0] and ok, event.where)
        for ok, where in sites.values():
            n_trigger += 1
            check.instance('L6', 'After:trigger-site:%s' % fn.name, ok, where,
                           'schedule(<activity that triggers this condition>, at=self.date)')
    check.instance('L6', 'After:trigger-sites', n_trigger > 0 and
                   bool(scheduled_flags(an, AFTER)), where_fn(an.method(AFTER, '__await__')),
                   'the trigger is scheduled (%d sites) and remembered by a flag that is set '
                   'only together with it (%s)' % (n_trigger,
                                                   sorted(scheduled_flags(an, AFTER))))
    check.instance('L6', 'After._async_trigger', n_activity > 0,
                   where_fn(an.method(AFTER, '__await__')),
                   'the scheduled activity triggers the condition (%d schedules on paths)'
                   % n_activity)
    # ---- L7 -----------------------------------------------------------------
    _check_optional_dates(check, an)
    # ---- L6 (subscriptions of the other time conditions: Delay, ...) ---------
    from . import c07
    c07.check_immediacy(check, an, 'L6')
    check_exact_arithmetic(check, an, 'L5')
    # `(time >= a) & (time >= b)`: a wait for a mix of dates ends only after the whole
    # expression was seen true behind the last suspension (rule shared with C08)
    from . import c08
    for cqn in (c08.ALL, c08.ANY):
        c08._check_exit_pred(check, an, an.callee(cqn, '__await_children__'),
                             'Connective.__await_children__[%s]' % cqn.rsplit('.', 1)[-1],
                             'L6')
    # `(time >= a) & ((time >= b) | (time >= c))` is built as written: a mix of dates nested
    # in connectives of the other kind is not flattened into one (rule shared with C08)
    c08.check_connective_operators(check, an, 'L6')
    # ---- L9 -----------------------------------------------------------------
    from . import _scope, c03
    c03._check_signal_lifecycles(
        check, an, _scope.wrapper_callee(an), rule='L9',
        only=lambda fn, cls: fn.cls is None and fn.module.name == 'usim._primitives.notification')
    # the kernel rules every suspending operation rests on (shared; see _scope)
    from . import _scope as _kernel
    _kernel.check_kernel_core(check, an)
    from . import _scope as _sc
    _sc.check_until_core(check, an)
    from . import c03 as _c03
    _c03.check_activation_flags(check, an, 'L6')
    from . import c07 as _c07
    _c07.check_run_root(check, an, 'L5')
    check.stats.update(an.stats())


def _triggers_self(an: Analysis, fn, activity) -> bool:
    """
    ``activity`` (an expression in a method of a condition) makes a coroutine that calls
    ``__trigger__`` of that very condition on every normal path: a coroutine method
    ``self.m()`` triggering ``self``, or a plain coroutine function given ``self`` that
    triggers the parameter it arrives in
    """
    if not isinstance(activity, ast.Call) or activity.keywords:
        return False
    func = activity.func
    if isinstance(func, ast.Attribute) and isinstance(func.value, ast.Name) and \
            func.value.id == 'self' and not activity.args:
        method = an.p.find_method(fn.cls.qn, func.attr)
        if method is None or method.kind != 'coroutine':
            return False
        callee, subject = Callee(method, fn.cls.qn), 'self'
    elif isinstance(func, ast.Name):
        binding = an.p.resolve_dotted(fn.module, func)
        target = an.p.functions.get(binding[1]) if binding and binding[0] == 'func' else None
        if target is None or target.kind != 'coroutine' or target.cls is not None:
            return False
        params = [a.arg for a in target.node.args.posonlyargs + target.node.args.args]
        given = [i for i, a in enumerate(activity.args)
                 if isinstance(a, ast.Name) and a.id == 'self']
        if len(given) != 1 or given[0] >= len(params):
            return False
        callee, subject = Callee(target, None), params[given[0]]
    else:
        return False
    normal = [p for p in an.paths(callee) if p.normal]
    return bool(normal) and all(
        any(e.kind in ('call', 'enter') and isinstance(e.node, ast.Call)
            and isinstance(e.node.func, ast.Attribute) and e.node.func.attr == '__trigger__'
            and rules.text_at(p, e, e.node.func.value) == subject for e in p.events)
        for p in normal)


def _is_pair_of(expr, text: str) -> bool:
    """``expr`` is the pair ``text`` evaluates to: the expression itself, or ``(text[0],
    text[1])`` re-packed item by item (e.g. into a record)"""
    if ast.unparse(expr) == text:
        return True
    return isinstance(expr, ast.Tuple) and len(expr.elts) == 2 and \
        [ast.unparse(e) for e in expr.elts] == ['%s[0]' % text, '%s[1]' % text]


def check_drain(check, an: Analysis, run_events: Callee, rule: str):
    """
    between two pops of the wait queue the popped deque is published as `_pending`, taken
    from the left and tested empty before the next pop; activations are not skipped
    """
    verdict, n_seg, bad = True, 0, None
    publish_ok, left_ok = True, True
    for path in an.paths(run_events):
        pops = [i for i, e in enumerate(path.events)
                if e.kind in ('call', 'enter') and isinstance(e.node, ast.Call)
                and isinstance(e.node.func, ast.Attribute) and e.node.func.attr == 'pop'
                and 'activations' in rules.value_text(path, i, e.node.func.value)]
        for k, start in enumerate(pops):
            stop = pops[k + 1] if k + 1 < len(pops) else len(path.events)
            seg = path.events[start:stop]
            # the deque is the second item of what was popped (a pair or a record)
            deque_text = '%s[1]' % rules.value_text(path, start, path.events[start].node)
            n_seg += 1
            published = any(e.kind == 'store' and e['path'] == 'self._pending' and
                            e.data.get('value') is not None and
                            rules.value_text(path, start + seg.index(e), e['value'])
                            == deque_text for e in seg)
            publish_ok &= published
            takes = [e for e in seg if e.kind == 'call' and isinstance(e.node, ast.Call)
                     and isinstance(e.node.func, ast.Attribute)
                     and e.node.func.attr in ('popleft', 'pop', 'popright')
                     and rules.value_text(path, start + seg.index(e), e.node.func.value)
                     == deque_text]
            left_ok &= all(e.node.func.attr == 'popleft' for e in takes)
            # the next thing after the segment is only reached after testing it empty
            tests = [e for e in seg if e.kind == 'test' and rules.value_text(
                path, start + seg.index(e), e.node) == deque_text]
            drained = bool(tests) and tests[-1]['value'] is False
            if not drained and (k + 1 < len(pops) or path.normal):
                verdict = False
                bad = bad or (path, start)
    check.instance(rule, '_run_events:drain-before-next-pop', verdict and publish_ok and
                   left_ok and n_seg > 0, where_fn(run_events.fn),
                   'after every pop of the wait queue its deque is published as '
                   'self._pending (%s), consumed by popleft (%s) and tested empty before '
                   'the next pop or the end (%d pop segments on paths)' % (
                       publish_ok, left_ok, n_seg),
                   path=rules.path_lines(*bad) if bad else None, analysed=n_seg)


def _stored_values(an: Analysis, fn, target) -> set:
    """what the store to ``target`` receives on the paths of ``fn``, in terms of the
    expressions the locals stand for"""
    values = set()
    for path in an.paths(an.callee(fn.cls.qn, fn.name)):
        for index, event in enumerate(path.events):
            if event.kind == 'store' and event.node is target:
                value = event.data.get('value')
                values.add('?' if value is None else
                           rules.value_text(path, index, value))
    return values


def _check_waitqueues(check, an: Analysis, rule: str = 'L2'):
    # HQ: heap discipline on _keys, the popped key indexes _data
    an.cls(HQ)
    an.cls(SD)
    pop = an.method(HQ, 'pop')
    push = an.method(HQ, 'push')
    heap_ops = []
    for fn, node, kind, detail in rules.attribute_method_calls(an, '_keys', HQ):
        if kind == 'arg':
            heap_ops.append((fn, node, detail))
        elif kind == 'call':
            check.instance(rule, 'HQ:_keys.%s' % detail, False,
                           '%s:%d' % (fn.module.relpath, node.lineno),
                           'the key heap is mutated by a list method: %s'
                           % ast.unparse(node)[:50])
    names = sorted({d for _f, _n, d in heap_ops})
    check.instance(rule, 'HQ:heap-discipline', set(names) <= {'heappush', 'heappop', 'bool'}
                   and {'heappush', 'heappop'} <= set(names), where_fn(push),
                   '_keys only sees heappush/heappop: %s' % names)
    ok, n = True, 0
    for path in an.paths(an.callee(HQ, 'pop')):
        if path.kind != 'return':
            continue
        n += 1
        value = rules.value_expr(path, len(path.events) - 1, path.outcome[1])
        good = isinstance(value, ast.Tuple) and len(value.elts) == 2 and \
            ast.unparse(value.elts[0]) == 'heappop(self._keys)' and \
            ast.unparse(value.elts[1]) == 'self._data.pop(heappop(self._keys))'
        ok &= good
    check.instance(rule, 'HQ.pop:min-key-with-own-deque', ok and n > 0, where_fn(pop),
                   'returns (heappop(_keys), _data.pop(that key))')
    # a key enters the heap exactly when its deque is created
    hq_push = an.callee(HQ, 'push')
    verdict = True
    for path in an.paths(hq_push):
        if not path.normal:
            continue
        created = any(e.kind == 'handler' and e['exc'] == 'ext:KeyError' for e in path.events)
        pushed = any(e.kind == 'call' and isinstance(e.node, ast.Call) and
                     rules.text_at(path, e, e.node.func) == 'heappush' for e in path.events)
        appended = sum(1 for e in path.events if e.kind == 'call' and isinstance(
            e.node, ast.Call) and isinstance(e.node.func, ast.Attribute)
            and e.node.func.attr == 'append')
        verdict &= (created == pushed) and appended == 1
    check.instance(rule, 'HQ.push:key-once-per-deque', verdict, where_fn(push),
                   'heappush happens exactly on the path that creates the deque; the item '
                   'is appended once')
    # SD: popitem(0)
    sd_pop = an.method(SD, 'pop')
    ok, n = True, 0
    for path in an.paths(an.callee(SD, 'pop')):
        if path.kind == 'return':
            n += 1
            ok &= _is_pair_of(rules.value_expr(path, len(path.events) - 1, path.outcome[1]),
                              'self._data.popitem(0)')
    check.instance(rule, 'SD.pop:popitem(0)', ok and n > 0, where_fn(sd_pop),
                   'SortedDict.popitem(0) is the smallest key (the default is the largest)')
    sd_push = an.callee(SD, 'push')
    verdict = True
    for path in an.paths(sd_push):
        if path.normal:
            appended = sum(1 for e in path.events if e.kind == 'call' and isinstance(
                e.node, ast.Call) and isinstance(e.node.func, ast.Attribute)
                and e.node.func.attr == 'append')
            verdict &= appended == 1
    check.instance(rule, 'SD.push:append-once', verdict, where_fn(sd_push.fn),
                   'the item is appended once to the deque of its key')
    # both store deques (FIFO per key)
    for qn in (HQ, SD):
        push_fn = an.method(qn, 'push')
        # on the paths of push (its private stages run in place): what is stored into
        # `_data[key]` is a fresh empty deque, wherever a bucket is created
        made, good = 0, True
        for path in an.paths(an.callee(qn, 'push')):
            for index, event in enumerate(path.events):
                if event.kind == 'store' and isinstance(event.node, ast.Subscript) and \
                        rules.value_text(path, index, event.node.value) == 'self._data':
                    made += 1
                    value = event.data.get('value')
                    good &= value is not None and rules.value_text(
                        path, index, value) in ('deque()', 'collections.deque()')
        check.instance(rule, '%s.push:deque-per-key' % qn.rsplit('.', 1)[-1],
                       made > 0 and good, where_fn(push_fn),
                       'a fresh empty deque per key (%d bucket creations on paths)' % made)


def _future_fact(an, facts, text, fn, owner) -> bool:
    """`text > now` established: direct comparison or `not self` with self ~ now >= text"""
    for key, value in facts.items():
        if key[0] == 'lt' and value is True and key[2] == text:
            left = ast.parse(key[1], mode='eval').body
            if rules.is_current_time(left, fn):
                return True
        if key == ('truth', 'self') and value is False and owner is not None:
            try:
                expr, method = bool_expr(an, owner.qn)
            except AnalysisError:
                continue
            got = rules.normalise_state_aliases(rules.expand_alias(expr, method))
            if equal_bool(got, '__USIM_STATE__.loop.time >= %s' % text):
                return True
    return False



NOW = 'NOW_'
TASK_QN = 'usim._primitives.task.Task'


def _clock_as_symbol(expr, fn):
    """``expr`` with every read of the current time replaced by the symbol NOW_"""
    import copy

    class Sub(ast.NodeTransformer):
        def visit_Attribute(self, node):
            if isinstance(node.ctx, ast.Load) and rules.is_current_time(node, fn):
                return ast.Name(id=NOW, ctx=ast.Load())
            return self.generic_visit(node)

        def visit_Call(self, node):
            # the clock read through its getter (`time._now()`)
            if rules.is_clock_call(node, fn):
                return ast.Name(id=NOW, ctx=ast.Load())
            return self.generic_visit(node)

        def visit_Name(self, node):
            if isinstance(node.ctx, ast.Load) and node.id != NOW and fn is not None and \
                    rules.is_current_time(node, fn):
                return ast.Name(id=NOW, ctx=ast.Load())
            return node
    return Sub().visit(copy.deepcopy(expr))


def _established(an, path, index, value, kind, fn, owner, raw_text):
    """'test' / 'assert' when the path establishes value > 0 (delay) / value > now (at)"""
    asserted = rules.asserted
    text = ast.unparse(value)
    want_expr = ast.parse('(%s) > 0' % text if kind == 'delay' else
                          '(%s) > %s' % (text, NOW), mode='eval').body
    want = asserted(_clock_as_symbol(want_expr, fn), True)
    how = None
    if want is not None:
        for _pos, found, from_assert in rules.path_inequalities(
                path, 0, index, transform=_clock_as_symbol, keep_clock=False):
            if found == want:
                kind_ = 'assert' if from_assert else 'test'
                how = 'test' if 'test' in (how, kind_) else kind_
    if how:
        return how
    facts = path.events[index].data.get('facts') or {}
    if kind == 'delay' and (facts.get(('lt', '0', raw_text)) is True
                            or facts.get(('lt', '0', text)) is True):
        return 'test'
    if kind == 'at' and (_future_fact(an, facts, raw_text, fn, owner)
                         or _future_fact(an, facts, text, fn, owner)):
        return 'test'
    return None


def _stable_locals(path, expr) -> bool:
    """only constants and locals/parameters that are never re-bound on the path"""
    for node in ast.walk(expr):
        if isinstance(node, (ast.Attribute, ast.Call, ast.Subscript, ast.Await)):
            return False
        if isinstance(node, ast.Name) and isinstance(node.ctx, ast.Load):
            if rules.reaching_store(path, len(path.events), node.id) is not None:
                return False
    return True


def _invariant(an, fn, owner, expr, kind, depth):
    """positivity/futurity of ``self.attr`` from the class: set once in __init__ from a
    checked argument, or guarded by every (self-)caller of this parameterless helper"""
    if not (isinstance(expr, ast.Attribute) and isinstance(expr.value, ast.Name)
            and expr.value.id == 'self' and owner is not None):
        return None
    text = ast.unparse(expr)
    stores = rules.attribute_stores(an, expr.attr, owner.qn)
    if stores and all(f.name == '__init__' for f, _s, _t, _r in stores) and kind == 'delay':
        from .c16 import asserted
        init = an.callee(owner.qn, '__init__')
        verdict, n, only_assert = True, 0, True
        for path in an.paths(init):
            if not path.normal:
                continue
            for index, event in enumerate(path.events):
                if event.kind == 'store' and event['path'] == text and \
                        event['value'] is not None:
                    n += 1
                    src = rules.value_expr(path, index, event['value'])
                    how = _established(an, path, index, src, 'delay', init.fn, owner,
                                       ast.unparse(event['value']))
                    verdict &= how is not None
                    only_assert &= how == 'assert'
        if verdict and n:
            return 'invariant(assert)' if only_assert else 'invariant'
    if depth < 2:
        sites = rules.call_sites_of(an, fn.qn)
        callers = [(cfn, ccall) for cfn, ccall, _f in sites
                   if isinstance(ccall.func, ast.Attribute)
                   and isinstance(ccall.func.value, ast.Name)
                   and ccall.func.value.id == 'self']
        if callers and len(callers) == len(sites):
            good = True
            for cfn, ccall in callers:
                cowner = an.p.enclosing_self_class(cfn)
                ccallee = Callee(cfn, cowner.qn if cowner else None)
                reached = 0
                for path in an.paths(ccallee):
                    for index, event in enumerate(path.events):
                        if rules.is_site(event.node, ccall) and event.kind in ('call', 'enter'):
                            reached += 1
                            good &= _established(an, path, index, expr, kind, cfn, cowner,
                                                 text) is not None
                good &= reached > 0
            if good:
                return 'callers(%s)' % ', '.join(sorted(short(c.qn) for c, _ in callers))
    return None


def _classify(an, callee, call, kind, expr, depth):
    """
    how every path reaching ``call`` establishes the date/delay ``expr``:
    (verdict text | None, forwarded names, forms) -- forms are the expanded expressions
    """
    fn = callee.fn
    owner = an.p.enclosing_self_class(fn)
    try:
        paths = an.paths(callee)
    except AnalysisError:
        paths = []
    hows, forms, follow = set(), set(), set()
    reached = 0
    for path in paths:
        seen_here = False
        for index, event in enumerate(path.events):
            if not rules.is_site(event.node, call) or event.kind not in ('call', 'enter') or seen_here:
                continue
            seen_here = True
            reached += 1
            value = rules.value_expr(path, index, expr)
            forms.add(ast.unparse(value))
            if isinstance(value, ast.Constant) and value.value is None:
                hows.add('none')
                continue
            if rules.fact_value(event, ('isnone', ast.unparse(value))) is True or \
                    rules.path_atoms(path, 0, index).get(
                        ('isnone', ast.unparse(value))) is True:
                hows.add('none')  # known to be None on this path
                continue
            how = _established(an, path, index, value, kind, fn, owner, ast.unparse(expr))
            if how:
                hows.add(how)
            elif isinstance(value, ast.Name) and rules._is_param(fn, value.id) and depth < 4:
                hows.add('param')
                follow.add(value.id)
            elif isinstance(value, ast.Name) and fn.parent is not None and \
                    rules._is_param(fn.parent, value.id):
                hows.add('closure')
                follow.add(value.id)
            else:
                inv = _invariant(an, fn, owner, value, kind, depth)
                hows.add(inv if inv else 'UNGUARDED')
    if not reached:
        # not on any enumerated path (e.g. only inside an unreachable helper): judge syntax
        if isinstance(expr, ast.Constant) and expr.value is None:
            return {'none'}, forms, follow
        return {'UNREACHED'}, forms, follow
    return hows, forms, follow


def _check_schedule_preconditions(check, an: Analysis):
    sites = rules.call_sites_of(an, an.method(LOOP, 'schedule').qn)
    n_dated = 0
    work = []
    for fn, call, frame in sites:
        for kw in call.keywords:
            if kw.arg in ('delay', 'at'):
                work.append((fn, call, kw.arg, kw.value, 0, 'schedule'))
    seen = set()
    forwarded_dates = {}   # function -> parameters forwarded as an absolute date
    delay_forms = []       # (fn, where, construct, expanded forms) of relative delays
    while work:
        fn, call, kw_name, expr, depth, via = work.pop()
        key = (fn.qn, call.lineno, call.col_offset, kw_name)
        if key in seen:
            continue
        seen.add(key)
        owner = an.p.enclosing_self_class(fn)
        callee = Callee(fn, owner.qn if owner else None)
        hows, forms, follow = _classify(an, callee, call, kw_name, expr, depth)
        where = '%s:%d' % (fn.module.relpath, call.lineno)
        construct = '%s:%s=%s' % (short(fn.qn), kw_name, '|'.join(sorted(forms))
                                  or ast.unparse(expr))
        if hows <= {'none'}:
            continue
        n_dated += 1
        if kw_name == 'delay':
            delay_forms.append((fn, where, construct, forms))
        else:
            # an absolute date is handed on as it was received, never recomputed
            bad = sorted(f for f in forms if not _is_pass_through(f))
            for form in forms:
                if form.isidentifier() and rules._is_param(fn, form):
                    forwarded_dates.setdefault(fn.qn, set()).add(form)
            check.instance('L8', construct, not bad, where,
                           'the date reaches the loop as given (a name, an attribute or '
                           'None), never through arithmetic%s' % (
                               ': `%s`' % bad[0] if bad else ''))
        if 'param' in hows:
            for name in follow:
                if rules._is_param(fn, name):
                    if kw_name == 'at':
                        forwarded_dates.setdefault(fn.qn, set()).add(name)
                    callers = rules.call_sites_of(an, fn.qn)
                    index = _param_index(fn, name)
                    for cfn, ccall, cframe in callers:
                        arg = _argument(ccall, fn, name, index)
                        if arg is not None:
                            work.append((cfn, ccall, kw_name, arg, depth + 1, short(fn.qn)))
                    check.instance('L3', construct + ':from-callers', bool(callers), where,
                                   '`%s` is passed through from %d call sites (each '
                                   'checked)' % (name, len(callers)), nontrivial=False)
        if 'closure' in hows:
            outer = fn.parent
            ctor = outer.cls.qn if outer.cls is not None and outer.name == '__init__' \
                else None
            established = False
            detail = 'closure variable of %s' % short(outer.qn)
            if ctor is not None:
                established = True
                n_sites = 0
                for name in follow:
                    if not rules._is_param(outer, name):
                        continue
                    if kw_name == 'at':
                        forwarded_dates.setdefault(outer.qn, set()).add(name)
                    for cfn, node, cframe in _constructor_sites(an, ctor):
                        arg = _argument(node, outer, name, _param_index(outer, name))
                        if arg is None:
                            continue
                        n_sites += 1
                        work.append((cfn, node, kw_name, arg, depth + 1, short(outer.qn)))
                established = n_sites > 0
                detail += '; %d constructor sites (each checked)' % n_sites
            check.instance('L3', construct + ':from-constructor', established, where, detail,
                           nontrivial=False)
        rest = hows - {'none', 'param', 'closure'}
        bad = sorted(h for h in rest if h in ('UNGUARDED', 'UNREACHED'))
        if rest or bad:
            only_assert = bool(rest) and all('assert' in h for h in rest)
            check.instance('L3', construct, not bad, where,
                           'positivity/futurity established on every path by: %s' % (
                               ', '.join(sorted(rest))), assert_only=only_assert)
    # a relative delay is never computed from an absolute date of the same call chain
    for fn, where, construct, forms in delay_forms:
        dates = forwarded_dates.get(fn.qn, set())
        mixed = sorted(f for f in forms if not _is_pass_through(f) and any(
            isinstance(n, ast.Name) and n.id in dates
            for n in ast.walk(ast.parse(f, mode='eval'))))
        if dates:
            check.instance('L8', construct + ':not-from-date', not mixed, where,
                           'the delay is not derived from the absolute date %s of the same '
                           'call (now + (date - now) is not the date in floating point)%s'
                           % (sorted(dates), ': `%s`' % mixed[0] if mixed else ''))
    check.floor('L3', 8, 'dated schedule sites and their callers')
    # the loop's own last line of defence
    schedule = an.method(LOOP, 'schedule')
    asserts = set()
    for path in an.paths(an.callee(LOOP, 'schedule')):
        for index, event in enumerate(path.events):
            if event.kind == 'assert' and isinstance(event.node, ast.Assert):
                # (in schedule itself or in a private stage of it, in schedule's terms)
                asserts.add(rules.value_text(path, index, event.node.test))
    asserts = sorted(asserts)
    check.instance('L3', 'Loop.schedule:asserts', any(equal_bool(a, 'delay > 0')
                                                       for a in asserts) and
                   any(equal_bool(a, 'at > self.time') for a in asserts),
                   where_fn(schedule), 'the loop asserts delay > 0 and at > time',
                   assert_only=True, nontrivial=False)


def _is_pass_through(text: str) -> bool:
    node = ast.parse(text, mode='eval').body
    while isinstance(node, ast.Attribute):
        node = node.value
    return isinstance(node, ast.Name) or (isinstance(node, ast.Constant)
                                          and node.value is None)


def _is_future_compare(node, text, fn) -> bool:
    if not (isinstance(node, ast.Compare) and len(node.ops) == 1):
        return False
    left, right, op = node.left, node.comparators[0], node.ops[0]
    if isinstance(op, ast.Gt) and ast.unparse(left) == text:
        return rules.is_current_time(right, fn)
    if isinstance(op, ast.Lt) and ast.unparse(right) == text:
        return rules.is_current_time(left, fn)
    return False


def _param_index(fn, name):
    args = [a.arg for a in fn.node.args.posonlyargs + fn.node.args.args]
    if fn.cls is not None and not fn.is_static and args:
        args = args[1:]
    return args.index(name) if name in args else None


def _argument(call, fn, name, index):
    for kw in call.keywords:
        if kw.arg == name:
            return kw.value
    if index is not None and index < len(call.args) and \
            not any(isinstance(a, ast.Starred) for a in call.args[:index + 1]):
        return call.args[index]
    return None


def _constructor_sites(an: Analysis, cls_qn: str):
    result = []
    for fn, frame in rules.all_frames(an):
        if isinstance(fn.node, ast.Lambda):
            continue
        from ..types import _walk_own
        for node in _walk_own(fn.node):
            if isinstance(node, ast.Call):
                for term in an.te.expr_type(node.func, frame):
                    if term == ('cls', cls_qn):
                        result.append((fn, node, frame))
    return result


def _check_plumbing(check, an: Analysis):
    check_schedule_keys(check, an, 'L5')
    _check_plumbing_sites(check, an)


def check_time_operators(check, an: Analysis, rule: str):
    """`time >= d`, `time == d`, `time < d` build the matching condition object with the
    operand passed through, whatever the clock reads when the expression is written (an
    object that answers for the date later on, not a constant for the answer now)"""
    for name, cls in (('__ge__', 'After'), ('__eq__', 'Moment'), ('__lt__', 'Before')):
        method = an.method(TIME, name)
        param = method.node.args.args[1].arg
        forms = set()
        for path in an.paths(an.callee(TIME, name)):
            if path.kind == 'return':
                forms.add(rules.value_text(path, len(path.events), path.outcome[1])
                          if path.outcome[1] is not None else 'None')
        check.instance(rule, 'Time.%s' % name, forms == {'%s(%s)' % (cls, param)},
                       where_fn(method), 'time %s date  ->  %s(date) on every path: %s' % (
                           {'__ge__': '>=', '__eq__': '==', '__lt__': '<'}[name], cls,
                           sorted(forms)))


def check_schedule_keys(check, an: Analysis, rule: str):
    """the bucket an activation is queued in: `time + delay` for a delay and the date
    *itself* for a date (no arithmetic on it: `time + (at - time)` is another float, and
    wake-ups for one date asked for at different times would land in different buckets)"""
    schedule = an.method(LOOP, 'schedule')
    # schedule: key == time + delay / at, matching the argument that was given
    kinds = {}
    for path in an.paths(an.callee(LOOP, 'schedule')):
        for index, event in enumerate(path.events):
            if is_call_to(event, 'push') and event.kind != 'leave' and \
                    isinstance(event.node, ast.Call) and event.node.args:
                key = rules.value_text(path, index, event.node.args[0])
                by_at = any(tested(e, ('isnone', 'at'), False) for e in path.events[:index])
                by_delay = any(tested(e, ('isnone', 'delay'), False)
                               for e in path.events[:index])
                if equal_algebra(key, 'self.time + delay'):
                    kinds['delay'] = kinds.get('delay', True) and by_delay
                elif key == 'at':
                    kinds['at'] = kinds.get('at', True) and by_at
                else:
                    kinds['other:%s' % key] = False
    # ... and every call of schedule queues its activation: exactly once on every way through
    # (a wake-up that is dropped for some value of the delay -- `inf`, say -- never comes)
    n_paths, dropped = 0, None
    for path in an.paths(an.callee(LOOP, 'schedule')):
        if not path.normal:
            continue
        n_paths += 1
        queued = [i for i, e in enumerate(path.events) if e.kind == 'call'
                  and isinstance(e.node, ast.Call) and isinstance(e.node.func, ast.Attribute)
                  and e.node.func.attr in ('push', 'append', 'appendleft')
                  and rules.receiver_at(path, e) in ('self._activations', 'self._pending')]
        if len(queued) != 1:
            dropped = dropped or (path, queued[-1] if queued else len(path.events) - 1)
    check.instance(rule, 'Loop.schedule:queues-once-on-every-path',
                   dropped is None and n_paths > 0, where_fn(schedule),
                   'every way through schedule() queues the activation exactly once, '
                   'whatever the delay or date (%d paths)' % n_paths,
                   path=rules.path_lines(*dropped) if dropped else None, analysed=n_paths)
    check.instance(rule, 'Loop.schedule:keys', kinds == {'delay': True, 'at': True},
                   where_fn(schedule), 'activations are queued under `time + delay` when a '
                   'delay is given and under `at` (the date as given) when a date is given: '
                   '%s' % kinds)


def _check_plumbing_sites(check, an: Analysis):
    # every dated hand-over to the loop forwards what it was given (discovered sites)
    for fn, call, frame in rules.call_sites_of(an, an.method(LOOP, 'schedule').qn):
        dated = [kw for kw in call.keywords if kw.arg in ('delay', 'at')]
        if not dated:
            continue
        owner = an.p.enclosing_self_class(fn)
        callee = Callee(fn, owner.qn if owner else None)
        forms = {}
        for path in an.paths(callee):
            for index, event in enumerate(path.events):
                if rules.is_site(event.node, call) and event.kind == 'call':
                    for kw in dated:
                        forms.setdefault(kw.arg, set()).add(
                            rules.value_text(path, index, kw.value))
        ok = bool(forms) and all(_is_pass_through(f) for fs in forms.values() for f in fs)
        # a delay parameter feeds `delay=`, a date parameter feeds `at=`, never crossed
        params = {a.arg for a in fn.node.args.args + fn.node.args.kwonlyargs}
        crossed = [f for f in forms.get('at', ()) if f in params and 'delay' in f] + \
                  [f for f in forms.get('delay', ()) if f in params and f in ('at', 'until')]
        check.instance('L5', '%s->schedule' % short(fn.qn), ok and not crossed,
                       '%s:%d' % (fn.module.relpath, call.lineno),
                       'delay/date handed to the loop as received: %s' % {
                           k: sorted(v) for k, v in forms.items()})
    # the task wrapper hands its start delay/date to suspend unchanged
    from . import _scope
    wrapper = _scope.wrapper_callee(an)
    ok, n = True, 0
    for path in an.paths(wrapper):
        for index, event in enumerate(path.events):
            if event.kind == 'call' and is_call_to(event, 'suspend') and \
                    event.fn is wrapper.fn:
                n += 1
                got = {kw.arg: rules.value_text(path, index, kw.value)
                       for kw in event.node.keywords}
                ok &= got == {'delay': 'delay', 'until': 'at'} and not event.node.args
    check.instance('L5', 'wrapper->suspend', ok and n > 0, where_fn(wrapper.fn),
                   'suspend(delay=delay, until=at) (%d sites on paths)' % n)
    do = an.callee('usim._primitives.context.Scope', 'do')
    ok, n, undated = True, 0, {'after': set(), 'at': set()}
    dparams = [a.arg for a in do.fn.node.args.args + do.fn.node.args.kwonlyargs]
    for path in an.paths(do):
        for index, event in enumerate(path.events):
            if not (event.kind == 'call' and is_call_to(event, '__init__', TASK_QN)):
                continue
            n += 1
            got = {kw.arg: rules.value_text(path, index, kw.value)
                   for kw in event.node.keywords if kw.arg in ('delay', 'at')}
            ok &= got.get('delay') in ('after', 'None') and got.get('at') in ('at', 'None')
            # "now" means undated: after == 0 / at == now on the path => None is passed
            for pos in range(index):
                seen = path.events[pos]
                if seen.kind != 'test' or not isinstance(seen.node, ast.Compare) or \
                        len(seen.node.ops) != 1 or not isinstance(seen.node.ops[0], ast.Eq):
                    continue
                test = rules.value_expr(path, pos, seen.node)
                sides = [test.left, test.comparators[0]]
                texts = [ast.unparse(x) for x in sides]
                if sorted(texts) == ['0', 'after']:
                    undated['after'].add(bool(seen['value']))
                    if seen['value']:
                        ok &= got.get('delay') == 'None'
                elif 'at' in texts and any(rules.is_current_time(x, seen.fn) for x in sides):
                    undated['at'].add(bool(seen['value']))
                    if seen['value']:
                        ok &= got.get('at') == 'None'
    check.instance('L5', 'Scope.do->Task', ok and n > 0, where_fn(do.fn),
                   'Task(delay=after, at=at) (%d sites on paths)' % n)
    check.instance('L5', 'Scope.do:now-means-undated',
                   ok and undated == {'after': {True, False}, 'at': {True, False}},
                   where_fn(do.fn),
                   '`after == 0` and `at == now` are turned into an undated start')
    check_time_operators(check, an, 'L5')
    add = an.callee(TIME, '__add__')
    param = add.fn.node.args.args[1].arg
    for path in an.paths(add):
        if path.kind != 'return':
            continue
        value = ast.unparse(path.outcome[1])
        zero = [e for e in path.events if e.kind == 'test'
                and e.get('key') == ('eq', param, '0')]
        if zero and key_truth(zero[0]):
            ok = value == 'Instant()'
        else:
            ok = value == 'Delay(%s)' % param and bool(zero)
        check.instance('L5', 'Time.__add__/%s' % ('zero' if zero and key_truth(zero[0])
                                                  else 'positive'), ok, where_fn(add.fn),
                       'time + 0 -> Instant(), time + d -> Delay(d): %s' % value)
    for cls_qn in (AFTER, BEFORE, MOMENT):
        init = an.method(cls_qn, '__init__')
        param = init.node.args.args[1].arg
        held = rules.constructor_field(an, cls_qn, 'date')
        check.instance('L5', '%s.date' % cls_qn.rsplit('.', 1)[-1], held is not None and
                       ast.unparse(held) == param, where_fn(init),
                       'the date is stored unchanged')
    init = an.method(DELAY, '__init__')
    param = init.node.args.args[1].arg
    stores = [n for n in ast.walk(init.node) if isinstance(n, ast.Assign)
              and ast.unparse(n.targets[0]) == 'self.duration']
    check.instance('L5', 'Delay.duration', len(stores) == 1 and
                   ast.unparse(stores[0].value) == param, where_fn(init),
                   'the duration is stored unchanged')


def _check_optional_dates(check, an: Analysis, rule: str = 'L7'):
    """parameters that carry an optional date/delay must not be tested by truthiness"""
    from . import _scope
    wrapper = _scope.wrapper_callee(an)
    candidates = [
        (wrapper.fn, ('delay', 'at')),
        (an.method(LOOP, 'schedule'), ('delay', 'at')),
        (an.method('usim._primitives.context.Scope', 'do'), ('after', 'at')),
        (an.fn('usim._primitives.notification.suspend'), ('delay', 'until')),
    ]
    n = 0
    for fn, names in candidates:
        for node in ast.walk(fn.node):
            tests = []
            if isinstance(node, (ast.If, ast.While, ast.IfExp)):
                tests.append(node.test)
            for test in tests:
                for atom in _truthiness_atoms(test):
                    if isinstance(atom, ast.Name) and atom.id in names:
                        n += 1
                        check.instance(rule, '%s:truthiness(%s)' % (short(fn.qn), atom.id),
                                       False, '%s:%d' % (fn.module.relpath, test.lineno),
                                       'an optional date/delay is tested by truthiness: '
                                       '0 is a valid date (`%s`)' % ast.unparse(test))
        uses = [n2 for n2 in ast.walk(fn.node) if isinstance(n2, ast.Compare)
                and isinstance(n2.ops[0], (ast.Is, ast.IsNot))
                and isinstance(n2.left, ast.Name) and n2.left.id in names]
        check.instance(rule, '%s:is-None-tests' % short(fn.qn), True, where_fn(fn),
                       '%d `is None` tests on %s, no truthiness test' % (len(uses), names),
                       nontrivial=False, analysed=max(1, len(uses)))


def _truthiness_atoms(test):
    if isinstance(test, ast.BoolOp):
        out = []
        for value in test.values:
            out.extend(_truthiness_atoms(value))
        return out
    if isinstance(test, ast.UnaryOp) and isinstance(test.op, ast.Not):
        return _truthiness_atoms(test.operand)
    return [test]
