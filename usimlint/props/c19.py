"""
C19 -- SimPy resources keep capacity, conserve content, serve requests in policy order.

Structural clauses decided (DESIGN.md section 5/C19):
  G  capacity guards: every content mutation in the ``_do_put``/``_do_get`` of the six
     resource classes is dominated by the guard that keeps the content in [0, capacity]
     -- compared as a normalised inequality, so it is neither weaker nor stricter
  S  grant agreement: content mutated <=> ``event.succeed(...)`` <=> returns True
     (named exception: releasing a Resource always succeeds); Put/Get are mirror images;
     ``cancel`` dequeues iff not triggered; ``Request.__exit__`` releases iff triggered
  Q  policy queues keep their type (only in-place mutation); served prefix removed exactly;
     priority keys start with (priority, time); pre-emption evicts the last (worst) user
     for a strictly better pre-empting request, only when full
  F  Store FIFO (append/popleft), PriorityStore (add/pop(0)), FilterStore first match by
     forward scan; a request-dependent ``_do_get`` must not sit behind a prefix-stopping
     trigger (head-of-line blocking)
Levels/contents after a history and grant times are run-time values and not decided.
"""
import ast

from ..engine import Analysis, is_call_to, short, where_fn, tested, key_truth
from ..model import AnalysisError
from ..norm import rational, _padd, equal_bool
from ..types import Callee
from .. import rules

PROP = 'C19'
BASE = 'usim.py.resources.base.BaseResource'
PUT = 'usim.py.resources.base.Put'
GET = 'usim.py.resources.base.Get'
CONTAINER = 'usim.py.resources.container.Container'
STORE = 'usim.py.resources.store.Store'
FILTERSTORE = 'usim.py.resources.store.FilterStore'
PRIOSTORE = 'usim.py.resources.store.PriorityStore'
RESOURCE = 'usim.py.resources.resource.Resource'
PREEMPTIVE = 'usim.py.resources.resource.PreemptiveResource'
PRIORESOURCE = 'usim.py.resources.resource.PriorityResource'
REQUEST = 'usim.py.resources.resource.Request'
PRIOREQUEST = 'usim.py.resources.resource.PriorityRequest'
SORTEDQUEUE = 'usim.py.resources.resource.SortedQueue'


def inequality(expr):
    """(strict?, polynomial of `bigger - smaller`) for a <, <=, >, >= comparison"""
    if not (isinstance(expr, ast.Compare) and len(expr.ops) == 1):
        return None
    op = expr.ops[0]
    left, right = expr.left, expr.comparators[0]
    if isinstance(op, (ast.Lt, ast.LtE)):
        big, small = right, left
    elif isinstance(op, (ast.Gt, ast.GtE)):
        big, small = left, right
    else:
        return None
    try:
        bn, bd = rational(big)
        sn, sd = rational(small)
    except Exception:
        return None
    if bd != {(): 1} or sd != {(): 1}:
        return None
    diff = _padd(bn, sn, -1)
    return isinstance(op, (ast.Lt, ast.Gt)), tuple(sorted(diff.items()))


def same_inequality(expr, want: str) -> bool:
    want_expr = ast.parse(want, mode='eval').body
    a, b = inequality(expr), inequality(want_expr)
    return a is not None and a == b


def run(check, an: Analysis):
    check.rule('G', 'every content mutation is dominated by exactly the guard that keeps the '
                    'content within [0, capacity]')
    check.rule('S', 'mutated <=> succeed <=> True in every _do_*; Put/Get mirrored; cancel '
                    'and Request.__exit__')
    check.rule('Q', 'policy queues keep their type; served prefix dropped; priority key; '
                    'pre-emption of the worst user for a strictly better request when full')
    check.rule('F', 'store disciplines; no request-dependent _do_get behind a takewhile '
                    'trigger')
    for qn in (BASE, CONTAINER, STORE, FILTERSTORE, PRIOSTORE, RESOURCE, PREEMPTIVE):
        an.cls(qn)

    # ---- G + S per _do_* ---------------------------------------------------------
    specs = [
        (CONTAINER, '_do_put', 'level', 'self._capacity - self._level >= event.amount',
         ('aug', 'self._level', ast.Add, 'event.amount')),
        (CONTAINER, '_do_get', 'level', 'self._level >= event.amount',
         ('aug', 'self._level', ast.Sub, 'event.amount')),
        (STORE, '_do_put', 'items', 'len(self._items) < self._capacity',
         ('call', 'self._items.append', 'event.item')),
        (PRIOSTORE, '_do_put', 'items', 'len(self._items) < self._capacity',
         ('call', 'self._items.add', 'event.item')),
        (RESOURCE, '_do_put', 'users', 'len(self.users) < self._capacity',
         ('call', 'self.users.append', 'event')),
    ]
    for cls_qn, name, what, guard, mutation in specs:
        callee = an.callee(cls_qn, name)
        fn = callee.fn
        ev = fn.node.args.args[1].arg
        guard_t = guard.replace('event', ev)
        label = '%s.%s' % (cls_qn.rsplit('.', 1)[-1], name)
        n_mut = 0
        for path in an.paths(callee):
            mut = _mutations(path, mutation, ev)
            succeeded = [e for e in path.events if e.kind == 'call' and isinstance(
                e.node, ast.Call) and ast.unparse(e.node.func) == '%s.succeed' % ev]
            returned = path.kind == 'return' and isinstance(path.outcome[1], ast.Constant) \
                and path.outcome[1].value is True
            if path.normal:
                agree = bool(mut) == bool(succeeded) == returned and len(mut) <= 1
                check.instance('S', '%s:%s' % (label, 'granted' if mut else 'refused'),
                               agree, where_fn(fn),
                               'mutated=%s succeed=%s returns-True=%s' % (
                                   bool(mut), bool(succeeded), returned),
                               path=rules.path_lines(path))
            for index in mut:
                n_mut += 1
                tests = [e for e in path.events[:index] if e.kind == 'test']
                ok = bool(tests) and tests[-1]['value'] is True and \
                    same_inequality(tests[-1].node, guard_t)
                check.instance('G', '%s:guard' % label, ok, path.events[index].where,
                               'the change of the %s is dominated by `%s`%s' % (
                                   what, guard_t, '' if ok else ' (found `%s`)' % (
                                       ast.unparse(tests[-1].node) if tests else None)),
                               path=rules.path_lines(path, index))
        check.instance('G', '%s:mutates' % label, n_mut > 0, where_fn(fn),
                       'the operation changes the %s' % what)
    # evidence based guards (get from stores)
    for cls_qn, popper, exc in ((STORE, 'self._items.popleft', 'ext:IndexError'),
                                (PRIOSTORE, 'self._items.pop', 'ext:IndexError'),
                                (FILTERSTORE, 'self._items.pop', 'ext:StopIteration')):
        callee = an.callee(cls_qn, '_do_get')
        fn = callee.fn
        ev = fn.node.args.args[1].arg
        label = '%s._do_get' % cls_qn.rsplit('.', 1)[-1]
        seen = set()
        for path in an.paths(callee):
            if not path.normal:
                continue
            pops = [e for e in path.events if e.kind == 'call' and isinstance(
                e.node, ast.Call) and ast.unparse(e.node.func) == popper
                and e.get('exit') == 'normal']
            failed = any(e.kind == 'handler' and e['exc'] == exc for e in path.events)
            succeeded = [e for e in path.events if e.kind == 'call' and isinstance(
                e.node, ast.Call) and ast.unparse(e.node.func) == '%s.succeed' % ev]
            returned = path.kind == 'return' and isinstance(path.outcome[1], ast.Constant) \
                and path.outcome[1].value is True
            if failed:
                ok = not pops and not succeeded and not returned
                seen.add('empty')
            else:
                ok = len(pops) == 1 and len(succeeded) == 1 and returned and \
                    _succeeds_with_popped(succeeded[0], pops[0], fn)
                seen.add('item')
            check.instance('S', '%s:%s' % (label, 'refused' if failed else 'granted'), ok,
                           where_fn(fn), 'an item is handed out exactly when one was taken; '
                           'an empty store (%s) refuses' % exc.replace('ext:', ''),
                           path=rules.path_lines(path))
        check.instance('G', '%s:guard' % label, seen == {'empty', 'item'}, where_fn(fn),
                       'taking from an empty store is caught (%s), never goes negative'
                       % exc.replace('ext:', ''))
    # Resource release: idempotent and always granted (named exception)
    rel = an.callee(RESOURCE, '_do_get')
    ok = True
    for path in an.paths(rel):
        if path.normal:
            succeeded = any(e.kind == 'call' and isinstance(e.node, ast.Call) and
                            ast.unparse(e.node.func).endswith('.succeed')
                            for e in path.events)
            ok &= succeeded and path.kind == 'return' and isinstance(
                path.outcome[1], ast.Constant) and path.outcome[1].value is True
    removes = [n for n in ast.walk(rel.fn.node) if isinstance(n, ast.Call)
               and ast.unparse(n.func) == 'self.users.remove']
    check.instance('S', 'Resource._do_get:release-always-succeeds', ok and len(removes) == 1
                   and ast.unparse(removes[0].args[0]).endswith('.request'),
                   where_fn(rel.fn), 'releasing removes the request (if still a user) and '
                   'always succeeds (release is idempotent)')
    # ---- S: Put / Get / cancel / Request.__exit__ -----------------------------------
    for cls_qn, own, other in ((PUT, 'put', 'get'), (GET, 'get', 'put')):
        init = an.method(cls_qn, '__init__')
        res = init.node.args.args[1].arg
        body = [ast.unparse(s) for s in init.node.body]
        want = ['super().__init__(%s)' % res,
                '%s.%s_queue.append(self)' % (res, own),
                'self.callbacks.append(%s._trigger_%s)' % (res, other),
                '%s._trigger_%s(None)' % (res, own)]
        check.instance('S', '%s.__init__' % cls_qn.rsplit('.', 1)[-1], body == want,
                       where_fn(init), 'enqueue, register the inverse trigger as callback, '
                       'trigger the own side at once: %s' % body)
        cancel = an.callee(cls_qn, 'cancel')
        table = {}
        for path in an.paths(cancel):
            if path.normal:
                trig = [e for e in path.events if e.kind == 'test']
                removed = any(e.kind == 'call' and isinstance(e.node, ast.Call) and
                              ast.unparse(e.node.func) == 'self.resource.%s_queue.remove'
                              % own for e in path.events)
                if trig:
                    table[trig[0]['value'] == ('not' in ast.unparse(trig[0].node)
                                                and False or True)] = removed
        tests = [n for n in ast.walk(cancel.fn.node) if isinstance(n, ast.If)]
        ok = len(tests) == 1 and equal_bool(tests[0].test, 'not self.triggered') and \
            any(isinstance(n, ast.Call) and ast.unparse(n.func) ==
                'self.resource.%s_queue.remove' % own for n in ast.walk(tests[0]))
        check.instance('S', '%s.cancel' % cls_qn.rsplit('.', 1)[-1], ok, where_fn(cancel.fn),
                       'a request is taken out of its queue iff it was not triggered yet')
    base_exit = an.method('usim.py.resources.base.BaseRequest', '__exit__')
    check.instance('S', 'BaseRequest.__exit__', [ast.unparse(s) for s in base_exit.node.body]
                   == ['self.cancel()'], where_fn(base_exit), 'leaving the block cancels')
    rexit = an.method(REQUEST, '__exit__')
    body = rexit.node.body
    ok = len(body) == 2 and isinstance(body[0], ast.If) and \
        equal_bool(body[0].test, 'self.triggered') and \
        [ast.unparse(s) for s in body[0].body] == ['self.resource.release(self)'] and \
        not body[0].orelse and ast.unparse(body[1]).startswith('super().__exit__(')
    check.instance('S', 'Request.__exit__', ok, where_fn(rexit),
                   'a granted request is released, then the request is cancelled')
    # ---- Q ------------------------------------------------------------------
    for attr in ('put_queue', 'get_queue'):
        for fn, stmt, target, recvs in rules.attribute_stores(an, attr, BASE):
            where = '%s:%d' % (fn.module.relpath, stmt.lineno)
            if isinstance(stmt, ast.Delete):
                ok = isinstance(stmt.targets[0], ast.Subscript)
                check.instance('Q', '%s:%s:in-place' % (short(fn.qn), attr), ok, where,
                               'served requests are deleted in place: %s' % ast.unparse(stmt))
                continue
            if fn.name == '__init__' and fn.cls is not None and fn.cls.qn == BASE:
                want = 'self.%s()' % ('PutQueue' if attr == 'put_queue' else 'GetQueue')
                check.instance('Q', '%s:%s:created' % (short(fn.qn), attr),
                               ast.unparse(stmt.value) == want, where,
                               'created from the class\'s policy queue type')
                continue
            check.instance('Q', '%s:%s:rebound' % (short(fn.qn), attr), False, where,
                           're-binding the queue (`%s`) loses its type: slicing a sorted '
                           'queue yields a plain list' % ast.unparse(stmt)[:60])
    for name, queue, do in (('_trigger_put', 'put_queue', '_do_put'),
                            ('_trigger_get', 'get_queue', '_do_get')):
        fn = an.method(BASE, name)
        body = [ast.unparse(s) for s in fn.node.body if not (
            isinstance(s, ast.Expr) and isinstance(s.value, ast.Constant))]
        served = [n for n in ast.walk(fn.node) if isinstance(n, ast.Assign)
                  and isinstance(n.value, ast.Call)]
        ok = len(served) == 1 and ast.unparse(served[0].value) == \
            'list(takewhile(self.%s, self.%s))' % (do, queue)
        name_t = ast.unparse(served[0].targets[0]) if served else '?'
        dels = [n for n in ast.walk(fn.node) if isinstance(n, ast.Delete)]
        ok_del = len(dels) == 1 and ast.unparse(dels[0].targets[0]) == \
            'self.%s[:len(%s)]' % (queue, name_t)
        check.instance('Q', 'BaseResource.%s' % name, ok and ok_del, where_fn(fn),
                       'serves the head of the queue while possible and removes exactly '
                       'the served prefix')
    pr = an.cls(PRIORESOURCE)
    check.instance('Q', 'PriorityResource.PutQueue', ast.unparse(pr.attrs.get(
        'PutQueue', ast.Constant(None))) == 'SortedQueue', pr.module.relpath,
        'priority resources queue requests in a SortedQueue')
    sq_init = an.method(SORTEDQUEUE, '__init__')
    keys = [n for n in ast.walk(sq_init.node) if isinstance(n, ast.Lambda)]
    ok = len(keys) == 1 and ast.unparse(keys[0].body).endswith('.key')
    check.instance('Q', 'SortedQueue:key', ok, where_fn(sq_init),
                   'the queue is ordered by the request\'s key')
    sq_append = an.method(SORTEDQUEUE, 'append')
    check.instance('Q', 'SortedQueue.append', [ast.unparse(s) for s in sq_append.node.body]
                   == ['self.add(%s)' % sq_append.node.args.args[1].arg],
                   where_fn(sq_append), 'append inserts at the sorted position')
    preq = an.method(PRIOREQUEST, '__init__')
    keydef = [n for n in ast.walk(preq.node) if isinstance(n, ast.Assign)
              and ast.unparse(n.targets[0]) == 'self.key']
    ok = len(keydef) == 1 and isinstance(keydef[0].value, ast.Tuple) and \
        [ast.unparse(e) for e in keydef[0].value.elts[:2]] == ['self.priority', 'self.time']
    order = [ast.unparse(s.targets[0]) for s in preq.node.body if isinstance(s, ast.Assign)]
    super_last = ast.unparse(preq.node.body[-1]).startswith('super(')
    check.instance('Q', 'PriorityRequest.key', ok and super_last and
                   order.index('self.key') > order.index('self.time'), where_fn(preq),
                   'key = (priority, time, ...) is set before the request is enqueued')
    pinit = an.method(PREEMPTIVE, '__init__')
    users = [n for n in ast.walk(pinit.node) if isinstance(n, ast.Assign)
             and ast.unparse(n.targets[0]) == 'self.users']
    check.instance('Q', 'PreemptiveResource.users', len(users) == 1 and
                   ast.unparse(users[0].value) == 'SortedQueue()', where_fn(pinit),
                   'current users are kept sorted by key')
    for fn, stmt, target, recvs in rules.attribute_stores(an, 'users', RESOURCE):
        if fn.name != '__init__':
            check.instance('Q', '%s:users:rebound' % short(fn.qn), False,
                           '%s:%d' % (fn.module.relpath, stmt.lineno),
                           'the user list is re-bound outside __init__')
    preempt = an.callee(PREEMPTIVE, '_do_put')
    ev = preempt.fn.node.args.args[1].arg
    n_evict = 0
    for path in an.paths(preempt):
        for index, event in enumerate(path.events):
            if event.kind == 'call' and isinstance(event.node, ast.Call) and \
                    ast.unparse(event.node.func) == 'self.users.remove':
                n_evict += 1
                victim = ast.unparse(event.node.args[0])
                src = rules.local_values(preempt.fn, victim)
                last = len(src) == 1 and src[0] is not None and \
                    ast.unparse(src[0]) == 'self.users[-1]'
                tests = [e for e in path.events[:index] if e.kind == 'test']
                full = any(e['value'] is True and same_inequality(
                    e.node, 'len(self.users) >= self.capacity') for e in tests)
                wants = any(tested(e, ('truth', '%s.preempt' % ev), True) for e in tests)
                better = any(e['value'] is True and isinstance(e.node, ast.Compare) and
                             isinstance(e.node.ops[0], ast.Lt) and
                             ast.unparse(e.node.left) == '%s.key' % ev and
                             ast.unparse(e.node.comparators[0]) == '%s.key' % victim
                             for e in tests)
                told = any(e.kind == 'call' and isinstance(e.node, ast.Call) and
                           ast.unparse(e.node.func) == '%s.proc.interrupt' % victim
                           for e in path.events[index:])
                check.instance('Q', 'PreemptiveResource._do_put:evicts', last and full and
                               wants and better and told, event.where,
                               'victim is the last (worst) user (%s); only when full (%s), '
                               'for a pre-empting request (%s) with a strictly smaller key '
                               '(%s); its process is interrupted (%s)' % (
                                   last, full, wants, better, told),
                               path=rules.path_lines(path, index))
    check.instance('Q', 'PreemptiveResource._do_put:can-evict', n_evict > 0,
                   where_fn(preempt.fn), 'pre-emption exists')
    tail = preempt.fn.node.body[-1]
    check.instance('Q', 'PreemptiveResource._do_put:then-regular', isinstance(
        tail, ast.Return) and '_do_put(%s)' % ev in ast.unparse(tail), where_fn(preempt.fn),
        'after a possible eviction the regular capacity rule decides')
    pre_cls = an.method('usim.py.resources.resource.Preempted', '__init__')
    args = [a.arg for a in pre_cls.node.args.args[1:]]
    check.instance('Q', 'Preempted', args == ['by', 'usage_since', 'resource'],
                   where_fn(pre_cls), 'the interrupt carries by/usage_since/resource')
    # ---- F ------------------------------------------------------------------
    for cls_qn, kind, ops in ((STORE, 'deque', {'append', 'popleft'}),
                              (PRIOSTORE, 'SortedList', {'add', 'pop'}),
                              (FILTERSTORE, 'list', {'pop'})):
        init = an.method(cls_qn, '__init__')
        made = [n for n in ast.walk(init.node) if isinstance(n, ast.Assign)
                and ast.unparse(n.targets[0]) == 'self._items']
        ok = len(made) == 1 and ast.unparse(made[0].value) in (
            '%s()' % kind, '[]' if kind == 'list' else '%s()' % kind)
        found = set()
        for name in ('_do_put', '_do_get'):
            method = an.p.find_method(cls_qn, name)
            if method.cls.qn != cls_qn:
                continue
            for node in ast.walk(method.node):
                if isinstance(node, ast.Call) and isinstance(node.func, ast.Attribute) and \
                        ast.unparse(node.func.value) == 'self._items':
                    found.add(node.func.attr)
                    if node.func.attr == 'pop' and cls_qn == PRIOSTORE:
                        ok = ok and len(node.args) == 1 and isinstance(
                            node.args[0], ast.Constant) and node.args[0].value == 0
        check.instance('F', '%s:items-discipline' % cls_qn.rsplit('.', 1)[-1],
                       ok and found == ops, where_fn(init),
                       'items kept in a %s, operations %s' % (kind, sorted(found)))
    fget = an.method(FILTERSTORE, '_do_get')
    nexts = [n for n in ast.walk(fget.node) if isinstance(n, ast.Call)
             and ast.unparse(n.func) == 'next']
    ok = False
    if len(nexts) == 1 and isinstance(nexts[0].args[0], ast.GeneratorExp):
        gen = nexts[0].args[0]
        comp = gen.generators[0]
        ok = ast.unparse(comp.iter) == 'enumerate(self._items)' and len(comp.ifs) == 1 and \
            isinstance(comp.target, ast.Tuple) and \
            ast.unparse(gen.elt) == ast.unparse(comp.target.elts[0])
    check.instance('F', 'FilterStore._do_get:first-match', ok, where_fn(fget),
                   'the first item accepted by the filter, by forward scan')
    # head-of-line blocking: request dependent _do_get behind the generic takewhile trigger
    for cls_qn in [BASE] + an.p.subclasses(BASE):
        do_get = an.p.find_method(cls_qn, '_do_get')
        trigger = an.p.find_method(cls_qn, '_trigger_get')
        if do_get is None or do_get.cls.qn != cls_qn:
            continue
        ev = do_get.node.args.args[1].arg
        reads = {n.attr for n in ast.walk(do_get.node) if isinstance(n, ast.Attribute)
                 and isinstance(n.value, ast.Name) and n.value.id == ev
                 and isinstance(n.ctx, ast.Load)} - {'succeed', 'request'}
        decides = {a for a in reads if a in ('filter',)}
        prefix_stop = any(isinstance(n, ast.Call) and ast.unparse(n.func) == 'takewhile'
                          for n in ast.walk(trigger.node))
        if decides and not prefix_stop:
            # the override scans the whole queue in order and removes exactly the served
            comps = [n for n in ast.walk(trigger.node) if isinstance(n, ast.ListComp)]
            ok = len(comps) == 1 and ast.unparse(comps[0].generators[0].iter) == \
                'self.get_queue' and len(comps[0].generators[0].ifs) == 1 and \
                ast.unparse(comps[0].generators[0].ifs[0]) == 'self._do_get(%s)' % \
                ast.unparse(comps[0].generators[0].target) and \
                ast.unparse(comps[0].elt) == ast.unparse(comps[0].generators[0].target)
            removes = [n for n in ast.walk(trigger.node) if isinstance(n, ast.Call)
                       and ast.unparse(n.func) == 'self.get_queue.remove']
            check.instance('Q', '%s._trigger_get:full-scan' % cls_qn.rsplit('.', 1)[-1],
                           ok and len(removes) == 1, where_fn(trigger),
                           'every queued request is tried in queue order; exactly the '
                           'served ones are removed, in place')
        if decides:
            check.instance('F', '%s._do_get:request-dependent-under-takewhile'
                           % cls_qn.rsplit('.', 1)[-1], not prefix_stop, where_fn(do_get),
                           'whether a get can be served depends on the request itself (%s) '
                           'but the queue is served with takewhile: the first unservable '
                           'request blocks all later ones' % sorted(decides))
    check.stats.update(an.stats())


def _mutations(path, mutation, ev):
    result = []
    for index, event in enumerate(path.events):
        if mutation[0] == 'aug':
            if event.kind == 'store' and event['path'] == mutation[1] and \
                    event['aug'] is not None:
                if isinstance(event['aug'], mutation[2]) and \
                        ast.unparse(event['value']) == mutation[3].replace('event', ev):
                    result.append(index)
                else:
                    result.append(index)
            elif event.kind == 'store' and event['path'] == mutation[1]:
                result.append(index)
        else:
            if event.kind == 'call' and isinstance(event.node, ast.Call) and \
                    isinstance(event.node.func, ast.Attribute) and \
                    ast.unparse(event.node.func.value) == mutation[1].rsplit('.', 1)[0] and \
                    event.node.func.attr in ('append', 'add', 'appendleft', 'insert',
                                             'extend', 'pop', 'popleft', 'remove', 'clear'):
                result.append(index)
    return result


def _succeeds_with_popped(succeed_event, pop_event, fn) -> bool:
    args = succeed_event.node.args
    if len(args) != 1:
        return False
    if args[0] is pop_event.node:
        return True
    if isinstance(args[0], ast.Name):
        return any(v is pop_event.node for v in rules.local_values(fn, args[0].id))
    return False
