"""
C19 -- SimPy resources keep capacity, conserve content, serve requests in policy order.

Structural clauses decided (DESIGN.md section 5/C19):
  G  capacity guards: every content mutation in the ``_do_put``/``_do_get`` of the six
     resource classes is dominated by the guard that keeps the content in [0, capacity]
     -- compared as a normalised inequality, so it is neither weaker nor stricter
  S  grant agreement: content mutated <=> ``event.succeed(...)`` <=> returns True
     (named exception: releasing a Resource always succeeds); Put/Get are mirror images;
     ``cancel`` dequeues iff not triggered; ``Request.__exit__`` releases iff triggered
  Q  policy queues keep their type (only in-place mutation); served prefix removed exactly;
     priority keys start with (priority, time); pre-emption evicts the last (worst) user
     for a strictly better pre-empting request, only when full
  F  Store FIFO (append/popleft), PriorityStore (add/pop(0)), FilterStore first match by
     forward scan; a request-dependent ``_do_get`` must not sit behind a prefix-stopping
     trigger (head-of-line blocking)
Levels/contents after a history and grant times are run-time values and not decided.
"""
import ast

from ..engine import Analysis, is_call_to, short, where_fn, tested, key_truth
from ..model import AnalysisError
from ..norm import rational, _padd, equal_bool
from ..types import Callee
from .. import rules

PROP = 'C19'
BASE = 'usim.py.resources.base.BaseResource'
PUT = 'usim.py.resources.base.Put'
GET = 'usim.py.resources.base.Get'
CONTAINER = 'usim.py.resources.container.Container'
STORE = 'usim.py.resources.store.Store'
FILTERSTORE = 'usim.py.resources.store.FilterStore'
PRIOSTORE = 'usim.py.resources.store.PriorityStore'
RESOURCE = 'usim.py.resources.resource.Resource'
PREEMPTIVE = 'usim.py.resources.resource.PreemptiveResource'
PRIORESOURCE = 'usim.py.resources.resource.PriorityResource'
REQUEST = 'usim.py.resources.resource.Request'
PRIOREQUEST = 'usim.py.resources.resource.PriorityRequest'
SORTEDQUEUE = 'usim.py.resources.resource.SortedQueue'


def inequality(expr):
    """(strict?, polynomial of `bigger - smaller`) for a <, <=, >, >= comparison"""
    if not (isinstance(expr, ast.Compare) and len(expr.ops) == 1):
        return None
    op = expr.ops[0]
    left, right = expr.left, expr.comparators[0]
    if isinstance(op, (ast.Lt, ast.LtE)):
        big, small = right, left
    elif isinstance(op, (ast.Gt, ast.GtE)):
        big, small = left, right
    else:
        return None
    try:
        bn, bd = rational(big)
        sn, sd = rational(small)
    except Exception:
        return None
    if bd != {(): 1} or sd != {(): 1}:
        return None
    diff = _padd(bn, sn, -1)
    return isinstance(op, (ast.Lt, ast.Gt)), tuple(sorted(diff.items()))


def same_inequality(expr, want: str) -> bool:
    want_expr = ast.parse(want, mode='eval').body
    a, b = inequality(expr), inequality(want_expr)
    return a is not None and a == b


def run(check, an: Analysis):
    check.rule('G', 'every content mutation is dominated by exactly the guard that keeps the '
                    'content within [0, capacity]')
    check.rule('S', 'mutated <=> succeed <=> True in every _do_*; Put/Get mirrored; cancel '
                    'and Request.__exit__')
    check.rule('Q', 'policy queues keep their type; served prefix dropped; priority key; '
                    'pre-emption of the worst user for a strictly better request when full')
    check.rule('F', 'store disciplines; no request-dependent _do_get behind a takewhile '
                    'trigger')
    for qn in (BASE, CONTAINER, STORE, FILTERSTORE, PRIOSTORE, RESOURCE, PREEMPTIVE):
        an.cls(qn)

    # ---- G + S per _do_* ---------------------------------------------------------
    specs = [
        (CONTAINER, '_do_put', 'level', 'self._capacity - self._level >= event.amount',
         ('aug', 'self._level', ast.Add, 'event.amount')),
        (CONTAINER, '_do_get', 'level', 'self._level >= event.amount',
         ('aug', 'self._level', ast.Sub, 'event.amount')),
        (STORE, '_do_put', 'items', 'len(self._items) < self._capacity',
         ('call', 'self._items.append', 'event.item')),
        (PRIOSTORE, '_do_put', 'items', 'len(self._items) < self._capacity',
         ('call', 'self._items.add', 'event.item')),
        (RESOURCE, '_do_put', 'users', 'len(self.users) < self._capacity',
         ('call', 'self.users.append', 'event')),
    ]
    for cls_qn, name, what, guard, mutation in specs:
        callee = an.callee(cls_qn, name)
        fn = callee.fn
        ev = fn.node.args.args[1].arg
        guard_t = guard.replace('event', ev)
        label = '%s.%s' % (cls_qn.rsplit('.', 1)[-1], name)
        n_mut = 0
        for path in an.paths(callee):
            mut = _mutations(path, mutation, ev)
            succeeded = [e for e in path.events if e.kind == 'call' and isinstance(
                e.node, ast.Call) and rules.text_at(path, e, e.node.func) == '%s.succeed' % ev]
            returned = _returns_true(path)
            if path.normal:
                agree = bool(mut) == bool(succeeded) == returned and len(mut) <= 1
                check.instance('S', '%s:%s' % (label, 'granted' if mut else 'refused'),
                               agree, where_fn(fn),
                               'mutated=%s succeed=%s returns-True=%s' % (
                                   bool(mut), bool(succeeded), returned),
                               path=rules.path_lines(path))
            for index in mut:
                n_mut += 1
                tests = [e for e in path.events[:index] if e.kind == 'test']
                want = rules.asserted(ast.parse(guard_t, mode='eval').body, True)
                facts = [f for _p, f, _a in rules.path_inequalities(path, 0, index)]
                ok = bool(tests) and want in facts
                check.instance('G', '%s:guard' % label, ok, path.events[index].where,
                               'the change of the %s is dominated by `%s`%s' % (
                                   what, guard_t, '' if ok else ' (found `%s`)' % (
                                       ast.unparse(tests[-1].node) if tests else None)),
                               path=rules.path_lines(path, index))
        check.instance('G', '%s:mutates' % label, n_mut > 0, where_fn(fn),
                       'the operation changes the %s' % what)
    # evidence based guards (get from stores)
    for cls_qn, popper, exc in ((STORE, 'self._items.popleft', 'ext:IndexError'),
                                (PRIOSTORE, 'self._items.pop', 'ext:IndexError'),
                                (FILTERSTORE, 'self._items.pop', 'ext:StopIteration')):
        callee = an.callee(cls_qn, '_do_get')
        fn = callee.fn
        ev = fn.node.args.args[1].arg
        label = '%s._do_get' % cls_qn.rsplit('.', 1)[-1]
        seen = set()
        takers = {}
        for path in an.paths(callee):
            if not path.normal:
                continue
            pops = [e for e in path.events if e.kind == 'call' and isinstance(
                e.node, ast.Call) and rules.text_at(path, e, e.node.func) == popper
                and e.get('exit') == 'normal']
            failed = any(e.kind == 'handler' and e['exc'] == exc for e in path.events)
            succeeded = [e for e in path.events if e.kind == 'call' and isinstance(
                e.node, ast.Call) and rules.text_at(path, e, e.node.func) == '%s.succeed' % ev]
            returned = _returns_true(path)
            for e in path.events:
                if e.kind == 'call' and isinstance(e.node, ast.Call) and e.depth == 0:
                    fails = _may_find_nothing(path, e, popper)
                    if fails is not None:
                        takers.setdefault(id(e.node), (e, set()))[1].add(
                            e.get('exit') if fails else 'default')
            if failed or not pops:
                # nothing there (signalled by the exception or by a default value)
                ok = not pops and not succeeded and not returned
                seen.add('empty')
            else:
                ok = len(pops) == 1 and len(succeeded) == 1 and returned and \
                    _succeeds_with_popped(succeeded[0], pops[0], fn)
                seen.add('item')
            check.instance('S', '%s:%s' % (label, 'granted' if pops else 'refused'), ok,
                           where_fn(fn), 'an item is handed out exactly when one was taken; '
                           'an empty store refuses', path=rules.path_lines(path))
        uncaught = [e for e, exits in takers.values() if exits == {'normal'}]
        check.instance('G', '%s:guard' % label, seen == {'empty', 'item'} and not uncaught
                       and bool(takers), uncaught[0].where if uncaught else where_fn(fn),
                       'taking from an empty store is caught (%s) or answered with a default '
                       'value, never goes negative (%d taking calls)'
                       % (exc.replace('ext:', ''), len(takers)))
    # Resource release: idempotent and always granted (named exception)
    rel = an.callee(RESOURCE, '_do_get')
    ok = True
    for path in an.paths(rel):
        if path.normal:
            succeeded = any(e.kind == 'call' and isinstance(e.node, ast.Call) and
                            rules.text_at(path, e, e.node.func).endswith('.succeed')
                            for e in path.events)
            ok &= succeeded and _returns_true(path)
    removes = [n for n in ast.walk(rel.fn.node) if isinstance(n, ast.Call)
               and ast.unparse(n.func) == 'self.users.remove']
    check.instance('S', 'Resource._do_get:release-always-succeeds', ok and len(removes) == 1
                   and ast.unparse(removes[0].args[0]).endswith('.request'),
                   where_fn(rel.fn), 'releasing removes the request (if still a user) and '
                   'always succeeds (release is idempotent)')
    # ---- S: Put / Get / cancel / Request.__exit__ -----------------------------------
    for cls_qn, own, other in ((PUT, 'put', 'get'), (GET, 'get', 'put')):
        init = an.callee(cls_qn, '__init__')
        res = init.fn.node.args.args[1].arg
        ok, n = True, 0
        for path in an.paths(init):
            if not path.normal:
                continue
            n += 1
            steps = []
            for index, event in enumerate(path.events):
                if event.depth != 0 or event.kind not in ('call', 'enter') or \
                        not isinstance(event.node, ast.Call):
                    continue
                func = rules.value_text(path, index, event.node.func)
                args = [rules.value_text(path, index, a) for a in event.node.args]
                if is_call_to(event, '__init__'):
                    steps.append(('base-init', tuple(args)))
                elif func == '%s.%s_queue.append' % (res, own):
                    steps.append(('enqueue', tuple(args)))
                elif func == 'self.callbacks.append':
                    steps.append(('callback', tuple(args)))
                elif is_call_to(event, '_trigger_%s' % own) or \
                        func == '%s._trigger_%s' % (res, own):
                    steps.append(('trigger', tuple(args)))
                elif is_call_to(event, '_trigger_%s' % other):
                    steps.append(('trigger-other', tuple(args)))
            middle = sorted(steps[1:-1])
            ok &= len(steps) == 4 and steps[0] == ('base-init', (res,)) and \
                steps[-1] == ('trigger', ('None',)) and middle == sorted([
                    ('enqueue', ('self',)),
                    ('callback', ('%s._trigger_%s' % (res, other),))])
        check.instance('S', '%s.__init__' % cls_qn.rsplit('.', 1)[-1], ok and n > 0,
                       where_fn(init.fn), 'enqueue, register the inverse trigger as callback, '
                       'trigger the own side at once (%d normal paths)' % n, analysed=n)
        for recv_qn in [cls_qn] + an.p.subclasses(cls_qn):
            # (every request class: one that brings a cancel of its own is judged like these)
            cancel = an.callee(recv_qn, 'cancel')
            if recv_qn != cls_qn and cancel.fn is an.callee(cls_qn, 'cancel').fn:
                continue
            ok, seen = True, set()
            for path in an.paths(cancel):
                if not path.normal:
                    continue
                atoms = rules.path_atoms(path)
                fired = atoms.get(('truth', 'self.triggered'))
                removed = [rules.value_text(path, i, e.node.args[0])
                           for i, e in enumerate(path.events)
                           if e.kind == 'call' and e.depth == 0 and isinstance(e.node, ast.Call)
                           and e.node.args and rules.value_text(path, i, e.node.func)
                           == 'self.resource.%s_queue.remove' % own]
                seen.add(fired)
                ok &= (removed == ['self']) if fired is False else (
                    not removed and fired is True)
            check.instance('S', '%s.cancel' % recv_qn.rsplit('.', 1)[-1],
                           ok and seen == {True, False}, where_fn(cancel.fn),
                           'a request is taken out of its queue iff it was not triggered yet, '
                           'and it is this very request that is taken out (`remove(self)`)')
    base_exit = an.callee('usim.py.resources.base.BaseRequest', '__exit__')
    # the base class itself is abstract (cancel raises): judged for the concrete requests
    bpaths = [p for recv in (PUT, GET) for p in an.paths(Callee(base_exit.fn, recv))
              if p.normal]
    ok = bool(bpaths) and all(
        sum(1 for e in p.events if e.depth == 0 and e.kind in ('call', 'enter')
            and is_call_to(e, 'cancel')) == 1 for p in bpaths)
    check.instance('S', 'BaseRequest.__exit__', ok, where_fn(base_exit.fn),
                   'leaving the block cancels (%d normal paths)' % len(bpaths))
    rexit = an.callee(REQUEST, '__exit__')
    ok, seen = True, set()
    for path in an.paths(rexit):
        if not path.normal:
            continue
        atoms = rules.path_atoms(path)
        granted = atoms.get(('truth', 'self.triggered'))
        released = [i for i, e in enumerate(path.events) if e.depth == 0
                    and e.kind in ('call', 'enter') and isinstance(e.node, ast.Call)
                    and (is_call_to(e, 'release') or rules.value_text(
                        path, i, e.node.func) == 'self.resource.release')
                    and [rules.value_text(path, i, a) for a in e.node.args] == ['self']]
        chained = [i for i, e in enumerate(path.events) if e.depth == 0
                   and e.kind in ('call', 'enter') and is_call_to(e, '__exit__')]
        seen.add(granted)
        ok &= len(chained) == 1 and (
            (granted is True and len(released) == 1 and released[0] < chained[0]) or
            (granted is False and not released))
    check.instance('S', 'Request.__exit__', ok and seen == {True, False}, where_fn(rexit.fn),
                   'a granted request is released, then the request is cancelled')
    # ---- Q ------------------------------------------------------------------
    for attr in ('put_queue', 'get_queue'):
        for fn, stmt, target, recvs in rules.attribute_stores(an, attr, BASE):
            where = '%s:%d' % (fn.module.relpath, stmt.lineno)
            if isinstance(stmt, ast.Delete):
                ok = isinstance(stmt.targets[0], ast.Subscript)
                check.instance('Q', '%s:%s:in-place' % (short(fn.qn), attr), ok, where,
                               'served requests are deleted in place: %s' % ast.unparse(stmt))
                continue
            if fn.name == '__init__' and fn.cls is not None and fn.cls.qn == BASE:
                want = 'self.%s()' % ('PutQueue' if attr == 'put_queue' else 'GetQueue')
                check.instance('Q', '%s:%s:created' % (short(fn.qn), attr),
                               ast.unparse(stmt.value) == want, where,
                               'created from the class\'s policy queue type')
                continue
            check.instance('Q', '%s:%s:rebound' % (short(fn.qn), attr), False, where,
                           're-binding the queue (`%s`) loses its type: slicing a sorted '
                           'queue yields a plain list' % ast.unparse(stmt)[:60])
    for name, queue, do in (('_trigger_put', 'put_queue', '_do_put'),
                            ('_trigger_get', 'get_queue', '_do_get')):
        base_fn = an.method(BASE, name)
        # BaseResource itself is abstract (_do_* raise): judged for the concrete resources
        recvs = [q for q in an.p.subclasses(BASE) if an.p.find_method(q, name) is base_fn
                 and an.p.find_method(q, do) is not an.p.find_method(BASE, do)]
        verdict, forms, detail = bool(recvs), set(), ''
        for recv in recvs:
            good, form, why = _serves_prefix(an, Callee(base_fn, recv), queue, do)
            forms.add(form)
            if not good:
                verdict, detail = False, detail or '%s [%s]' % (why, recv.rsplit('.', 1)[-1])
        check.instance('Q', 'BaseResource.%s' % name, verdict, where_fn(base_fn),
                       'serves the head of the queue while possible and removes exactly '
                       'the served prefix, in place (%s%s; %d resource classes)' % (
                           '/'.join(sorted(forms)), detail, len(recvs)), analysed=len(recvs))
    pr = an.cls(PRIORESOURCE)
    check.instance('Q', 'PriorityResource.PutQueue', ast.unparse(pr.attrs.get(
        'PutQueue', ast.Constant(None))) == 'SortedQueue', pr.module.relpath,
        'priority resources queue requests in a SortedQueue')
    sq_init = an.method(SORTEDQUEUE, '__init__')
    # the key function handed to the sorted list: `lambda r: r.key` or a plain function
    # that returns `.key` of its argument
    ok, n_keys = True, 0
    for node in ast.walk(sq_init.node):
        if isinstance(node, ast.keyword) and node.arg == 'key':
            n_keys += 1
            ok &= _key_attribute(an, sq_init, node.value) == 'key'
    ok = ok and n_keys == 1
    check.instance('Q', 'SortedQueue:key', ok, where_fn(sq_init),
                   'the queue is ordered by the request\'s key')
    sq_append = an.callee(SORTEDQUEUE, 'append')
    sparam = sq_append.fn.node.args.args[1].arg
    spaths = [p for p in an.paths(sq_append) if p.normal]
    ok = bool(spaths) and all(
        [(rules.value_text(p, i, e.node.func), [rules.value_text(p, i, a)
                                                for a in e.node.args])
         for i, e in enumerate(p.events) if e.kind == 'call' and e.depth == 0
         and isinstance(e.node, ast.Call)] == [('self.add', [sparam])] for p in spaths)
    check.instance('Q', 'SortedQueue.append', ok, where_fn(sq_append.fn),
                   'append inserts at the sorted position')
    preq = an.method(PRIOREQUEST, '__init__')
    keydef = [n for n in ast.walk(preq.node) if isinstance(n, ast.Assign)
              and ast.unparse(n.targets[0]) == 'self.key']
    stored = set()
    for path in an.paths(an.callee(PRIOREQUEST, '__init__')):
        for index, event in enumerate(path.events):
            if event.kind == 'store' and event.get('path') == 'self.key' and \
                    event.depth == 0 and event.data.get('value') is not None:
                value = rules.value_expr(path, index, event['value'])
                # what the request keeps as its priority and as its time: the key is made
                # of these two values, whether it reads them from the attributes or from
                # the locals they were set from
                kept = {}
                for pos, before in enumerate(path.events[:index]):
                    if before.kind == 'store' and before.depth == 0 and \
                            before.get('path') in ('self.priority', 'self.time') and \
                            before.data.get('value') is not None:
                        kept[ast.unparse(rules.value_expr(path, pos, before['value']))] = \
                            before['path']
                stored.add(tuple(kept.get(ast.unparse(e), ast.unparse(e))
                                 for e in value.elts[:2])
                           if isinstance(value, ast.Tuple) else ('?',))
    ok = len(keydef) == 1 and stored == {('self.priority', 'self.time')}
    order = [ast.unparse(s.targets[0]) for s in preq.node.body if isinstance(s, ast.Assign)]
    super_last = ast.unparse(preq.node.body[-1]).startswith('super(')
    check.instance('Q', 'PriorityRequest.key', ok and super_last and
                   order.index('self.key') > order.index('self.time'), where_fn(preq),
                   'key = (priority, time, ...) is set before the request is enqueued')
    pinit = an.method(PREEMPTIVE, '__init__')
    users = [n for n in ast.walk(pinit.node) if isinstance(n, ast.Assign)
             and ast.unparse(n.targets[0]) == 'self.users']
    check.instance('Q', 'PreemptiveResource.users', len(users) == 1 and
                   ast.unparse(users[0].value) == 'SortedQueue()', where_fn(pinit),
                   'current users are kept sorted by key')
    for fn, stmt, target, recvs in rules.attribute_stores(an, 'users', RESOURCE):
        if fn.name != '__init__':
            check.instance('Q', '%s:users:rebound' % short(fn.qn), False,
                           '%s:%d' % (fn.module.relpath, stmt.lineno),
                           'the user list is re-bound outside __init__')
    from .c16 import asserted
    preempt = an.callee(PREEMPTIVE, '_do_put')
    ev = preempt.fn.node.args.args[1].arg
    n_evict = 0
    want_full = asserted(ast.parse('len(self.users) >= self.capacity', mode='eval').body,
                         True)
    want_better = asserted(ast.parse('%s.key < self.users[-1].key' % ev, mode='eval').body,
                           True)
    regular_ok, n_normal = True, 0
    for path in an.paths(preempt):
        evicted = []
        for index, event in enumerate(path.events):
            if event.kind == 'call' and isinstance(event.node, ast.Call) and \
                    event.node.args and rules.value_text(
                        path, index, event.node.func) == 'self.users.remove':
                n_evict += 1
                evicted.append(index)
                victim = rules.value_text(path, index, event.node.args[0])
                last = victim == 'self.users[-1]'
                tests = [(i, e) for i, e in enumerate(path.events[:index])
                         if e.kind == 'test']
                facts = [asserted(rules.value_expr(path, i, e.node), e['value'])
                         for i, e in tests]
                full = want_full in facts
                better = want_better in facts
                atoms = rules.path_atoms(path, 0, index)
                wants = atoms.get(('truth', '%s.preempt' % ev)) is True
                told = [(i, e) for i, e in enumerate(path.events) if i > index
                        and e.kind in ('call', 'enter') and isinstance(e.node, ast.Call)
                        and (is_call_to(e, 'interrupt') or rules.value_text(
                            path, i, e.node.func).endswith('.proc.interrupt'))]
                whom = bool(told) and rules.value_text(
                    path, told[0][0], told[0][1].node.func) == \
                    'self.users[-1].proc.interrupt'
                # what the victim is told: who took the slot, since when the victim held
                # it, and which resource
                details = False
                if told and len(told[0][1].node.args) == 1:
                    cause = rules.value_expr(path, told[0][0], told[0][1].node.args[0])
                    if isinstance(cause, ast.Call) and \
                            ast.unparse(cause.func).split('.')[-1] == 'Preempted':
                        given = dict(zip(('by', 'usage_since', 'resource'),
                                         (ast.unparse(a) for a in cause.args)))
                        given.update({kw.arg: ast.unparse(kw.value) for kw in cause.keywords})
                        details = given == {'by': '%s.proc' % ev,
                                            'usage_since': 'self.users[-1].usage_since',
                                            'resource': 'self'}
                check.instance('Q', 'PreemptiveResource._do_put:tells-victim', details,
                               told[0][1].where if told else event.where,
                               'the interrupt carries Preempted(by=<the request\'s process>, '
                               'usage_since=<when the victim was granted>, resource=self)',
                               path=rules.path_lines(path, told[0][0] if told else index))
                check.instance('Q', 'PreemptiveResource._do_put:evicts', last and full and
                               wants and better and whom, event.where,
                               'victim is the last (worst) user (%s); only when full (%s), '
                               'for a pre-empting request (%s) with a strictly smaller key '
                               '(%s); its process is interrupted (%s)' % (
                                   last, full, wants, better, whom),
                               path=rules.path_lines(path, index))
        if path.kind == 'return':
            n_normal += 1
            regular = [i for i, e in enumerate(path.events)
                       if e.kind in ('call', 'enter') and e.node is path.outcome[1]
                       and is_call_to(e, '_do_put')
                       and [rules.value_text(path, i, a) for a in e.node.args] == [ev]]
            if not regular or any(i > regular[0] for i in evicted):
                regular_ok = False
        elif path.normal:
            regular_ok = False
    check.instance('Q', 'PreemptiveResource._do_put:can-evict', n_evict > 0,
                   where_fn(preempt.fn), 'pre-emption exists')
    check.instance('Q', 'PreemptiveResource._do_put:then-regular',
                   regular_ok and n_normal > 0, where_fn(preempt.fn),
                   'after a possible eviction the regular capacity rule decides '
                   '(%d returning paths)' % n_normal, analysed=n_normal)
    # a request made while a process runs -- also inside an exception handler -- records
    # that process: the victim of a pre-emption is found through it (rule shared with C18)
    from ..report import SubCheck
    from . import c18
    c18._check_run_payload(SubCheck(check, 'Q', 'Process'), an)
    # the victim learns of its eviction when it is resumed next: a pending interrupt wins
    # over whatever else ended its wait (rule shared with C18)
    c18.check_interrupt_wins(check, an, 'Q')
    c18.check_interrupt_never_refused(check, an, 'Q')
    pre_cls = an.method('usim.py.resources.resource.Preempted', '__init__')
    args = [a.arg for a in pre_cls.node.args.args[1:]]
    check.instance('Q', 'Preempted', args == ['by', 'usage_since', 'resource'],
                   where_fn(pre_cls), 'the interrupt carries by/usage_since/resource')
    # ... and keeps them: each detail is stored under its own name
    kept = {}
    for path in an.paths(an.callee('usim.py.resources.resource.Preempted', '__init__')):
        if path.normal:
            got = {e['path']: rules.value_text(path, i, e['value'])
                   for i, e in enumerate(path.events) if e.kind == 'store'
                   and e.data.get('value') is not None}
            for name in ('by', 'usage_since', 'resource'):
                kept[name] = kept.get(name, True) and got.get('self.%s' % name) == name
    check.instance('Q', 'Preempted:details-kept', bool(kept) and all(kept.values()),
                   where_fn(pre_cls), 'the details given are the details a victim reads: %s'
                   % kept)
    # `usage_since` is the time at which the victim was granted the resource: every grant
    # stamps the request with the clock
    n_grant, unstamped = 0, None
    for cls_qn in (RESOURCE, PRIORESOURCE, PREEMPTIVE):
        doput = an.callee(cls_qn, '_do_put')
        for path in an.paths(doput):
            grants = [i for i, e in enumerate(path.events) if e.kind == 'call'
                      and isinstance(e.node, ast.Call) and isinstance(
                          e.node.func, ast.Attribute) and e.node.func.attr in ('append', 'add')
                      and rules.receiver_at(path, e) == 'self.users']
            for index in grants:
                n_grant += 1
                stamp = [e for i, e in enumerate(path.events) if e.kind == 'store'
                         and e['path'].endswith('.usage_since')
                         and rules.value_text(path, i, e['value']) in (
                             'self._env.now', 'self._env._loop.time')]
                if not stamp:
                    unstamped = unstamped or (path, index)
    check.instance('Q', 'grant:stamps-usage_since', unstamped is None and n_grant > 0,
                   where_fn(an.method(RESOURCE, '_do_put')), 'every grant of a resource '
                   'records the time of the grant on the request (%d grants on paths)'
                   % n_grant, path=rules.path_lines(*unstamped) if unstamped else None,
                   analysed=n_grant)
    # ---- F ------------------------------------------------------------------
    for cls_qn, kind, ops in ((STORE, 'deque', {'append', 'popleft'}),
                              (PRIOSTORE, 'SortedList', {'add', 'pop'}),
                              (FILTERSTORE, 'list', {'append', 'pop'})):
        init = an.method(cls_qn, '__init__')
        from .c12 import _initial_value
        made = set()
        for text in _initial_value(an, cls_qn, '_items')[1]:
            # `self._Factory()` with a class attribute naming the container type
            found = ast.parse(text, mode='eval').body if text not in ('?', '<inherited>') \
                else None
            if isinstance(found, ast.Call) and not found.args and not found.keywords and \
                    isinstance(found.func, ast.Attribute) and \
                    isinstance(found.func.value, ast.Name) and found.func.value.id == 'self':
                attr = an.p.find_class_attr(cls_qn, found.func.attr)
                value = attr[1] if attr else None
                if isinstance(value, (ast.Name, ast.Attribute)):
                    text = '%s()' % ast.unparse(value)
            made.add(text.split('.')[-1] if text.endswith('()') else text)
        ok = bool(made) and made <= ({'%s()' % kind} | ({'[]'} if kind == 'list' else set()))
        found = set()
        for name in ('_do_put', '_do_get'):
            callee = an.callee(cls_qn, name)
            for path in an.paths(callee):
                for index, event in enumerate(path.events):
                    node = event.node
                    if event.kind == 'call' and isinstance(node, ast.Call) and \
                            isinstance(node.func, ast.Attribute) and \
                            rules.value_text(path, index, node.func.value) == 'self._items':
                        found.add(node.func.attr)
                        if node.func.attr == 'pop' and cls_qn == PRIOSTORE:
                            ok = ok and len(node.args) == 1 and rules.value_text(
                                path, index, node.args[0]) == '0'
        check.instance('F', '%s:items-discipline' % cls_qn.rsplit('.', 1)[-1],
                       ok and found == ops, where_fn(init),
                       'items kept in a %s, operations %s' % (kind, sorted(found)))
    fget = an.method(FILTERSTORE, '_do_get')
    fev = fget.node.args.args[1].arg
    ok, n_taken = True, 0
    for path in an.paths(an.callee(FILTERSTORE, '_do_get')):
        for index, event in enumerate(path.events):
            node = event.node
            if not (event.kind == 'call' and isinstance(node, ast.Call) and event.depth == 0
                    and rules.text_at(path, event, node.func) == 'self._items.pop'):
                continue
            n_taken += 1
            ok = ok and len(node.args) == 1 and _first_match_search(
                path, index, node.args[0], fev)
    ok = ok and n_taken > 0
    check.instance('F', 'FilterStore._do_get:first-match', ok, where_fn(fget),
                   'the first item accepted by the filter, by forward scan')
    # head-of-line blocking: request dependent _do_get behind the generic takewhile trigger
    for cls_qn in [BASE] + an.p.subclasses(BASE):
        do_get = an.p.find_method(cls_qn, '_do_get')
        trigger = an.p.find_method(cls_qn, '_trigger_get')
        if do_get is None or do_get.cls.qn != cls_qn:
            continue
        ev = do_get.node.args.args[1].arg
        reads = {n.attr for n in ast.walk(do_get.node) if isinstance(n, ast.Attribute)
                 and isinstance(n.value, ast.Name) and n.value.id == ev
                 and isinstance(n.ctx, ast.Load)} - {'succeed', 'request'}
        decides = {a for a in reads if a in ('filter',)}
        prefix_stop = _serves_prefix(an, Callee(trigger, cls_qn), 'get_queue', '_do_get')[0]
        if decides and not prefix_stop:
            ok, detail = _serves_by_scan(an, Callee(trigger, cls_qn), 'get_queue', '_do_get')
            check.instance('Q', '%s._trigger_get:full-scan' % cls_qn.rsplit('.', 1)[-1],
                           ok, where_fn(trigger),
                           'every queued request is tried in queue order; exactly the '
                           'served ones are removed, in place (%s)' % detail)
        if decides:
            check.instance('F', '%s._do_get:request-dependent-under-takewhile'
                           % cls_qn.rsplit('.', 1)[-1], not prefix_stop, where_fn(do_get),
                           'whether a get can be served depends on the request itself (%s) '
                           'but the queue is served with takewhile: the first unservable '
                           'request blocks all later ones' % sorted(decides))
    # the kernel rules every suspending operation rests on (shared; see _scope)
    from . import _scope as _kernel
    _kernel.check_kernel_core(check, an)
    from . import _scope as _sc
    _sc.check_scope_core(check, an)
    check.stats.update(an.stats())


def _queue_iterations(path, queue):
    """[(iter-next index, loop node)] of loops over ``self.<queue>`` on the path"""
    return [(i, e.node) for i, e in enumerate(path.events)
            if e.kind == 'iter-next' and e.depth == 0
            and rules.value_text(path, i, e.node.iter) == 'self.%s' % queue]


def _serve_outcome(path, start, stop, do, loop_node):
    """truth of the one ``do(<loop variable>)`` test inside an iteration, else None"""
    calls = [(i, e) for i, e in enumerate(path.events[start:stop], start)
             if e.kind in ('call', 'enter') and isinstance(e.node, ast.Call)
             and is_call_to(e, do)
             and [rules.value_text(path, i, a) for a in e.node.args]
             == [ast.unparse(loop_node.target)]]
    if len(calls) != 1:
        return None
    call = calls[0][1].node
    for event in path.events[calls[0][0]:stop]:
        if event.kind == 'test' and any(sub is call for sub in ast.walk(event.node)):
            return key_truth(event) if event.data.get('key') else bool(event['value'])
    return None


def _serves_prefix(an: Analysis, callee: Callee, queue: str, do: str):
    """
    (verdict, form, detail): the queue head is served while ``do`` grants and exactly the
    served prefix is deleted in place.  Two idioms are understood:
    ``served = list(takewhile(do, queue)); del queue[:len(served)]`` and a counting loop
    that stops at the first refusal followed by ``del queue[:count]``.
    """
    paths = [p for p in an.paths(callee) if p.normal]
    if not paths:
        return False, 'no normal path', ''
    forms = set()
    for path in paths:
        dels = [(i, e) for i, e in enumerate(path.events) if e.kind == 'del' and e.depth == 0]
        if len(dels) != 1:
            return False, 'unknown', ': %d deletions on a path' % len(dels)
        index, event = dels[0]
        target = event.node
        if not (isinstance(target, ast.Subscript) and isinstance(target.slice, ast.Slice)
                and target.slice.lower is None and target.slice.step is None
                and target.slice.upper is not None
                and rules.value_text(path, index, target.value) == 'self.%s' % queue):
            return False, 'unknown', ': deletes %s' % ast.unparse(target)
        upper = target.slice.upper
        counted = isinstance(upper, ast.Name) and any(
            isinstance(n, ast.AugAssign) and isinstance(n.target, ast.Name)
            and n.target.id == upper.id for n in ast.walk(callee.fn.node))
        if not counted:
            upper = rules.value_expr(path, index, upper)
        loops = _queue_iterations(path, queue)
        inner = _counted(upper)
        if inner is not None:
            good = isinstance(inner, ast.Call) and \
                ast.unparse(inner.func).split('.')[-1] == 'takewhile' and \
                [ast.unparse(a) for a in inner.args] == ['self.%s' % do, 'self.%s' % queue]
            if not good or loops:
                return False, 'takewhile', ': prefix length is %s' % ast.unparse(upper)
            forms.add('takewhile')
            continue
        if not isinstance(upper, ast.Name):
            return False, 'unknown', ': prefix length is %s' % ast.unparse(upper)
        # counting loop
        counter = upper.id
        stores = [(i, e) for i, e in enumerate(path.events[:index])
                  if e.kind == 'store' and e.depth == 0 and e['path'] == counter]
        if not stores or stores[0][1]['aug'] is not None or not (
                isinstance(stores[0][1]['value'], ast.Constant)
                and stores[0][1]['value'].value == 0):
            return False, 'counting loop', ': the counter does not start at 0'
        bounds = [i for i, _n in loops] + [index]
        if loops and stores[0][0] > loops[0][0]:
            return False, 'counting loop', ': the counter is reset inside the loop'
        refused = False
        for k, (start, node) in enumerate(loops):
            stop = bounds[k + 1]
            if refused:
                return False, 'counting loop', ': serving goes on after a refusal'
            outcome = _serve_outcome(path, start, stop, do, node)
            bumps = [e for i, e in stores if start < i < stop]
            unit = all(isinstance(e['aug'], ast.Add) and isinstance(e['value'], ast.Constant)
                       and e['value'].value == 1 for e in bumps)
            if outcome is True:
                if len(bumps) != 1 or not unit:
                    return False, 'counting loop', ': a served request is not counted once'
            elif outcome is False:
                if bumps:
                    return False, 'counting loop', ': a refused request is counted'
                refused = True
            else:
                return False, 'counting loop', ': no `%s(request)` decision per request' % do
        if len(stores) - 1 != sum(1 for i, _e in stores[1:] if any(
                start < i for start, _n in loops)):
            return False, 'counting loop', ': the counter changes outside the loop'
        forms.add('counting loop')
    return len(forms) == 1, '/'.join(sorted(forms)), ''


def _key_attribute(an: Analysis, fn, expr):
    """the attribute ``a`` when ``expr`` is a one-argument function returning ``<arg>.a``"""
    if isinstance(expr, ast.Lambda) and len(expr.args.args) == 1:
        param, body = expr.args.args[0].arg, expr.body
    elif isinstance(expr, (ast.Name, ast.Attribute)):
        binding = an.p.resolve_dotted(fn.module, expr)
        target = an.p.functions.get(binding[1]) if binding and binding[0] == 'func' else None
        if target is None or target.kind != 'sync' or len(target.node.args.args) != 1:
            return None
        stmts = [st for st in target.node.body
                 if not (isinstance(st, ast.Expr) and isinstance(st.value, ast.Constant))]
        if len(stmts) != 1 or not isinstance(stmts[0], ast.Return):
            return None
        param, body = target.node.args.args[0].arg, stmts[0].value
    else:
        return None
    if isinstance(body, ast.Attribute) and isinstance(body.value, ast.Name) and \
            body.value.id == param:
        return body.attr
    return None


def _counted(expr):
    """X for ``len(X)``, ``len(list(X))``, ``len(tuple(X))`` and ``sum(1 for _ in X)``: the
    number of elements X produces; None for anything else"""
    if isinstance(expr, ast.Call) and isinstance(expr.func, ast.Name) and \
            len(expr.args) == 1 and not expr.keywords:
        if expr.func.id == 'len':
            inner = expr.args[0]
            if isinstance(inner, ast.Call) and ast.unparse(inner.func) in ('list', 'tuple') \
                    and len(inner.args) == 1 and not inner.keywords:
                inner = inner.args[0]
            return inner
        gen = expr.args[0]
        if expr.func.id == 'sum' and isinstance(gen, ast.GeneratorExp) and \
                isinstance(gen.elt, ast.Constant) and gen.elt.value == 1 and \
                type(gen.elt.value) is int and len(gen.generators) == 1 and \
                not gen.generators[0].ifs and not gen.generators[0].is_async:
            return gen.generators[0].iter
    return None


def _serves_by_scan(an: Analysis, callee: Callee, queue: str, do: str):
    """
    every queued request is offered ``do`` once, in queue order, without mutating the queue
    meanwhile; the granted ones are collected and then removed one by one
    """
    paths = [p for p in an.paths(callee) if p.normal]
    if not paths:
        return False, 'no normal path'
    n_try = n_remove = 0
    for path in paths:
        loops = _queue_iterations(path, queue)
        events = path.events
        collected = None
        removals = [i for i, e in enumerate(events) if e.kind == 'call' and e.depth == 0
                    and isinstance(e.node, ast.Call)
                    and rules.value_text(path, i, e.node.func, keep_clock=True)
                    == 'self.%s.remove' % queue]
        last_scan = -1
        for k, (start, node) in enumerate(loops):
            ends = [i for i in range(start + 1, len(events))
                    if events[i].kind in ('iter-next', 'iter-end') and events[i].depth == 0
                    and events[i].node is node]
            stop = ends[0] if ends else len(events)
            last_scan = max(last_scan, stop)
            outcome = _serve_outcome(path, start, stop, do, node)
            if outcome is None:
                return False, 'a queued request is not offered `%s` exactly once' % do
            n_try += 1
            kept = [e for e in events[start:stop] if e.depth == 0 and (
                (e.kind == 'element' and ast.unparse(e.node) == ast.unparse(node.target)) or
                (e.kind == 'call' and isinstance(e.node, ast.Call)
                 and isinstance(e.node.func, ast.Attribute) and e.node.func.attr == 'append'
                 and [ast.unparse(a) for a in e.node.args] == [ast.unparse(node.target)]))]
            if (len(kept) == 1) != outcome:
                return False, 'the granted requests are not exactly the collected ones'
            for e in kept:
                name = None
                if e.kind == 'call':
                    name = ast.unparse(e.node.func.value)
                else:
                    following = [s for s in events[stop:] if s.kind == 'store'
                                 and s.get('value') is not None
                                 and rules.comprehension_of(s.get('value'))
                                 is e.data.get('comprehension')]
                    name = following[0]['path'] if following else None
                if collected not in (None, name):
                    return False, 'granted requests are collected in different lists'
                collected = name
            if any(start < i < stop for i in removals):
                return False, 'the queue is changed while it is scanned'
        # removal loops: over the collected list, one removal of the loop variable each
        for index, event in enumerate(events):
            if event.kind == 'iter-next' and event.depth == 0 and index > last_scan and \
                    isinstance(event.node.iter, ast.Name):
                if collected is not None and event.node.iter.id != collected:
                    return False, 'removes requests of another list than the granted ones'
                ends = [i for i in range(index + 1, len(events))
                        if events[i].kind in ('iter-next', 'iter-end')
                        and events[i].node is event.node]
                stop = ends[0] if ends else len(events)
                mine = [i for i in removals if index < i < stop]
                if len(mine) != 1 or [ast.unparse(a) for a in events[mine[0]].node.args] != \
                        [ast.unparse(event.node.target)]:
                    return False, 'a granted request is not removed exactly once'
                n_remove += 1
        if any(i < last_scan for i in removals):
            return False, 'the queue is changed while it is scanned'
        inside = [i for i in removals if not any(
            events[j].kind == 'iter-next' and events[j].depth == 0 and j < i
            and j > last_scan for j in range(len(events)))]
        if inside:
            return False, 'a removal outside the removal loop'
    if n_try == 0 or n_remove == 0:
        return False, 'no scan (%d offers, %d removals on paths)' % (n_try, n_remove)
    return True, '%d offers, %d removals on paths' % (n_try, n_remove)


def _mutations(path, mutation, ev):
    result = []
    for index, event in enumerate(path.events):
        if mutation[0] == 'aug':
            if event.kind == 'store' and event['path'] == mutation[1] and \
                    event['aug'] is not None:
                if isinstance(event['aug'], mutation[2]) and \
                        ast.unparse(event['value']) == mutation[3].replace('event', ev):
                    result.append(index)
                else:
                    result.append(index)
            elif event.kind == 'store' and event['path'] == mutation[1]:
                result.append(index)
        else:
            if event.kind == 'call' and isinstance(event.node, ast.Call) and \
                    isinstance(event.node.func, ast.Attribute) and \
                    rules.text_at(path, event, event.node.func.value) == \
                    mutation[1].rsplit('.', 1)[0] and \
                    event.node.func.attr in ('append', 'add', 'appendleft', 'insert',
                                             'extend', 'pop', 'popleft', 'remove', 'clear'):
                result.append(index)
    return result


def _first_match_search(path, index, position, ev) -> bool:
    """``position`` is ``next(i for i, item in enumerate(self._items) if <filter>(item))``
    -- with or without a default -- where <filter> is the request's filter"""
    found = rules.value_expr(path, index, position)
    if not (isinstance(found, ast.Call) and ast.unparse(found.func) == 'next'
            and found.args and isinstance(found.args[0], ast.GeneratorExp)):
        return False
    gen = found.args[0]
    if len(gen.generators) != 1:
        return False
    comp = gen.generators[0]
    if not (ast.unparse(comp.iter) == 'enumerate(self._items)' and len(comp.ifs) == 1
            and isinstance(comp.target, ast.Tuple) and len(comp.target.elts) == 2
            and ast.unparse(gen.elt) == ast.unparse(comp.target.elts[0])
            and not comp.is_async):
        return False
    test = comp.ifs[0]
    return isinstance(test, ast.Call) and not test.keywords and \
        [ast.unparse(a) for a in test.args] == [ast.unparse(comp.target.elts[1])] and \
        ast.unparse(test.func) == '%s.filter' % ev


def _returns_true(path) -> bool:
    if path.kind != 'return' or path.outcome[1] is None:
        return False
    value = rules.value_expr(path, len(path.events), path.outcome[1])
    return isinstance(value, ast.Constant) and value.value is True


def _may_find_nothing(path, event, popper) -> bool:
    """a call that fails on an empty source: the pop itself, or ``next`` without default"""
    node = event.node
    if rules.text_at(path, event, node.func) == popper:
        # taking the position a search just found cannot fail: the search is what may
        # find nothing
        found = [rules.value_expr(path, rules.event_index(path, event), a)
                 for a in node.args]
        if any(isinstance(a, ast.Call) and ast.unparse(a.func) == 'next' for a in found):
            return None
        return True
    if any(ext[-1].split('.')[-1] == 'next' for ext in event.get('externals') or ()):
        return len(node.args) == 1
    return None


def _succeeds_with_popped(succeed_event, pop_event, fn) -> bool:
    args = succeed_event.node.args
    if len(args) != 1:
        return False
    if rules.is_site(pop_event.node, args[0]):
        return True
    if isinstance(args[0], ast.Name):
        return any(v is not None and rules.is_site(pop_event.node, v)
                   for v in rules.local_values(fn, args[0].id))
    return False
