"""
C07 -- until()/run(till) end the block exactly when the notification fires, else never.

Structural clauses decided (DESIGN.md section 5/C07):
  P  the until-scope subscribes its own signal on entry (after the base entry) and
     unsubscribes the same pair in ``_disable_interrupts`` -- which every way out of the
     scope passes (C04/P) -- chaining to the base implementation
  suppress  ``_is_suppressed`` compares by identity with signals the scope created itself
     (EnvironmentScope additionally absorbs StopSimulation) and chains to ``super()``;
     ``__aexit__`` therefore ends silently exactly for its own signal
  I  immediacy <=> truth: a subscriber is notified at once exactly when the condition
     holds (generic conditions by path analysis, time conditions by the C01 tables,
     Delay always after its own positive duration)
  C  trigger coverage for everything until() can be given (shared with C08)
  R  run(till=T): one root activity whose body is ``async with until(time == T)`` and which
     starts every original activity in argument order
"""
import ast

from ..engine import Analysis, is_call_to, is_suspension, short, where_fn, tested, \
    key_truth, event_callees, invoked
from ..model import AnalysisError
from ..norm import bool_term
from ..paths import CANCEL_SCOPE
from ..types import Callee
from .. import rules
from . import _scope, c01, c08

PROP = 'C07'
ISCOPE = _scope.INTERRUPT_SCOPE
SCOPE = _scope.SCOPE
CONDITION = c08.CONDITION
NOTIFICATION = c08.NOTIFICATION


def run(check, an: Analysis):
    check.rule('P', 'until-scope: subscribe(activity, own signal) on entry, unsubscribe the '
                    'same pair in _disable_interrupts, chained to super()')
    check.rule('suppress', '_is_suppressed: identity with own signals (+StopSimulation for '
                           'the SimPy scope), chained; __aexit__ silent exactly for them')
    check.rule('I', 'a subscriber is notified at once exactly when the condition holds')
    check.rule('C', 'trigger coverage for condition classes that park subscribers')
    check.rule('R', 'run(till): single root `async with until(time == till)` starting all '
                    'activities in order')
    check.rule('K', 'the children of an abandoned block are closed: Task.__close__ finalises '
                    'every unfinished task, whether it has started running or not (rule '
                    'shared with C04)')
    an.cls(ISCOPE)
    from . import c04
    c04.check_task_close(check, an, 'K')
    # ... on every way out of the until-block, after new tasks are refused
    c04.check_close_on_every_exit(check, an, 'K', [ISCOPE])
    # leaving the block unsubscribes from whatever the notification parked the block in
    from ..report import SubCheck
    from . import c03
    c03._check_subscribe_protocol(SubCheck(check, 'P', 'Notification'), an)

    # ---- P ------------------------------------------------------------------
    check_until_pairing(check, an, 'P')
    _run_rest(check, an)


def check_until_pairing(check, an: Analysis, rule: str):
    """an until-block subscribes (its activity, its own signal) to the notification on
    entry and takes the same pair back when it is closed, by whichever activity that is
    done; the base class then withdraws the scope's own cancel signal"""
    aenter = an.callee(ISCOPE, '__aenter__')
    init = an.method(ISCOPE, '__init__')
    made = [n for n in ast.walk(init.node) if isinstance(n, ast.Assign)
            and ast.unparse(n.targets[0]) == 'self._interrupt']
    note_param = init.node.args.args[1].arg
    ok = len(made) == 1 and isinstance(made[0].value, ast.Call) and \
        ast.unparse(made[0].value.func) == 'CancelScope' and \
        ast.unparse(made[0].value.args[0]) == 'self'
    stored = any(isinstance(n, ast.Assign) and ast.unparse(n.targets[0]) ==
                 'self._notification' and ast.unparse(n.value) == note_param
                 for n in ast.walk(init.node))
    check.instance(rule, 'InterruptScope.__init__:own-signal', ok and stored, where_fn(init),
                   'a fresh CancelScope(self, ...) per scope; the notification is kept')
    pair = None
    for path in an.paths(aenter):
        if not path.normal:
            continue
        base = [i for i, e in enumerate(path.events)
                if e.kind == 'susp' and is_call_to(e, '__aenter__', SCOPE)]
        subs = [i for i, e in enumerate(path.events) if is_call_to(e, '__subscribe__')
                or (e.kind == 'call' and isinstance(e.node, ast.Call)
                    and isinstance(e.node.func, ast.Attribute)
                    and e.node.func.attr == '__subscribe__')]
        ok = len(base) == 1 and len(subs) == 1 and base[0] < subs[0]
        if subs:
            call = path.events[subs[0]].node
            pair = [ast.unparse(a) for a in call.args]
            ok = ok and ast.unparse(call.func.value) == 'self._notification' and \
                pair == ['self._activity', 'self._interrupt']
        check.instance(rule, 'InterruptScope.__aenter__:subscribes', ok, where_fn(aenter.fn),
                       'after the base entry, notification.__subscribe__(self._activity, '
                       'self._interrupt): %s' % pair, path=rules.path_lines(path))
    disable = an.callee(ISCOPE, '_disable_interrupts')
    for path in an.paths(disable):
        if not path.normal:
            continue
        unsubs = [e for e in path.events if e.kind == 'call' and isinstance(
            e.node, ast.Call) and isinstance(e.node.func, ast.Attribute)
            and e.node.func.attr == '__unsubscribe__' and e.depth == 0]
        chained = any(is_call_to(e, '_disable_interrupts', SCOPE) for e in path.events)
        ok = len(unsubs) == 1 and [ast.unparse(a) for a in unsubs[0].node.args] == pair \
            and ast.unparse(unsubs[0].node.func.value) == 'self._notification' and chained
        check.instance(rule, 'InterruptScope._disable_interrupts:unsubscribes', ok,
                       where_fn(disable.fn), 'the same pair is unsubscribed and the base '
                       'implementation (revoke own cancel signal) still runs',
                       path=rules.path_lines(path))
    base_disable = an.callee(SCOPE, '_disable_interrupts')
    for path in an.paths(base_disable):
        if path.normal:
            off = any(e.kind == 'store' and e['path'] == 'self._interruptable' and
                      isinstance(e['value'], ast.Constant) and e['value'].value is False
                      for e in path.events)
            revoked = any(e.kind == 'call' and isinstance(e.node, ast.Call) and
                          rules.text_at(path, e, e.node.func) == 'self._cancel_self.revoke'
                          for e in path.events)
            check.instance(rule, 'Scope._disable_interrupts', off and revoked,
                           where_fn(base_disable.fn),
                           'marks the scope closed and revokes its cancel signal')
    close = an.callee(ISCOPE, '__aexit__')
    resolved = set()
    for which in ('none', 'genexit', 'exc:ext:Exception'):
        for path in an.paths(close, which):
            for event in path.events:
                if is_call_to(event, '_disable_interrupts') and event.kind != 'leave':
                    # the first one reached decides which implementation runs
                    resolved |= {c.fn.qn for c in event_callees(event)}
                    break
    check.instance(rule, '_close_scope[InterruptScope]->override',
                   resolved == {ISCOPE + '._disable_interrupts'}, where_fn(close.fn),
                   'closing an until-scope runs the overriding _disable_interrupts: %s'
                   % sorted(short(r) for r in resolved))


def _run_rest(check, an: Analysis):
    unsub = an.callee(NOTIFICATION, '__unsubscribe__')
    forms = {}
    for path in an.paths(unsub):
        if not path.normal:
            continue
        sched = [e for e in path.events if e.kind == 'test'
                 and e.get('key') == ('truth', 'interrupt.scheduled')]
        revoked = any(e.kind == 'call' and isinstance(e.node, ast.Call) and
                      rules.text_at(path, e, e.node.func) == 'interrupt.revoke' for e in path.events)
        removed = any(e.kind == 'call' and isinstance(e.node, ast.Call) and
                      rules.text_at(path, e, e.node.func) == 'self._waiting.remove'
                      for e in path.events)
        if sched:
            forms[key_truth(sched[0])] = (revoked, removed)
    check.instance('P', 'Notification.__unsubscribe__', forms == {True: (True, False),
                                                                 False: (False, True)},
                   where_fn(unsub.fn), 'a delivered signal is revoked, a parked one is '
                   'removed from the waiter list: %s' % forms)
    # ---- suppress -------------------------------------------------------------
    _scope.check_suppression(check, an, 'suppress')
    _scope.check_foreign_signal_leaves_exit(check, an, 'suppress')
    # an interrupted block closes every child, not every second one
    from . import c04
    c04.check_copy_iteration(check, an, 'P')
    aexit = an.callee(ISCOPE, '__aexit__')
    summ = an.it.summary(aexit, 'exc:' + CANCEL_SCOPE)
    silent = [p for p in summ.paths if p.kind == 'return' and len(p.outcome) > 2
              and p.outcome[2] is True]
    by_own = any(any(e.kind in ('test', 'retval') and 'self._interrupt' in ast.unparse(e.node)
                     and e['value'] is True for e in p.events) for p in silent)
    check.instance('suppress', 'until:own-signal-ends-silently', bool(silent) and by_own,
                   where_fn(aexit.fn), 'for its own interrupt the block ends without '
                   'raising (%d such paths)' % len(silent), analysed=len(summ.paths))
    for recv in _scope.scope_receivers(an):
        raexit = an.callee(recv, '__aexit__')
        verdict, n, bad = True, 0, None
        for path in an.paths(raexit, 'none'):
            for index, event in enumerate(path.events):
                if event.kind == 'susp' and event.depth == 0 and \
                        event['exit'] == CANCEL_SCOPE:
                    n += 1
                    judged = any(e.kind in ('enter', 'call') and
                                 is_call_to(e, '_propagate_exceptions')
                                 for e in path.events[index:])
                    if not judged:
                        verdict = False
                        bad = bad or (path, index)
        check.instance('suppress', '__aexit__[%s]:signal-during-exit-is-judged'
                       % recv.rsplit('.', 1)[-1], verdict and n > 0, where_fn(raexit.fn),
                       'a scope signal arriving at any suspension of the graceful exit '
                       '(%d sites on paths) is handed to _propagate_exceptions, so the '
                       'scope\'s own signal ends the block silently' % n,
                       path=rules.path_lines(*bad) if bad else None, analysed=n)
    # ---- I ------------------------------------------------------------------
    check_immediacy(check, an, 'I')
    # ... and later exactly when it comes to hold: the signal of an until block is
    # delivered without a second look at the condition (rule shared with C08)
    c08.check_comparison_trigger(check, an, 'I')
    # the signal of an until-block must pass a wait on `a & b` / `a | b` inside the block:
    # a connective absorbs exactly the wake-ups of its own subscriptions (rules shared with
    # C08 and C03)
    from ..report import SubCheck as _Sub
    c08._check_connective_subscription(_Sub(check, 'I', 'Connective'), an)
    from . import c03 as _c03
    _c03.check_handlers(check, an, 'I')
    c08.check_connective_operators(check, an, 'I')
    # what an until-block watches comes to hold by a store to a truth source (a flag, the
    # done-state of a task, a tracked value): each such store tells the subscribers in the
    # same atomic block -- however the task ended (rule shared with C08)
    c08._check_wakeups(_Sub(check, 'I', 'wake-up'), an)
    # `until(time + d)`: a dated activation is asked for only for a date that lies ahead
    # (a wake-up queued "in zero time" lands in a bucket of its own behind everything the
    # current time step still does; `time + 0` is the instant) (rule shared with C01)
    from . import c01 as _c01
    _c01._check_schedule_preconditions(_Sub(check, 'I', 'schedule'), an)
    check.floor('I', 20)
    # ---- C ------------------------------------------------------------------
    c08._check_trigger_coverage(check, an, c08.condition_classes(an))
    # ---- R ------------------------------------------------------------------
    check_run_root(check, an, 'R')
    from . import _scope as _kernel
    _kernel.check_kernel_core(check, an)
    check.stats.update(an.stats())


def check_run_root(check, an: Analysis, rule: str):
    """run(till=T): one root activity `async with until(time == T)` starting all activities"""
    from . import _run
    run_fn, acts, rps = _run.run_paths(an)
    roots = {}
    for rp in rps:
        if rp.initial == 'root':
            roots[rp.root_fn.qn] = rp
    ok_root = False
    detail = 'root coroutine not found'
    if len(roots) == 1:
        rp = next(iter(roots.values()))
        cond_ok, loop_ok, n_paths = _run.root_shape(an, rp.root_fn, rp.bound, acts)
        ok_root = cond_ok and loop_ok
        detail = 'until(time == till): %s; every activity started in order: %s ' \
                 '(%d paths of %s, parameters %s)' % (cond_ok, loop_ok, n_paths,
                                                      short(rp.root_fn.qn), rp.bound)
    check.instance(rule, 'run:root-shape', ok_root, where_fn(run_fn), detail)
    seen = set()
    for rp in rps:
        if rp.limited is None:
            continue
        seen.add(rp.limited)
        wrapped = rp.initial == 'root'
        plain = rp.initial == 'activities'
        check.instance(rule, 'run:till=%s' % ('given' if rp.limited else 'None'),
                       (wrapped if rp.limited else plain) and len(rp.loops) == 1,
                       where_fn(run_fn),
                       'the loop receives the single root activity iff a `till` is given, '
                       'the activities themselves otherwise (here: %s)' % rp.initial,
                       path=rules.path_lines(rp.path))
    check.instance(rule, 'run:both-cases', seen == {True, False}, where_fn(run_fn),
                   'run distinguishes till given / not given')
    ok = bool(rps) and all(len(rp.loops) == 1 and rp.initial in ('root', 'activities')
                           for rp in rps) and len(roots) == 1
    check.instance(rule, 'run:single-root', ok, where_fn(run_fn),
                   'the loop receives exactly the one root activity')


def check_immediacy(check, an: Analysis, rule: str):
    """a subscriber is notified at once exactly when the condition holds (no spin, no miss)"""
    generic = an.method(CONDITION, '__subscribe__')
    for qn in c08.condition_classes(an):
        if qn in (CONDITION, c08.CONNECTIVE) or qn in c01.SUBSCRIBE_TABLE:
            continue
        method = an.p.find_method(qn, '__subscribe__')
        label = qn.rsplit('.', 1)[-1]
        if method is not generic:
            raise AnalysisError('%s overrides __subscribe__: needs review' % qn)
        callee = Callee(method, qn)
        verdict, n = True, 0
        bad = None
        for path in an.paths(callee):
            if not path.normal:
                continue
            n += 1
            holds = [e for e in path.events if e.kind == 'test'
                     and e.get('key') == ('truth', 'self')]
            sched = [e for e in path.events if is_call_to(e, 'schedule')]
            parked = any(is_call_to(e, '__subscribe__', NOTIFICATION) or (
                e.kind == 'call' and isinstance(e.node, ast.Call)
                and isinstance(e.node.func, ast.Attribute) and e.node.func.attr == 'append'
                and rules.value_text(path, i, e.node.func.value) == 'self._waiting'
                and [rules.value_text(path, i, a) for a in e.node.args] == [
                    '(%s)' % ', '.join(a.arg for a in method.node.args.args[1:3])])
                for i, e in enumerate(path.events))
            if holds and key_truth(holds[0]):
                undated = bool(sched) and not any(
                    kw.arg in ('delay', 'at') for kw in sched[0].node.keywords)
                marked = any(e.kind == 'store' and e['path'] == 'interrupt.scheduled'
                             for e in path.events)
                ok = undated and not parked and (marked or True)
            else:
                ok = bool(holds) and parked and not sched
            if not ok:
                verdict = False
                bad = bad or path
        check.instance(rule, 'subscribe:%s' % label, verdict and n >= 2, where_fn(method),
                       'notified at once (undated) iff the condition holds, else parked '
                       '(%d paths)' % n, path=rules.path_lines(bad) if bad else None,
                       analysed=n)
    c01.check_subscribe_table(check, an, rule=rule)
    delay_sub = an.callee(c01.DELAY, '__subscribe__')
    for path in an.paths(delay_sub):
        sched = [e for e in path.events if is_call_to(e, 'schedule')]
        ok = len(sched) == 1 and {kw.arg: ast.unparse(kw.value)
                                  for kw in sched[0].node.keywords} == {
            'delay': 'self.duration'}
        check.instance(rule, 'subscribe:Delay', ok and path.normal, where_fn(delay_sub.fn),
                       'notified after the delay\'s own duration')


def _or_atoms(expr):
    if isinstance(expr, ast.BoolOp) and isinstance(expr.op, ast.Or):
        out = []
        for value in expr.values:
            out.extend(_or_atoms(value))
        return out
    return [expr]


def _is_own_signal(an: Analysis, recv: str, attr: str) -> bool:
    """``self.attr`` is assigned exactly once, in an __init__, from ``CancelScope(self, ...)``"""
    stores = rules.attribute_stores(an, attr, recv)
    if len(stores) != 1:
        return False
    fn, stmt, target, recvs = stores[0]
    value = stmt.value if isinstance(stmt, ast.Assign) else None
    return fn.name == '__init__' and isinstance(value, ast.Call) and \
        ast.unparse(value.func) == 'CancelScope' and bool(value.args) and \
        ast.unparse(value.args[0]) == 'self'


def _default_source(root, run_fn, outer_name):
    """name inside ``root`` that carries run()'s ``outer_name`` (closure or default arg)"""
    args = root.node.args
    names = [a.arg for a in args.args]
    defaults = args.defaults
    offset = len(names) - len(defaults)
    for index, default in enumerate(defaults):
        if isinstance(default, ast.Name) and default.id == outer_name:
            return names[offset + index]
    return outer_name
