"""
C18 -- SimPy layer: events fire once; processes resume with the right value and time.

Structural clauses decided (DESIGN.md section 5/C18):
  O  fire-once typestate: every write of ``Event._value`` (succeed / fail / trigger) is
     dominated by ``_value is None`` with a raise/assert on the other branch
  T  trigger completeness: ``_trigger`` raises the flag, triggers it and schedules the
     callback task -- one atomic block; ``_invoke_callbacks`` swaps ``callbacks`` to None
     before calling each once and raises an undefused failure
  A  awaiting an event: wait for the flag, then return/raise from the stored value
  P  plumbing: Timeout (negative delay rejected first, waits ``time + delay``, succeeds with
     its value); Process (StopIteration before the generic handler, return value ->
     succeed, error -> fail, try body suspension free, interrupt only while alive,
     interrupts queued FIFO); AllOf/AnyOf evaluators
  U  until/run: past ``until`` rejected; waits for ``time >= until`` or the event's flag,
     then raises StopSimulation which the environment scope absorbs; ``run`` returns the
     event's value and is refused inside a simulation
Fan-out values/times for arbitrary process graphs and callback effects are not decided.
"""
import ast

from ..engine import Analysis, is_call_to, is_suspension, short, where_fn, tested, \
    key_truth, event_callees
from ..model import AnalysisError
from ..norm import equal_bool, equal_algebra
from ..types import Callee
from .. import rules

PROP = 'C18'
EVENT = 'usim.py.events.Event'
TIMEOUT = 'usim.py.events.Timeout'
PROCESS = 'usim.py.events.Process'
IQUEUE = 'usim.py.events.InterruptQueue'
CONDITION = 'usim.py.events.Condition'
ENV = 'usim.py.core.Environment'
ENVSCOPE = 'usim.py.core.EnvironmentScope'
STOP = 'usim.py.exceptions.StopSimulation'


def _check_timeout(check, an: Analysis):
    from .c16 import asserted
    tinit = an.callee(TIMEOUT, '__init__')
    params = [a.arg for a in tinit.fn.node.args.args]
    env, delay, value = params[1], params[2], params[3]
    want = asserted(ast.parse('%s < 0' % delay, mode='eval').body, False)
    paths = an.paths(tinit)
    guard_ok, n_guard, rejected = True, 0, 0
    store_ok, sched_ok, n_normal = True, True, 0
    for path in paths:
        effects = [i for i, e in enumerate(path.events) if e.depth == 0 and (
            e.kind == 'store' or (e.kind in ('call', 'enter') and (
                event_callees(e) or (isinstance(e.node, ast.Call) and isinstance(
                    e.node.func, ast.Attribute) and e.node.func.attr == 'schedule'))))]
        if path.kind == 'raise' and path.outcome[1].cls == 'ext:ValueError' and not effects:
            rejected += 1
        if effects:
            n_guard += 1
            tests = [e for i, e in enumerate(path.events[:effects[0]]) if e.kind == 'test'
                     and asserted(rules.value_expr(path, i, e.node), e['value']) == want]
            guard_ok &= bool(tests)
        if not path.normal:
            continue
        n_normal += 1
        stores = {e['path']: rules.value_text(path, i, e['value'])
                  for i, e in enumerate(path.events)
                  if e.kind == 'store' and e.depth == 0 and e['value'] is not None}
        store_ok &= stores.get('self._delay') == delay and \
            stores.get('self._fixed_value') == value
        handed = [rules.value_text(path, i, e.node.args[0])
                  for i, e in enumerate(path.events)
                  if e.kind == 'call' and e.depth == 0 and isinstance(e.node, ast.Call)
                  and isinstance(e.node.func, ast.Attribute)
                  and e.node.func.attr == 'schedule' and e.node.args
                  and rules.value_text(path, i, e.node.func.value) == env]
        sched_ok &= handed == ['self._trigger_timeout()']
    check.instance('P', 'Timeout:negative-delay-rejected-first',
                   guard_ok and n_guard > 0 and rejected > 0, where_fn(tinit.fn),
                   'a negative delay raises ValueError before anything is created '
                   '(%d constructing paths, %d rejecting paths)' % (n_guard, rejected),
                   analysed=n_guard)
    check.instance('P', 'Timeout:stores', store_ok and n_normal > 0, where_fn(tinit.fn),
                   'delay and value are stored unchanged')
    check.instance('P', 'Timeout:scheduled', sched_ok and n_normal > 0, where_fn(tinit.fn),
                   'the timeout activity is handed to the environment, once')
    ttrig = an.callee(TIMEOUT, '_trigger_timeout')
    ok, n = True, 0
    for path in an.paths(ttrig):
        waits = [i for i, e in enumerate(path.events) if e.kind == 'susp' and e.depth == 0
                 and e['how'] == 'await']
        fired = [i for i, e in enumerate(path.events) if e.kind in ('call', 'enter')
                 and e.depth == 0 and is_call_to(e, 'succeed')]
        if path.normal:
            n += 1
            good = len(waits) == 1 and len(fired) == 1 and waits[0] < fired[0] and \
                path.events[waits[0]]['exit'] == 'normal'
            if good:
                expr = rules.value_text(path, waits[0], path.events[waits[0]]['expr'])
                good = equal_algebra(expr, 'time + self._delay')
                args = path.events[fired[0]].node.args
                good = good and len(args) == 1 and rules.value_text(
                    path, fired[0], args[0]) == 'self._fixed_value'
            ok &= good
        else:
            ok &= not fired or (bool(waits) and waits[0] < fired[0])
    check.instance('P', 'Timeout._trigger_timeout', ok and n > 0, where_fn(ttrig.fn),
                   'waits time + delay, then succeeds with the fixed value '
                   '(%d normal paths)' % n, analysed=n)


def _resume_kind(path, index, event, gen_text):
    """'send' / 'throw' when the call resumes the process generator, else None"""
    node = event.node
    if event.kind != 'call' or not isinstance(node, ast.Call) or event.get('how') != 'call':
        return None
    func = rules.value_expr(path, index, node.func)
    if isinstance(func, ast.Attribute) and func.attr in ('send', 'throw') and \
            ast.unparse(func.value) == gen_text:
        return func.attr
    return None


def _check_run_payload(check, an: Analysis):
    runp = an.callee(PROCESS, '_run_payload')
    fn = runp.fn
    paths = an.paths(runp)
    first_ok, resume_ok, defuse_ok, target_ok = True, True, True, True
    atomic_ok, outcome_ok, value_ok, active_ok = True, True, True, True
    n_resume = n_stop = n_fail = 0
    bad = {}

    def flag(name, path, index):
        bad.setdefault(name, (path, index))
        return False
    for path in paths:
        events = path.events
        waited = None      # (index of the store, name of the local holding the event)
        finished = False
        for index, event in enumerate(events):
            if event.depth != 0:
                continue
            if event.kind == 'store' and isinstance(event.get('value'), ast.Await) and \
                    '_wait_interruptible' in ast.unparse(event['value']) and \
                    isinstance(event.node, ast.Name):
                waited = (index, event.node.id)
                # the event waited for is the one the generator yielded last
                call = event['value'].value
                arg = rules.value_expr(path, index, call.args[0]) if isinstance(
                    call, ast.Call) and call.args else None
                if not (isinstance(arg, ast.Call) and isinstance(
                        rules.value_expr(path, index, arg.func), ast.Attribute)):
                    inner = ast.unparse(arg) if arg is not None else '?'
                    if 'send' not in inner and 'throw' not in inner:
                        target_ok = flag('target', path, index)
                continue
            if finished and (is_suspension(event) or _resume_kind(
                    path, index, event, 'self._generator')):
                outcome_ok = flag('outcome', path, index)
            kind = _resume_kind(path, index, event, 'self._generator')
            if kind is None:
                continue
            n_resume += 1
            node = event.node
            keep = (waited[1],) if waited else ()
            args = [rules.value_text(path, index, a, keep=keep) for a in node.args]
            # the process is the active one while its generator runs
            before = [e for e in events[:index] if e.kind == 'store' and e.depth == 0
                      and (e['path'] or '').endswith('.active_process')]
            if not before or rules.value_text(
                    path, events.index(before[-1]), before[-1]['value']) != 'self':
                active_ok = flag('active', path, index)
            if waited is None:
                if kind != 'send' or args != ['None']:
                    first_ok = flag('first', path, index)
            else:
                since = waited[0]
                atoms = rules.path_atoms(path, since, index, keep=keep)
                good = atoms.get(('truth', '%s.ok' % waited[1]))
                if good is True:
                    ok = kind == 'send' and args == ['%s.value' % waited[1]]
                elif good is False:
                    ok = kind == 'throw' and args == ['%s.value' % waited[1]]
                    defused = any(e.kind == 'store' and e.depth == 0 and
                                  e['path'] == '%s.defused' % waited[1] and
                                  isinstance(e['value'], ast.Constant) and
                                  e['value'].value is True for e in events[since:index])
                    if not defused:
                        defuse_ok = flag('defuse', path, index)
                else:
                    ok = False
                if not ok:
                    resume_ok = flag('resume', path, index)
                if any(is_suspension(e) for e in events[since + 1:index]):
                    atomic_ok = flag('atomic', path, index)
            exit_cls = event['exit']
            rest = events[index + 1:]
            if exit_cls == 'normal':
                # what the generator yields becomes the target and the next event to wait for
                stored = [e for e in rest[:4] if e.kind == 'store' and e.depth == 0
                          and rules.is_site(node, e['value'])]
                paths_ = {e['path'] for e in stored}
                if 'self.target' not in paths_ or not any(
                        isinstance(e.node, ast.Name) for e in stored):
                    target_ok = flag('target', path, index)
                after = [e for e in rest if e.kind == 'store' and e.depth == 0
                         and (e['path'] or '').endswith('.active_process')]
                susp = [k for k, e in enumerate(rest) if is_suspension(e)]
                if susp and not (after and rest.index(after[0]) < susp[0] and isinstance(
                        after[0]['value'], ast.Constant) and after[0]['value'].value is None):
                    active_ok = flag('active', path, index)
                continue
            finished = True
            handlers = [e for e in rest if e.kind == 'handler' and e.depth == 0]
            if exit_cls == 'ext:StopIteration':
                n_stop += 1
                fired = [(k, e) for k, e in enumerate(rest) if e.kind in ('call', 'enter')
                         and e.depth == 0 and is_call_to(e, 'succeed')]
                failed = [e for e in rest if is_call_to(e, 'fail') and e.depth == 0]
                if len(fired) != 1 or failed or not handlers:
                    outcome_ok = flag('outcome', path, index)
                    continue
                name = handlers[0].node.name
                pos = index + 1 + fired[0][0]
                atoms = rules.path_atoms(path, index, pos)
                has_args = atoms.get(('truth', '%s.args' % name))
                arg = fired[0][1].node.args
                text = rules.value_text(path, pos, arg[0]) if len(arg) == 1 else (
                    'None' if not arg else '?')
                if has_args is True:
                    value_ok &= text == '%s.args[0]' % name or flag('value', path, pos)
                elif has_args is False:
                    value_ok &= text == 'None' or flag('value', path, pos)
                else:
                    value_ok = flag('value', path, pos)
            else:
                n_fail += 1
                fired = [(k, e) for k, e in enumerate(rest) if e.kind in ('call', 'enter')
                         and e.depth == 0 and is_call_to(e, 'fail')]
                done = [e for e in rest if is_call_to(e, 'succeed') and e.depth == 0]
                if len(fired) != 1 or done or not handlers or handlers[0].node.name is None:
                    outcome_ok = flag('outcome', path, index)
                    continue
                pos = index + 1 + fired[0][0]
                arg = fired[0][1].node.args
                if len(arg) != 1 or rules.value_text(path, pos, arg[0]) != \
                        handlers[0].node.name:
                    outcome_ok = flag('outcome', path, index)

    def report(name, verdict, text, count):
        where = bad.get(name)
        check.instance('P', 'Process._run_payload:%s' % name, verdict and count > 0,
                       where_fn(fn), text + ' (%d sites on paths)' % count,
                       path=rules.path_lines(*where) if where else None, analysed=count)
    report('first', first_ok, 'the generator is started with send(None)', n_resume)
    report('resume', resume_ok and defuse_ok, 'resumed with the value of a good event; a '
           'failed one is defused and thrown into the generator', n_resume)
    report('atomic', atomic_ok, 'nothing can run between the wait and the resumption',
           n_resume)
    report('target', target_ok, 'what the generator yields becomes `target` and is waited '
           'for next', n_resume)
    report('active', active_ok, '`env.active_process` is the process while its generator '
           'runs and None afterwards', n_resume)
    report('outcome', outcome_ok, 'StopIteration -> succeed, any other exception -> '
           'fail(err), and the process ends', n_stop + n_fail)
    report('return-value', value_ok, 'the generator\'s return value (None without one) is '
           'the event\'s value', n_stop)


def _fired_forms(an: Analysis) -> set:
    """spellings of "this event has fired" on an Event: the flag itself, and properties /
    getters of Event that return exactly its truth (directly or through each other)"""
    forms = {'__usimpy_flag__'}
    info = an.p.classes[EVENT]
    changed = True
    while changed:
        changed = False
        for name, method in info.methods.items():
            spelled = name if method.is_property else '%s()' % name
            if spelled in forms or method.kind != 'sync' or len(method.node.args.args) != 1:
                continue
            body = [st for st in method.node.body
                    if not (isinstance(st, ast.Expr) and isinstance(st.value, ast.Constant))]
            if len(body) != 1 or not isinstance(body[0], ast.Return) or \
                    body[0].value is None:
                continue
            value = body[0].value
            if isinstance(value, ast.Call) and isinstance(value.func, ast.Name) and \
                    value.func.id == 'bool' and len(value.args) == 1:
                value = value.args[0]
            text = ast.unparse(value)
            if text.startswith('self.') and text[5:] in forms:
                forms.add(spelled)
                changed = True
    return forms


def _check_condition_events(check, an: Analysis):
    chk = an.callee(CONDITION, '_check_events')
    fn = chk.fn
    paths = an.paths(chk, loop_bound=1)
    wait_ok, fail_ok, value_ok = True, True, True
    fired_forms = _fired_forms(an)
    n_wait = n_fail = n_succeed = 0
    bad = {}

    def flag(name, path, index):
        bad.setdefault(name, (path, index))
        return False
    # the local list of members that have not fired yet: filled by append in the first loop
    unobserved = None
    for node in ast.walk(fn.node):
        if isinstance(node, ast.Call) and isinstance(node.func, ast.Attribute) and \
                node.func.attr == 'remove' and isinstance(node.func.value, ast.Name):
            unobserved = node.func.value.id
    for path in paths:
        events = path.events
        for index, event in enumerate(events):
            if event.kind == 'susp' and event['how'] == 'await' and event.depth == 0:
                n_wait += 1
                expr = rules.value_expr(path, index, event['expr'],
                                        keep=(unobserved,) if unobserved else ())
                good = isinstance(expr, ast.Call) and ast.unparse(expr.func) == 'AnyFlag' \
                    and len(expr.args) == 1 and isinstance(expr.args[0], ast.Starred) and \
                    not expr.keywords
                if good:
                    good = rules.mapped_sequence(fn.node, expr.args[0]) == (
                        unobserved, 'x_.__usimpy_flag__', None)
                if not good:
                    wait_ok = flag('waits-any-unobserved', path, index)
            elif event.kind in ('call', 'enter') and is_call_to(event, 'fail') and \
                    event.kind != 'leave':
                # a failed member: the latest loop variable, fired but not ok
                n_fail += 1
                loops = [e for e in events[:index] if e.kind == 'iter-next' and e.depth == 0]
                member = ast.unparse(loops[-1].node.target) if loops else '?'
                start = events.index(loops[-1]) if loops else 0
                arg = event.node.args
                text = rules.value_text(path, index, arg[0]) if len(arg) == 1 else '?'
                defused = any(e.kind == 'store' and isinstance(e.node, ast.Attribute)
                              and rules.value_text(path, start + k, e.node)
                              == '%s.defused' % member
                              and isinstance(e['value'], ast.Constant)
                              and e['value'].value is True
                              for k, e in enumerate(events[start:index]))
                ended = not any(is_suspension(e) or is_call_to(e, 'succeed')
                                for e in events[index + 1:])
                # what was tested about the member in this pass (in whatever frame)
                seen = {}
                for k, e in enumerate(events[start:index]):
                    if e.kind == 'test' and e.depth == 0 and not e.get('inlined'):
                        seen[rules.value_text(path, start + k, e.node)] = e['value']
                fired = [seen.get('%s.%s' % (member, form)) for form in fired_forms
                         if '%s.%s' % (member, form) in seen]
                good = text == '%s.value' % member and defused and ended and \
                    fired == [True] and seen.get('%s.ok' % member) is False
                if not good:
                    fail_ok = flag('failure', path, index)
            elif event.kind in ('call', 'enter') and is_call_to(event, 'succeed') and \
                    event.depth == 0:
                n_succeed += 1
                arg = event.node.args
                text = rules.value_text(path, index, arg[0]) if len(arg) == 1 else '?'
                if text != 'ConditionValue(*self._flatten_values(self._events))':
                    value_ok = flag('value', path, index)
    for name, verdict, count, text in (
            ('waits-any-unobserved', wait_ok, n_wait,
             'waits until any not yet observed member fires'),
            ('value', value_ok, n_succeed,
             'fires with exactly the members that fired by then (flattened)'),
            ('failure', fail_ok, n_fail,
             'a fired member that failed is defused and fails the condition with its '
             'exception, which ends the evaluation')):
        where = bad.get(name)
        check.instance('P', 'Condition._check_events:%s' % name, verdict and count > 0,
                       where_fn(fn), text + ' (%d sites on paths)' % count,
                       path=rules.path_lines(*where) if where else None, analysed=count)


def run(check, an: Analysis):
    check.rule('O', 'fire-once: writes of Event._value dominated by `_value is None`')
    check.rule('T', '_trigger is one atomic block (flag, trigger, schedule callbacks); '
                    'callbacks run once; undefused failures are raised')
    check.rule('A', 'await event: wait for the flag, then return/raise the stored value')
    check.rule('P', 'Timeout / Process / InterruptQueue / AllOf / AnyOf plumbing')
    check.rule('U', 'Environment.until/run')
    an.cls(EVENT)
    # ---- O ------------------------------------------------------------------
    # every function whose paths write an event's value (the statement itself may sit in
    # a private helper that is seen through)
    writers = {}
    for fn, stmt, target, recvs in rules.attribute_stores(an, '_value', EVENT):
        if fn.name == '__init__':
            continue
        if fn.cls is None or not an.p.is_subclass(fn.cls.qn, EVENT):
            check.instance('O', 'writer:%s' % short(fn.qn), False,
                           '%s:%d' % (fn.module.relpath, stmt.lineno),
                           'an event\'s value is written from outside the event')
            continue
        writers[id(stmt)] = (fn, stmt)
    entries = []
    for fn in sorted(an.p.functions.values(), key=lambda f: f.qn):
        if fn.cls is None or fn.cls.qn != EVENT or isinstance(fn.node, ast.Lambda) or \
                fn.name == '__init__':
            continue
        private = fn.name.startswith('_') and not fn.name.endswith('__')
        callee = Callee(fn, EVENT)
        hits = [(path, index) for path in an.paths(callee)
                for index, event in enumerate(path.events)
                if event.kind == 'store' and id(event.get('stmt')) in writers]
        if hits and not (private and rules.call_sites_of(an, fn.qn)):
            entries.append((fn, callee, hits))
    covered = set()
    for fn, callee, hits in entries:
        verdict, bad = True, None
        for path, index in hits:
            covered.add(id(path.events[index].get('stmt')))
            event = path.events[index]
            unset = rules.fact_value(event, ('isnone', 'self._value'))
            if unset is None:
                unset = rules.path_atoms(path, 0, index).get(('isnone', 'self._value'))
            if unset is not True:
                verdict, bad = False, bad or (path, index)
        # how a second firing is refused: an exception, or only a usage assertion
        refusing = [p for p in an.paths(callee) if p.kind == 'raise'
                    and not any(e.kind == 'store' and id(e.get('stmt')) in writers
                                for e in p.events)
                    and rules.path_atoms(p).get(('isnone', 'self._value')) is False]
        asserted = any(e.kind == 'assert' and e.get('key') == ('isnone', 'self._value')
                       for path, _i in hits for e in path.events)
        check.instance('O', '%s:write-once' % short(fn.qn), verdict and bool(hits) and
                       (bool(refusing) or asserted), where_fn(fn),
                       'the value is written only while unset (%s; %d stores on paths)' % (
                           'raises otherwise' if refusing else 'usage assertion', len(hits)),
                       path=rules.path_lines(*bad) if bad else None,
                       assert_only=asserted and not refusing, analysed=len(hits))
    check.instance('O', 'writers-covered', covered == set(writers), where_fn(
        an.method(EVENT, 'succeed')), 'every statement that writes an event\'s value is '
        'reached from a checked entry point (%d of %d)' % (len(covered), len(writers)))
    check.floor('O', 3)
    for name in ('succeed', 'fail', 'trigger'):
        callee = an.callee(EVENT, name)
        ok = True
        for path in an.paths(callee):
            if path.normal:
                stored = [i for i, e in enumerate(path.events) if e.kind == 'store'
                          and e['path'] == 'self._value']
                trig = [i for i, e in enumerate(path.events) if is_call_to(e, '_trigger')]
                ok &= len(stored) == 1 and len(trig) == 1 and stored[0] < trig[0]
        check.instance('O', 'Event.%s:store-then-trigger' % name, ok, where_fn(callee.fn),
                       'the value is stored, then the event is triggered, exactly once')
    for name, want in (('succeed', '({0}, None)'), ('fail', '(None, {0})'),
                       ('trigger', '{0}._value')):
        callee = an.callee(EVENT, name)
        param = callee.fn.node.args.args[1].arg
        ok, n = True, 0
        for path in an.paths(callee):
            for index, event in enumerate(path.events):
                if event.kind == 'store' and event['path'] == 'self._value' and \
                        event.depth == 0:
                    n += 1
                    ok &= event['value'] is not None and rules.value_text(
                        path, index, event['value']) == want.format(param)
        check.instance('O', 'Event.%s:value' % name, ok and n > 0, where_fn(callee.fn),
                       'stores %s (%d stores on paths)' % (want.format(param), n),
                       analysed=n)
    # ---- T ------------------------------------------------------------------
    trig = an.callee(EVENT, '_trigger')
    check.instance('T', 'Event._trigger:sync', trig.fn.kind == 'sync', where_fn(trig.fn),
                   'triggering is synchronous: nothing can run in between')
    for path in an.paths(trig):
        if not path.normal:
            continue
        raised = [i for i, e in enumerate(path.events) if e.kind == 'store'
                  and rules.text_at(path, e, e.node) == 'self.__usimpy_flag__._value'
                  and isinstance(e['value'], ast.Constant) and e['value'].value is True]
        woke = [i for i, e in enumerate(path.events) if is_call_to(e, '__trigger__')]
        sched = [i for i, e in enumerate(path.events) if e.kind == 'call' and isinstance(
            e.node, ast.Call) and rules.text_at(path, e, e.node.func) == 'self.env.schedule'
            and [ast.unparse(a) for a in e.node.args] == ['self']]
        ok = len(raised) == 1 and len(woke) == 1 and len(sched) == 1 and raised[0] < woke[0]
        check.instance('T', 'Event._trigger:complete', ok, where_fn(trig.fn),
                       'flag raised, waiters triggered, callback task scheduled',
                       path=rules.path_lines(path))
    sched = an.callee(EVENT, '__usimpy_schedule__')
    spaths = [p for p in an.paths(sched) if p.normal]
    ok = bool(spaths) and all(
        sum(1 for e in p.events if e.kind in ('susp', 'enter') and
            is_call_to(e, '_invoke_callbacks')) == 1 for p in spaths)
    check.instance('T', 'Event.__usimpy_schedule__', ok, where_fn(sched.fn),
                   'the scheduled task invokes the callbacks, once (%d normal paths)'
                   % len(spaths), analysed=len(spaths))
    inv = an.callee(EVENT, '_invoke_callbacks')
    for path in an.paths(inv):
        swap = [i for i, e in enumerate(path.events) if e.kind == 'store'
                and e['path'] == 'self.callbacks']
        calls = [i for i, e in enumerate(path.events)
                 if e.kind == 'call' and isinstance(e.node, ast.Call)
                 and isinstance(e.node.func, ast.Name) and e.get('how') == 'call'
                 and len(e.node.args) == 1 and rules.text_at(path, e, e.node.args[0]) == 'self']
        if calls:
            ok = bool(swap) and swap[0] < calls[0]
            check.instance('T', '_invoke_callbacks:swap-before-calls', ok, where_fn(inv.fn),
                           '`callbacks` is set to None before any callback runs',
                           path=rules.path_lines(path))
    once, n_iter, bad = True, 0, None
    for path in an.paths(inv):
        swaps = [i for i, e in enumerate(path.events) if e.kind == 'store'
                 and e.depth == 0 and e['path'] == 'self.callbacks']
        segment = None
        for index, event in enumerate(path.events):
            if event.depth != 0:
                continue
            if event.kind in ('iter-next', 'iter-end') and isinstance(event.node, ast.For):
                if segment is not None and segment != 1:
                    once, bad = False, bad or (path, index)
                segment = 0 if event.kind == 'iter-next' else None
                if event.kind == 'iter-next':
                    n_iter += 1
                    source = rules.value_text(path, index, event.node.iter)
                    holder = rules.reaching_store(path, index, ast.unparse(event.node.iter))
                    # the list that is iterated was read before `callbacks` became None
                    if source != 'self.callbacks' or holder is None or not swaps or \
                            holder[0] > swaps[0]:
                        once, bad = False, bad or (path, index)
            elif event.kind == 'call' and isinstance(event.node, ast.Call) and \
                    event.get('how') == 'call' and isinstance(event.node.func, ast.Name) and \
                    [ast.unparse(a) for a in event.node.args] == ['self']:
                loops = [e for e in path.events[:index] if e.kind == 'iter-next'
                         and e.depth == 0]
                if segment is None or not loops or \
                        event.node.func.id != ast.unparse(loops[-1].node.target):
                    once, bad = False, bad or (path, index)
                else:
                    segment += 1
    check.instance('T', '_invoke_callbacks:each-once', once and n_iter > 0, where_fn(inv.fn),
                   'the callbacks read before `self.callbacks = None` are each called once '
                   'with the event (%d iterations on paths)' % n_iter,
                   path=rules.path_lines(*bad) if bad else None, analysed=n_iter)
    ok, n_tail, bad = True, 0, None
    for path in an.paths(inv):
        ends = [i for i, e in enumerate(path.events) if e.kind == 'iter-end' and e.depth == 0]
        if not ends:
            continue
        last = path.events[-1] if path.events else None
        raises_stored = path.kind == 'raise' and last is not None and last.kind == 'raise' \
            and last.depth == 0 and isinstance(last.node, ast.Raise) and \
            last.node.exc is not None and rules.value_text(
                path, len(path.events) - 1, last.node.exc) == 'self._value[1]'
        if not (path.normal or (path.kind == 'raise' and last is not None
                                and last.kind == 'raise' and last.depth == 0)):
            continue
        n_tail += 1
        atoms = rules.path_atoms(path, ends[-1])
        failed = atoms.get(('isnone', 'self._value[1]'))
        defused = atoms.get(('truth', 'self.defused'))
        if path.normal:
            good = failed is True or defused is True
        else:
            good = raises_stored and failed is False and defused is False
        if not good:
            ok, bad = False, bad or (path, len(path.events) - 1)
    check.instance('T', '_invoke_callbacks:undefused-failure-raised', ok and n_tail >= 3,
                   where_fn(inv.fn), 'after the callbacks: a failed event that nobody defused '
                   'ends the run with its exception; otherwise nothing is raised '
                   '(%d paths)' % n_tail,
                   path=rules.path_lines(*bad) if bad else None, analysed=n_tail)
    # ---- A ------------------------------------------------------------------
    aw = an.callee(EVENT, '__await__')
    SIGNALS_ = ('usim._core.loop.Interrupt', 'usim._primitives.task.CancelTask',
                'usim._primitives.context.CancelScope', 'ext:GeneratorExit')
    for path in an.paths(aw):
        waited = any(e.kind == 'susp' and e['exit'] == 'normal' and any(
            c.recv == 'usim._primitives.flag.Flag' for c in e['callees'])
            for e in path.events)
        atoms = rules.path_atoms(path)
        if path.kind == 'return':
            ok = waited and path.outcome[1] is not None and rules.value_text(
                path, len(path.events), path.outcome[1]) == 'self._value[0]' and \
                atoms.get(('isnone', 'self._value[1]')) is True
            check.instance('A', 'Event.__await__:returns-value', ok, where_fn(aw.fn),
                           'after the flag, the stored value is returned when there is no '
                           'stored exception', path=rules.path_lines(path))
        elif path.kind == 'raise' and path.outcome[1].cls not in SIGNALS_:
            event = [e for e in path.events if e.kind == 'raise'][-1]
            index = rules.event_index(path, event)
            defused = any(e.kind == 'store' and e['path'] == 'self.defused'
                          and isinstance(e['value'], ast.Constant) and e['value'].value is True
                          for e in path.events)
            stored = isinstance(event.node, ast.Raise) and event.node.exc is not None and \
                rules.value_text(path, index, event.node.exc) == 'self._value[1]' and \
                atoms.get(('isnone', 'self._value[1]')) is False
            check.instance('A', 'Event.__await__:raises-error', waited and defused and stored,
                           event.where, 'after the flag, the stored exception is raised and '
                           'the event counts as defused', path=rules.path_lines(path))
    # ---- P ------------------------------------------------------------------
    _check_timeout(check, an)
    _check_run_payload(check, an)
    interrupt = an.callee(PROCESS, 'interrupt')
    for path in an.paths(interrupt):
        for index, event in enumerate(path.events):
            if is_call_to(event, 'push'):
                alive = rules.fact_value(event, ('isnone', 'self._value'))
                check.instance('P', 'Process.interrupt:only-alive', alive is True,
                               event.where, 'interrupts are queued only while the process '
                               'has not finished', path=rules.path_lines(path, index))
    check_defused_at_hand_over(check, an, 'P')
    check_interrupt_never_refused(check, an, 'P')
    check_interrupt_wins(check, an, 'P')
    _run_after_interrupts(check, an)


def check_defused_at_hand_over(check, an: Analysis, rule: str):
    """a failed event is marked as handled at the moment its exception is handed to someone
    (raised into the awaiter, thrown into the generator, passed on to a condition): no path
    suspends between the mark and the end of the function -- a waiter that gives up while it
    is still waiting has not handled anything"""
    n, bad = 0, None
    for fn in an.p.functions.values():
        if fn.module.name != 'usim.py.events' or isinstance(fn.node, ast.Lambda) or \
                fn.kind not in ('coroutine', 'generator', 'sync', 'asyncgen'):
            continue
        if not any(isinstance(n_, ast.Attribute) and n_.attr == 'defused'
                   and isinstance(n_.ctx, ast.Store) for n_ in ast.walk(fn.node)):
            continue
        owner = an.p.enclosing_self_class(fn)
        for path in an.paths(Callee(fn, owner.qn if owner else None)):
            for index, event in enumerate(path.events):
                if event.kind == 'store' and event.fn is fn and isinstance(
                        event.node, ast.Attribute) and event.node.attr == 'defused' and \
                        isinstance(event.data.get('value'), ast.Constant) and \
                        event.data['value'].value is True:
                    n += 1
                    for later in path.events[index + 1:]:
                        handed = later.kind == 'raise' or (
                            later.kind in ('call', 'enter') and isinstance(
                                later.node, ast.Call) and isinstance(
                                later.node.func, ast.Attribute)
                            and later.node.func.attr in ('throw', 'fail'))
                        if handed:
                            break
                        if is_suspension(later):
                            bad = bad or (fn, path, index)
                            break
    check.instance(rule, 'defused:marked-at-hand-over', bad is None and n > 0,
                   where_fn(bad[0]) if bad else 'usim/py/events.py',
                   'no suspension lies between a `defused = True` and the hand-over of the '
                   'exception (raise / throw / fail) on any path (%d marks on paths)' % n,
                   path=rules.path_lines(bad[1], bad[2]) if bad else None, analysed=n)


def check_interrupt_never_refused(check, an: Analysis, rule: str):
    """`interrupt(cause)` is queued for a live process and ignored for a finished one: it
    never raises, whoever calls it (a callback, an activity, the process that evicts
    another -- or itself -- from a resource)"""
    interrupt = an.callee(PROCESS, 'interrupt')
    paths = an.paths(interrupt)
    raising = [p for p in paths if p.kind == 'raise']
    live = [p for p in paths if p.normal and any(
        tested(e, ('isnone', 'self._value'), True) for e in p.events)]
    queued = all(any(is_call_to(e, 'push') for e in p.events) for p in live)
    check.instance(rule, 'Process.interrupt:never-refused', not raising and bool(live)
                   and queued, where_fn(interrupt.fn),
                   'no path of interrupt() raises; every path for a live process queues the '
                   'cause (%d paths, %d for a live process)' % (len(paths), len(live)),
                   path=rules.path_lines(raising[0]) if raising else None,
                   analysed=len(paths))


def check_interrupt_wins(check, an: Analysis, rule: str):
    """a process that has an interrupt pending when its wait ends is resumed with the
    interrupt -- also when the event it waited for has triggered meanwhile"""
    waiti = an.callee(PROCESS, '_wait_interruptible')
    wparams = [a.arg for a in waiti.fn.node.args.args]
    verdict, n, bad = True, 0, None
    for path in an.paths(waiti):
        if path.kind != 'return':
            continue
        native = any(e.kind == 'call' and isinstance(e.node, ast.Call) and
                     rules.text_at(path, e, e.node.func) == 'AwaitableEvent' for e in path.events)
        if native:
            continue
        n += 1
        pending = [key_truth(e) for e in path.events if e.kind == 'test'
                   and e.get('key') == ('truth', wparams[2])]
        # ... and a pending interrupt always wins: it is what the wait answers with
        # whenever there is one, whatever became of the event meanwhile
        answer = rules.value_text(path, len(path.events), path.outcome[1]) \
            if path.outcome[1] is not None else 'None'
        if not pending or (pending[-1] is True) != (answer == wparams[2]):
            verdict = False
            bad = bad or path
    check.instance(rule, 'Process._wait_interruptible:interrupt-checked-on-every-path',
                   verdict and n >= 3, where_fn(waiti.fn),
                   'whether or not the yielded event had to be waited for, a pending '
                   'interrupt replaces it (%d return paths)' % n,
                   path=rules.path_lines(bad) if bad else None, analysed=n)


def _run_after_interrupts(check, an: Analysis):
    # the value a condition fires with is a snapshot taken at that moment: the members that
    # are good *then*, nested conditions flattened -- computed by a method of the condition
    # and handed to ConditionValue, which keeps what it is given
    checker = an.method(CONDITION, '_check_events')
    flatteners = set()
    n_values = 0
    for node in ast.walk(checker.node):
        if isinstance(node, ast.Call) and ast.unparse(node.func).split('.')[-1] == \
                'ConditionValue':
            n_values += 1
            for arg in node.args:
                inner = arg.value if isinstance(arg, ast.Starred) else arg
                if isinstance(inner, ast.Call) and isinstance(inner.func, ast.Attribute) \
                        and isinstance(inner.func.value, ast.Name) \
                        and inner.func.value.id in ('self', 'cls') and \
                        an.p.find_method(CONDITION, inner.func.attr) is not None:
                    flatteners.add(inner.func.attr)
    value_cls = an.cls('usim.py.events.ConditionValue')
    kept = rules.constructor_field(an, value_cls.qn, 'events')
    lazy = an.p.find_method(value_cls.qn, 'events')
    check.instance('P', 'Condition:value-is-a-snapshot', n_values > 0 and
                   len(flatteners) == 1 and kept is not None and lazy is None,
                   where_fn(checker), 'a condition succeeds with ConditionValue(*<members '
                   'good now, flattened>) and ConditionValue keeps the events it is given '
                   '(flattened by %s; kept: %s; computed on access: %s)' % (
                       sorted(flatteners), ast.unparse(kept) if kept is not None else None,
                       lazy is not None))
    if len(flatteners) != 1:
        return _run_after_flatten(check, an)
    flat = an.callee(CONDITION, next(iter(flatteners)))
    verdict, n, bad = True, 0, None
    for path in an.paths(flat):
        seg_tests = []
        for index, event in enumerate(path.events + [None]):
            if event is None or event.kind in ('iter-next', 'iter-end'):
                nested = [t for t in seg_tests if 'isinstance' in ast.unparse(t.node)]
                if nested and nested[0]['value'] is True:
                    n += 1
                    before = seg_tests[:seg_tests.index(nested[0])]
                    if any('.ok' in ast.unparse(t.node) for t in before):
                        verdict = False
                        bad = bad or path
                seg_tests = []
            elif event.kind == 'test' and event.depth == 0:
                seg_tests.append(event)
    recursion = [n_ for n_ in ast.walk(flat.fn.node) if isinstance(n_, ast.Call)
                 and ast.unparse(n_.func).endswith('.' + flat.fn.name)]
    check.instance('P', 'Condition._flatten_values:nested-regardless-of-ok',
                   verdict and n > 0 and len(recursion) == 1, where_fn(flat.fn),
                   'a nested condition is flattened whether or not it has fired itself; '
                   'only plain members are filtered by `ok`',
                   path=rules.path_lines(bad) if bad else None, analysed=n)
    _run_after_flatten(check, an)


def _cause_list(an: Analysis) -> str:
    """the attribute of InterruptQueue that holds the pending causes: the one list its
    constructor makes"""
    init = an.method(IQUEUE, '__init__')
    found = [ast.unparse(t)[len('self.'):] for n in ast.walk(init.node)
             if isinstance(n, (ast.Assign, ast.AnnAssign)) and isinstance(n.value, ast.List)
             and not n.value.elts
             for t in (n.targets if isinstance(n, ast.Assign) else [n.target])
             if ast.unparse(t).startswith('self.')]
    if len(found) != 1:
        raise AnalysisError('InterruptQueue.__init__: the list of pending causes is not '
                            'identifiable (%s)' % found)
    return found[0]


def _run_after_flatten(check, an: Analysis):
    causes = _cause_list(an)
    for fn, node, kind, detail in rules.attribute_method_calls(an, causes, IQUEUE):
        if kind == 'call':
            if detail == 'pop':
                ok = len(node.args) == 1 and isinstance(node.args[0], ast.Constant) \
                    and node.args[0].value == 0
            else:
                ok = detail == 'append'
            check.instance('P', 'InterruptQueue:causes.%s' % detail, ok,
                           '%s:%d' % (fn.module.relpath, node.lineno),
                           'interrupt causes are delivered in call order')
    iq_value = an.callee(IQUEUE, 'value')
    ok, n = True, 0
    for path in an.paths(iq_value):
        if path.kind == 'return':
            n += 1
            value = rules.value_expr(path, len(path.events), path.outcome[1])
            ok &= isinstance(value, ast.Call) and ast.unparse(value.func) == 'Interrupt' and \
                [ast.unparse(a) for a in value.args] == ['self.pop()'] and not value.keywords
    check.instance('P', 'InterruptQueue.value', ok and n > 0, where_fn(iq_value.fn),
                   'each yield receives one Interrupt(cause) (%d return paths)' % n)
    # ... and the cause is the one given: push() queues its argument, pop() hands out what
    # it took from the front
    iq_pop = an.callee(IQUEUE, 'pop')
    ok, n = True, 0
    for path in an.paths(iq_pop):
        if path.kind == 'return':
            n += 1
            value = rules.value_text(path, len(path.events), path.outcome[1]) \
                if path.outcome[1] is not None else 'None'
            ok &= value == 'self.%s.pop(0)' % causes
    check.instance('P', 'InterruptQueue.pop:returns-the-cause', ok and n > 0,
                   where_fn(iq_pop.fn), 'pop() returns the cause it took from the front of '
                   'the queue (%d return paths)' % n)
    push_fn = an.method(IQUEUE, 'push')
    cause_param = push_fn.node.args.args[1].arg
    ok, n = True, 0
    for path in an.paths(an.callee(IQUEUE, 'push')):
        if not path.normal:
            continue
        n += 1
        queued = [rules.value_text(path, i, e.node.args[0]) for i, e in enumerate(path.events)
                  if e.kind == 'call' and isinstance(e.node, ast.Call) and isinstance(
                      e.node.func, ast.Attribute) and e.node.func.attr == 'append'
                  and rules.receiver_at(path, e) == 'self.%s' % causes and e.node.args]
        ok &= queued == [cause_param]
    check.instance('P', 'InterruptQueue.push:queues-the-cause', ok and n > 0,
                   where_fn(push_fn), 'every push() queues exactly the cause it was given '
                   '(%d paths)' % n)
    push = an.callee(IQUEUE, 'push')
    ok = True
    for path in an.paths(push):
        if path.normal:
            raised = [e for e in path.events if e.kind == 'store' and
                      rules.text_at(path, e, e.node) == 'self.__usimpy_flag__._value']
            woke = [e for e in path.events if is_call_to(e, '__trigger__')]
            ok &= len(raised) == len(woke)
    check.instance('P', 'InterruptQueue.push:wakes', ok, where_fn(push.fn),
                   'raising the interrupt flag triggers its waiters')
    from ..norm import function_predicate, equivalent_terms, bool_term
    # what a waiter is resumed with: the value of a good event, the exception of a failed one
    for cls_qn in (EVENT, 'usim.py._awaitable.AwaitableEvent'):
        label = cls_qn.rsplit('.', 1)[-1]
        getter = an.callee(cls_qn, 'value')
        ok, n = True, 0
        for path in an.paths(getter):
            if path.kind != 'return' or path.outcome[1] is None:
                continue
            n += 1
            end = len(path.events)
            got = rules.value_text(path, end, path.outcome[1])
            failed = None
            for index, event in enumerate(path.events):
                key = event.get('key') if event.kind == 'test' else None
                if key and key[0] == 'isnone' and rules.value_text(
                        path, index, ast.parse(key[1], mode='eval').body) == 'self._value[1]':
                    failed = not key_truth(event)
            ok &= failed is not None and got == (
                'self._value[1]' if failed else 'self._value[0]')
        check.instance('P', '%s.value' % label, ok and n > 0, where_fn(getter.fn),
                       'the stored value when no exception is stored, else the exception -- '
                       'decided by `exception is None`, not by the truth of the value '
                       '(%d return paths)' % n, analysed=n)
        okm = an.method(cls_qn, 'ok')
        # "not triggered yet" is what the constructor stores: None or a module level marker
        from .c12 import _initial_value
        initial = _initial_value(an, cls_qn, '_value')[1]
        marker = next(iter(initial)) if len(initial) == 1 else '?'
        try:
            same = (marker == 'None' or marker.isidentifier()) and equivalent_terms(
                function_predicate(okm.node), bool_term(ast.parse(
                    'self._value is not %s and self._value[1] is None' % marker,
                    mode='eval').body))
        except Exception:
            same = False
        check.instance('P', '%s.ok' % label, same, where_fn(okm),
                       'ok == triggered without an exception')
    # a process that yielded a native awaitable: once the awaitable has completed (its
    # outcome is stored) the wait reports completion -- whatever the interrupt flag says
    # by then -- and reports an interruption only when nothing was stored
    waiter = an.callee('usim.py._awaitable.AwaitableEvent', 'wait_interruptible')
    ok, n_done, n_int, bad = True, 0, 0, None
    for path in an.paths(waiter):
        if path.kind != 'return':
            continue
        stored = any(e.kind == 'store' and e.get('path') == 'self._value'
                     for e in path.events)
        value = rules.value_expr(path, len(path.events), path.outcome[1]) \
            if path.outcome[1] is not None else None
        answer = value.value if isinstance(value, ast.Constant) else None
        if stored:
            n_done += 1
        else:
            n_int += 1
        if answer is not stored:
            ok, bad = False, bad or path
    # what a process yields is only waited for: it may be shared with other waiters (a
    # Task, a condition), so nothing else is ever done to it -- the wrapper neither calls
    # nor inspects it
    wrapper_cls = an.cls('usim.py._awaitable.AwaitableEvent')
    n_uses, other_use = 0, None
    for method in wrapper_cls.methods.values():
        if method.kind not in ('sync', 'coroutine') or method.is_property:
            continue
        for path in an.paths(Callee(method, wrapper_cls.qn)):
            for index, event in enumerate(path.events):
                if event.fn is not method or event.node is None:
                    continue
                if event.kind == 'susp' and event.data.get('expr') is not None:
                    if rules.value_text(path, index, event['expr']) == 'self._awaitable':
                        n_uses += 1
                    continue
                text = None
                if event.kind == 'call' and isinstance(event.node, ast.Call):
                    text = rules.value_text(path, index, event.node)
                elif event.kind == 'store' and event.data.get('value') is not None and \
                        event.data.get('path') != 'self._awaitable':
                    text = rules.value_text(path, index, event.data['value'])
                    if text == 'self._awaitable':
                        text = None  # a local name for it
                # (what awaiting it gave may be used freely)
                if text is not None and 'self._awaitable' in text.replace(
                        'await self._awaitable', 'result'):
                    other_use = other_use or (path, index)
    check.instance('P', 'AwaitableEvent:only-awaits-what-was-yielded',
                   other_use is None and n_uses > 0, where_fn(waiter.fn),
                   'the yielded awaitable is stored and awaited, nothing else: no call and no '
                   'attribute read involves it (%d awaits on paths)' % n_uses,
                   path=rules.path_lines(*other_use) if other_use else None)
    check.instance('P', 'AwaitableEvent.wait_interruptible', ok and n_done > 0 and n_int > 0,
                   where_fn(waiter.fn), 'returns True exactly on the paths that stored the '
                   'outcome of the awaitable (%d), False on the others (%d)' % (n_done, n_int),
                   path=rules.path_lines(bad) if bad else None, analysed=n_done + n_int)
    for name, want in (('all_events', 'len({0}) == {1}'),
                       ('any_events', '{1} or not {0}')):
        method = an.method(CONDITION, name)
        mparams = [a.arg for a in method.node.args.args]
        want_text = want.format(*mparams[-2:])
        try:
            got = function_predicate(method.node)
            ok = equivalent_terms(got, bool_term(ast.parse(want_text, mode='eval').body))
        except Exception:
            ok = False
        check.instance('P', 'Condition.%s' % name, ok, where_fn(method),
                       'evaluator == `%s`' % want_text)
    for cls, ev in (('usim.py.events.AllOf', 'all_events'),
                    ('usim.py.events.AnyOf', 'any_events')):
        init = an.callee(cls, '__init__')
        iparams = [a.arg for a in init.fn.node.args.args]
        ok, n = True, 0
        for path in an.paths(init):
            for index, event in enumerate(path.events):
                if event.kind in ('call', 'enter') and event.depth == 0 and \
                        is_call_to(event, '__init__', CONDITION):
                    n += 1
                    cparams = [a.arg for a in an.method(CONDITION, '__init__').node.args.args]
                    bound = dict(zip(cparams[1:], event.node.args))
                    bound.update({kw.arg: kw.value for kw in event.node.keywords})
                    texts = {k: rules.value_text(path, index, v) for k, v in bound.items()}
                    ok &= texts.get(cparams[2], '').split('.')[-1] == ev and \
                        texts.get(cparams[1]) == iparams[1] and \
                        texts.get(cparams[3]) == iparams[2]
        check.instance('P', '%s:evaluator' % cls.rsplit('.', 1)[-1], ok and n > 0,
                       where_fn(init.fn), 'Condition(env, %s, events)' % ev)
    _check_condition_events(check, an)
    # ---- U ------------------------------------------------------------------
    from .c16 import asserted
    until = an.callee(ENV, 'until')
    upaths = an.paths(until)
    uparam = until.fn.node.args.args[1].arg
    in_past = ast.parse('%s < time.now' % uparam, mode='eval').body

    def past_test(path, stop, value):
        want = asserted(in_past, value)
        return any(e.kind == 'test' and e.depth == 0 and asserted(rules.value_expr(
            path, i, e.node, keep_clock=False), e['value']) == want
            for i, e in enumerate(path.events[:stop]))
    past = [p for p in upaths if p.kind == 'raise' and p.outcome[1].cls == 'ext:ValueError']
    ok = bool(past) and all(
        past_test(p, len(p.events), True) and not any(
            e.kind == 'susp' and e['how'] == 'await' and e.depth == 0 for e in p.events)
        for p in past)
    check.instance('U', 'until:past-rejected', ok, where_fn(until.fn),
                   '`until < now` raises ValueError before anything is waited for '
                   '(%d paths)' % len(past), analysed=len(past))
    wait_ok, stop_ok, kinds, n_wait, bad = True, True, set(), 0, None
    absorbed = 0
    for path in upaths:
        for index, event in enumerate(path.events):
            if not (event.kind == 'susp' and event['how'] == 'await' and event.depth == 0):
                continue
            n_wait += 1
            atoms = rules.path_atoms(path, 0, index)
            expr = rules.value_expr(path, index, event['expr'])
            is_event = atoms.get(('truth', 'isinstance(%s, Event)' % uparam))
            good = atoms.get(('isnone', uparam)) is False
            if is_event is True:
                kinds.add('event')
                good &= ast.unparse(expr) == '%s.__usimpy_flag__' % uparam
            elif is_event is False:
                kinds.add('time')
                good &= isinstance(expr, ast.Compare) and len(expr.ops) == 1 and (
                    (isinstance(expr.ops[0], ast.GtE) and ast.unparse(expr.left) == 'time'
                     and ast.unparse(expr.comparators[0]) == uparam) or
                    (isinstance(expr.ops[0], ast.LtE) and ast.unparse(expr.left) == uparam
                     and ast.unparse(expr.comparators[0]) == 'time'))
                good &= past_test(path, index, False)
            else:
                good = False
            if not good:
                wait_ok, bad = False, bad or (path, index)
            if event['exit'] == 'normal':
                # the wait is over: the simulation of this environment is stopped
                rest = [e for e in path.events[index + 1:] if e.depth == 0]
                stopped = bool(rest) and rest[0].kind == 'raise' and rest[0]['exc'] == STOP
                left = [e for e in rest[1:] if e.kind == 'susp' and e['how'] == 'aexit']
                # unless the scope fails for another reason, the stop is absorbed
                if not stopped or (left and left[0]['exit'] == 'normal'
                                   and not path.normal):
                    stop_ok, bad = False, bad or (path, index)
                absorbed += stopped and path.normal
    check.instance('U', 'until:waits', wait_ok and kinds == {'event', 'time'},
                   where_fn(until.fn), 'waits for the event\'s flag, or for time >= until '
                   'after the past was rejected (%d waits on paths)' % n_wait,
                   path=rules.path_lines(*bad) if bad and not wait_ok else None,
                   analysed=n_wait)
    # a stop is never raised in the turn the environment was entered: whatever is waited
    # for -- also an event that has triggered already -- the wait suspends at least once,
    # which is when the processes and callbacks queued at start-up get their first turn
    n_stops, hasty = 0, None
    for path in upaths:
        for index, event in enumerate(path.events):
            if event.kind == 'raise' and event.depth == 0 and event.get('exc') == STOP:
                n_stops += 1
                entered = [i for i, e in enumerate(path.events[:index])
                           if e.kind == 'susp' and e.data.get('how') == 'aenter'
                           and e.depth == 0]
                if not entered or not path.must_suspended(entered[-1] + 1, index):
                    hasty = hasty or (path, index)
    check.instance('U', 'until:waits-at-least-once', hasty is None and n_stops > 0,
                   where_fn(until.fn), 'between entering the environment and StopSimulation '
                   'lies a suspension that must suspend (%d stops on paths)' % n_stops,
                   path=rules.path_lines(*hasty) if hasty else None, analysed=n_stops)
    check.instance('U', 'until:stop-absorbed', stop_ok and absorbed > 0, where_fn(until.fn),
                   'after the wait StopSimulation ends the environment\'s scope and is '
                   'absorbed', path=rules.path_lines(*bad) if bad and not stop_ok else None)
    enter = an.callee(ENV, '__aenter__')
    reached_ok, n_flush, bad = True, 0, None

    def not_early(path, index):
        """`<the loop>.time < self._initial_time` observed false, the loop named by the
        attribute or by whatever was stored into it on this path"""
        loops = {'self._loop'}
        for pos, seen in enumerate(path.events[:index]):
            if seen.kind == 'store' and seen.data.get('path') == 'self._loop' and \
                    seen.data.get('value') is not None and seen.depth == 0:
                loops.add(rules.value_text(path, pos, seen.data['value']))
        return [rules.asserted(ast.parse('%s.time < self._initial_time' % loop,
                                         mode='eval').body, False) for loop in loops]
    for path in an.paths(enter):
        for index, event in enumerate(path.events):
            if not (event.kind in ('call', 'enter') and (
                    is_call_to(event, '_schedule') or is_call_to(event, 'do'))):
                continue
            n_flush += 1
            waited = any(e.kind == 'susp' and e['how'] == 'await' and e['exit'] == 'normal'
                         and e['expr'] is not None and rules.value_text(
                             path, i, e['expr']) == 'time == self._initial_time'
                         for i, e in enumerate(path.events[:index]))
            observed = [f for _p, f, _a in rules.path_inequalities(path, 0, index)]
            on_time = any(fact in observed for fact in not_early(path, index))
            if not (waited or on_time):
                reached_ok, bad = False, bad or (path, index)
    check.instance('U', 'Environment.__aenter__:starts-at-initial-time',
                   reached_ok and n_flush > 0, where_fn(enter.fn),
                   'events created before the run are started only once the clock has '
                   'reached the environment\'s initial time (%d starts on paths)' % n_flush,
                   path=rules.path_lines(*bad) if bad else None, analysed=n_flush)
    supp = an.method(ENVSCOPE, '_is_suppressed')
    param = supp.node.args.args[1].arg
    from ..norm import function_predicate, equivalent_terms, bool_term
    got = function_predicate(supp.node)
    want = bool_term(ast.parse(
        'isinstance(%s, StopSimulation) or super()._is_suppressed(%s)' % (param, param),
        mode='eval').body)
    check.instance('U', 'EnvironmentScope._is_suppressed', got is not None and
                   equivalent_terms(got, want), where_fn(supp),
                   'absorbs StopSimulation, else the base rule')
    runm = an.callee(ENV, 'run')
    kinds = {}
    for path in an.paths(runm):
        active = [e for e in path.events if e.kind == 'test' and
                  'is_active' in ast.unparse(e.node)]
        if not active:
            continue
        inside = active[0]['value'] == ('not' not in ast.unparse(active[0].node))
        if inside:
            kinds['inside'] = path.kind == 'raise' and path.outcome[1].cls.endswith(
                'NotCompatibleError')
        elif path.normal:
            # after the run: an event given as `until` that has fired gives its value
            atoms = rules.path_atoms(path)
            fired = [value for key, value in atoms.items() if key[0] == 'truth'
                     and key[1] in ('until.triggered', 'until._is_triggered()')]
            if atoms.get(('truth', 'isinstance(until, Event)')) is True and fired == [True]:
                good = path.kind == 'return' and path.outcome[1] is not None and \
                    rules.value_text(path, len(path.events), path.outcome[1]) == \
                    'until.value' and any(
                        is_call_to(e, 'run') or (
                            e.kind == 'call' and isinstance(e.node, ast.Call)
                            and rules.text_at(path, e, e.node.func) == 'usim_run')
                        for e in path.events)
                kinds['returns'] = kinds.get('returns', True) and good
    check.instance('U', 'run:inside-refused', kinds.get('inside') is True, where_fn(runm.fn),
                   'env.run inside a usim simulation raises NotCompatibleError')
    check.instance('U', 'run:returns-event-value', kinds.get('returns') is True,
                   where_fn(runm.fn), 'run(until=event) returns the event\'s value')
    # the kernel rules every suspending operation rests on (shared; see _scope)
    from . import _scope as _kernel
    _kernel.check_kernel_core(check, an)
    from . import _scope as _sc
    _sc.check_scope_core(check, an)
    check.stats.update(an.stats())
