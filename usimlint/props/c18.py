"""
C18 -- SimPy layer: events fire once; processes resume with the right value and time.

Structural clauses decided (DESIGN.md section 5/C18):
  O  fire-once typestate: every write of ``Event._value`` (succeed / fail / trigger) is
     dominated by ``_value is None`` with a raise/assert on the other branch
  T  trigger completeness: ``_trigger`` raises the flag, triggers it and schedules the
     callback task -- one atomic block; ``_invoke_callbacks`` swaps ``callbacks`` to None
     before calling each once and raises an undefused failure
  A  awaiting an event: wait for the flag, then return/raise from the stored value
  P  plumbing: Timeout (negative delay rejected first, waits ``time + delay``, succeeds with
     its value); Process (StopIteration before the generic handler, return value ->
     succeed, error -> fail, try body suspension free, interrupt only while alive,
     interrupts queued FIFO); AllOf/AnyOf evaluators
  U  until/run: past ``until`` rejected; waits for ``time >= until`` or the event's flag,
     then raises StopSimulation which the environment scope absorbs; ``run`` returns the
     event's value and is refused inside a simulation
Fan-out values/times for arbitrary process graphs and callback effects are not decided.
"""
import ast

from ..engine import Analysis, is_call_to, is_suspension, short, where_fn, tested, key_truth
from ..model import AnalysisError
from ..norm import equal_bool, equal_algebra
from ..types import Callee
from .. import rules

PROP = 'C18'
EVENT = 'usim.py.events.Event'
TIMEOUT = 'usim.py.events.Timeout'
PROCESS = 'usim.py.events.Process'
IQUEUE = 'usim.py.events.InterruptQueue'
CONDITION = 'usim.py.events.Condition'
ENV = 'usim.py.core.Environment'
ENVSCOPE = 'usim.py.core.EnvironmentScope'
STOP = 'usim.py.exceptions.StopSimulation'


def run(check, an: Analysis):
    check.rule('O', 'fire-once: writes of Event._value dominated by `_value is None`')
    check.rule('T', '_trigger is one atomic block (flag, trigger, schedule callbacks); '
                    'callbacks run once; undefused failures are raised')
    check.rule('A', 'await event: wait for the flag, then return/raise the stored value')
    check.rule('P', 'Timeout / Process / InterruptQueue / AllOf / AnyOf plumbing')
    check.rule('U', 'Environment.until/run')
    an.cls(EVENT)
    # ---- O ------------------------------------------------------------------
    for fn, stmt, target, recvs in rules.attribute_stores(an, '_value', EVENT):
        if fn.name == '__init__':
            continue
        if fn.cls is None or not an.p.is_subclass(fn.cls.qn, EVENT):
            check.instance('O', 'writer:%s' % short(fn.qn), False,
                           '%s:%d' % (fn.module.relpath, stmt.lineno),
                           'an event\'s value is written from outside the event')
            continue
        callee = Callee(fn, fn.cls.qn)
        n = 0
        verdict, bad = True, None
        for path in an.paths(callee):
            for index, event in enumerate(path.events):
                if event.kind == 'store' and event.get('stmt') is stmt:
                    n += 1
                    unset = rules.fact_value(event, ('isnone', 'self._value'))
                    if unset is not True:
                        verdict = False
                        bad = bad or (path, index)
        guard_raises = any(isinstance(n_, ast.If) and equal_bool(
            n_.test, 'self._value is not None') and any(isinstance(b, ast.Raise)
                                                        for b in n_.body)
            for n_ in ast.walk(fn.node))
        asserted = any(isinstance(n_, ast.Assert) and equal_bool(
            n_.test, 'self._value is None') for n_ in ast.walk(fn.node))
        check.instance('O', '%s:write-once' % short(fn.qn), verdict and n > 0 and
                       (guard_raises or asserted), '%s:%d' % (fn.module.relpath, stmt.lineno),
                       'the value is written only while unset (%s)' % (
                           'raises otherwise' if guard_raises else 'usage assertion'),
                       path=rules.path_lines(*bad) if bad else None,
                       assert_only=asserted and not guard_raises, analysed=n)
    check.floor('O', 3)
    for name in ('succeed', 'fail', 'trigger'):
        callee = an.callee(EVENT, name)
        ok = True
        for path in an.paths(callee):
            if path.normal:
                stored = [i for i, e in enumerate(path.events) if e.kind == 'store'
                          and e['path'] == 'self._value']
                trig = [i for i, e in enumerate(path.events) if is_call_to(e, '_trigger')]
                ok &= len(stored) == 1 and len(trig) == 1 and stored[0] < trig[0]
        check.instance('O', 'Event.%s:store-then-trigger' % name, ok, where_fn(callee.fn),
                       'the value is stored, then the event is triggered, exactly once')
    succeed = an.method(EVENT, 'succeed')
    stores = [n for n in ast.walk(succeed.node) if isinstance(n, ast.Assign)
              and ast.unparse(n.targets[0]) == 'self._value']
    check.instance('O', 'Event.succeed:value', len(stores) == 1 and ast.unparse(
        stores[0].value) == '(%s, None)' % succeed.node.args.args[1].arg, where_fn(succeed),
        '(value, None)')
    fail = an.method(EVENT, 'fail')
    stores = [n for n in ast.walk(fail.node) if isinstance(n, ast.Assign)
              and ast.unparse(n.targets[0]) == 'self._value']
    check.instance('O', 'Event.fail:value', len(stores) == 1 and ast.unparse(
        stores[0].value) == '(None, %s)' % fail.node.args.args[1].arg, where_fn(fail),
        '(None, exception)')
    # ---- T ------------------------------------------------------------------
    trig = an.callee(EVENT, '_trigger')
    check.instance('T', 'Event._trigger:sync', trig.fn.kind == 'sync', where_fn(trig.fn),
                   'triggering is synchronous: nothing can run in between')
    for path in an.paths(trig):
        if not path.normal:
            continue
        raised = [i for i, e in enumerate(path.events) if e.kind == 'store'
                  and e['path'] == 'self.__usimpy_flag__._value'
                  and isinstance(e['value'], ast.Constant) and e['value'].value is True]
        woke = [i for i, e in enumerate(path.events) if is_call_to(e, '__trigger__')]
        sched = [i for i, e in enumerate(path.events) if e.kind == 'call' and isinstance(
            e.node, ast.Call) and ast.unparse(e.node.func) == 'self.env.schedule'
            and [ast.unparse(a) for a in e.node.args] == ['self']]
        ok = len(raised) == 1 and len(woke) == 1 and len(sched) == 1 and raised[0] < woke[0]
        check.instance('T', 'Event._trigger:complete', ok, where_fn(trig.fn),
                       'flag raised, waiters triggered, callback task scheduled',
                       path=rules.path_lines(path))
    sched = an.method(EVENT, '__usimpy_schedule__')
    sbody = [ast.unparse(stmt) for stmt in sched.node.body
             if not (isinstance(stmt, ast.Expr) and isinstance(stmt.value, ast.Constant))]
    check.instance('T', 'Event.__usimpy_schedule__', sbody == [
        'await self._invoke_callbacks()'], where_fn(sched),
        'the scheduled task invokes the callbacks')
    inv = an.callee(EVENT, '_invoke_callbacks')
    for path in an.paths(inv):
        swap = [i for i, e in enumerate(path.events) if e.kind == 'store'
                and e['path'] == 'self.callbacks']
        calls = [i for i, e in enumerate(path.events)
                 if e.kind == 'call' and isinstance(e.node, ast.Call)
                 and isinstance(e.node.func, ast.Name) and e.get('how') == 'call'
                 and len(e.node.args) == 1 and ast.unparse(e.node.args[0]) == 'self']
        if calls:
            ok = bool(swap) and swap[0] < calls[0]
            check.instance('T', '_invoke_callbacks:swap-before-calls', ok, where_fn(inv.fn),
                           '`callbacks` is set to None before any callback runs',
                           path=rules.path_lines(path))
    swap_stmt = [n for n in ast.walk(inv.fn.node) if isinstance(n, ast.Assign)
                 and isinstance(n.targets[0], ast.Tuple)
                 and 'self.callbacks' in [ast.unparse(t) for t in n.targets[0].elts]]
    ok = len(swap_stmt) == 1 and isinstance(swap_stmt[0].value, ast.Tuple) and \
        [ast.unparse(v) for v in swap_stmt[0].value.elts] == ['self.callbacks', 'None']
    loops = [n for n in ast.walk(inv.fn.node) if isinstance(n, ast.For)]
    once = len(loops) == 1 and isinstance(loops[0].iter, ast.Name) and \
        [ast.unparse(s) for s in loops[0].body] == ['%s(self)' % ast.unparse(loops[0].target)]
    check.instance('T', '_invoke_callbacks:each-once', ok and once, where_fn(inv.fn),
                   'callbacks, self.callbacks = self.callbacks, None; each callback called '
                   'once with the event')
    raises = [n for n in ast.walk(inv.fn.node) if isinstance(n, ast.Raise)]
    guard = [n for n in ast.walk(inv.fn.node) if isinstance(n, ast.If)
             and any(r in ast.walk(n) for r in raises)]
    ok = len(raises) == 1 and len(guard) == 1 and equal_bool(
        guard[0].test, 'exception is not None and not self.defused')
    check.instance('T', '_invoke_callbacks:undefused-failure-raised', ok, where_fn(inv.fn),
                   'a failed event that nobody defused ends the run with its exception')
    # ---- A ------------------------------------------------------------------
    aw = an.callee(EVENT, '__await__')
    for path in an.paths(aw):
        waited = any(e.kind == 'susp' and e['exit'] == 'normal' and any(
            c.recv == 'usim._primitives.flag.Flag' for c in e['callees'])
            for e in path.events)
        if path.kind == 'return':
            ok = waited and isinstance(path.outcome[1], ast.Name)
            check.instance('A', 'Event.__await__:returns-value', ok, where_fn(aw.fn),
                           'after the flag, the stored value is returned',
                           path=rules.path_lines(path))
        elif path.kind == 'raise' and path.outcome[1].cls not in (
                'usim._core.loop.Interrupt', 'usim._primitives.task.CancelTask',
                'usim._primitives.context.CancelScope', 'ext:GeneratorExit'):
            event = [e for e in path.events if e.kind == 'raise'][-1]
            defused = any(e.kind == 'store' and e['path'] == 'self.defused'
                          for e in path.events)
            check.instance('A', 'Event.__await__:raises-error', waited and defused,
                           event.where, 'after the flag, the stored exception is raised and '
                           'the event counts as defused', path=rules.path_lines(path))
    unpack = [n for n in ast.walk(aw.fn.node) if isinstance(n, ast.Assign)
              and ast.unparse(n.value) == 'self._value']
    check.instance('A', 'Event.__await__:from-stored-value', len(unpack) == 1,
                   where_fn(aw.fn), 'result and error come from `self._value`')
    # ---- P ------------------------------------------------------------------
    tinit = an.callee(TIMEOUT, '__init__')
    params = [a.arg for a in tinit.fn.node.args.args]
    first = tinit.fn.node.body[0] if tinit.fn.node.body else None
    if isinstance(first, ast.Expr) and isinstance(first.value, ast.Constant):
        first = tinit.fn.node.body[1]
    ok = isinstance(first, ast.If) and equal_bool(first.test, '%s < 0' % params[2]) and \
        any(isinstance(b, ast.Raise) for b in first.body)
    check.instance('P', 'Timeout:negative-delay-rejected-first', ok, where_fn(tinit.fn),
                   'a negative delay raises before anything is created')
    ttrig = an.method(TIMEOUT, '_trigger_timeout')
    body = [ast.unparse(s) for s in ttrig.node.body]
    check.instance('P', 'Timeout._trigger_timeout', body == [
        'await (time + self._delay)', 'self.succeed(self._fixed_value)'], where_fn(ttrig),
        'waits time + delay, then succeeds with the fixed value: %s' % body)
    stores = {ast.unparse(n.targets[0]): ast.unparse(n.value)
              for n in ast.walk(tinit.fn.node) if isinstance(n, ast.Assign)}
    check.instance('P', 'Timeout:stores', stores.get('self._delay') == params[2] and
                   stores.get('self._fixed_value') == params[3], where_fn(tinit.fn),
                   'delay and value are stored unchanged')
    scheduled = [n for n in ast.walk(tinit.fn.node) if isinstance(n, ast.Call)
                 and ast.unparse(n.func) == '%s.schedule' % params[1]]
    check.instance('P', 'Timeout:scheduled', len(scheduled) == 1 and ast.unparse(
        scheduled[0].args[0]) == 'self._trigger_timeout()', where_fn(tinit.fn),
        'the timeout activity is handed to the environment')
    runp = an.callee(PROCESS, '_run_payload')
    tries = [n for n in ast.walk(runp.fn.node) if isinstance(n, ast.Try)]
    ok = False
    if len(tries) == 1:
        names = [ast.unparse(h.type) for h in tries[0].handlers]
        suspends = any(isinstance(n, (ast.Await, ast.AsyncWith, ast.AsyncFor))
                       for stmt in tries[0].body for n in ast.walk(stmt))
        stop = tries[0].handlers[0] if names[:1] == ['StopIteration'] else None
        succeed_ok = stop is not None and any(
            isinstance(n, ast.Call) and ast.unparse(n.func) == 'self.succeed'
            for n in ast.walk(stop))
        generic = tries[0].handlers[-1]
        fail_ok = any(isinstance(n, ast.Call) and ast.unparse(n.func) == 'self.fail'
                      and ast.unparse(n.args[0]) == generic.name for n in ast.walk(generic))
        ok = names == ['StopIteration', 'BaseException'] and not suspends and succeed_ok \
            and fail_ok
    check.instance('P', 'Process._run_payload:outcome', ok, where_fn(runp.fn),
                   'StopIteration (before the generic handler) -> succeed(return value); any '
                   'other exception -> fail(err); the try body cannot suspend')
    value_def = [n for n in ast.walk(runp.fn.node) if isinstance(n, ast.Assign)
                 and ast.unparse(n.targets[0]) == 'value']
    check.instance('P', 'Process._run_payload:return-value', len(value_def) == 1 and
                   ast.unparse(value_def[0].value) == 'err.args[0] if err.args else None',
                   where_fn(runp.fn), 'the generator\'s return value is the event\'s value')
    sends = [n for n in ast.walk(runp.fn.node) if isinstance(n, ast.Call)
             and ast.unparse(n.func) in ('generator.send', 'generator.throw')]
    forms = sorted(ast.unparse(n) for n in sends)
    check.instance('P', 'Process._run_payload:resume', forms == [
        'generator.send(None)', 'generator.send(event.value)',
        'generator.throw(event.value)'], where_fn(runp.fn),
        'resumed with the value of a good event, the exception of a failed one: %s' % forms)
    interrupt = an.callee(PROCESS, 'interrupt')
    for path in an.paths(interrupt):
        for index, event in enumerate(path.events):
            if is_call_to(event, 'push'):
                alive = rules.fact_value(event, ('isnone', 'self._value'))
                check.instance('P', 'Process.interrupt:only-alive', alive is True,
                               event.where, 'interrupts are queued only while the process '
                               'has not finished', path=rules.path_lines(path, index))
    waiti = an.callee(PROCESS, '_wait_interruptible')
    wparams = [a.arg for a in waiti.fn.node.args.args]
    verdict, n, bad = True, 0, None
    for path in an.paths(waiti):
        if path.kind != 'return':
            continue
        native = any(e.kind == 'call' and isinstance(e.node, ast.Call) and
                     ast.unparse(e.node.func) == 'AwaitableEvent' for e in path.events)
        if native:
            continue
        n += 1
        checked = any(e.kind == 'test' and e.get('key') == ('truth', wparams[2])
                      for e in path.events)
        if not checked:
            verdict = False
            bad = bad or path
    check.instance('P', 'Process._wait_interruptible:interrupt-checked-on-every-path',
                   verdict and n >= 3, where_fn(waiti.fn),
                   'whether or not the yielded event had to be waited for, a pending '
                   'interrupt replaces it (%d return paths)' % n,
                   path=rules.path_lines(bad) if bad else None, analysed=n)
    flat = an.callee(CONDITION, '_flatten_values')
    verdict, n, bad = True, 0, None
    for path in an.paths(flat):
        seg_tests = []
        for index, event in enumerate(path.events + [None]):
            if event is None or event.kind in ('iter-next', 'iter-end'):
                nested = [t for t in seg_tests if 'isinstance' in ast.unparse(t.node)]
                if nested and nested[0]['value'] is True:
                    n += 1
                    before = seg_tests[:seg_tests.index(nested[0])]
                    if any('.ok' in ast.unparse(t.node) for t in before):
                        verdict = False
                        bad = bad or path
                seg_tests = []
            elif event.kind == 'test' and event.depth == 0:
                seg_tests.append(event)
    recursion = [n_ for n_ in ast.walk(flat.fn.node) if isinstance(n_, ast.Call)
                 and ast.unparse(n_.func).endswith('._flatten_values')]
    check.instance('P', 'Condition._flatten_values:nested-regardless-of-ok',
                   verdict and n > 0 and len(recursion) == 1, where_fn(flat.fn),
                   'a nested condition is flattened whether or not it has fired itself; '
                   'only plain members are filtered by `ok`',
                   path=rules.path_lines(bad) if bad else None, analysed=n)
    for fn, node, kind, detail in rules.attribute_method_calls(an, '_causes', IQUEUE):
        if kind == 'call':
            if detail == 'pop':
                ok = len(node.args) == 1 and isinstance(node.args[0], ast.Constant) \
                    and node.args[0].value == 0
            else:
                ok = detail == 'append'
            check.instance('P', 'InterruptQueue:_causes.%s' % detail, ok,
                           '%s:%d' % (fn.module.relpath, node.lineno),
                           'interrupt causes are delivered in call order')
    iq_value = an.method(IQUEUE, 'value')
    rets = [n for n in ast.walk(iq_value.node) if isinstance(n, ast.Return)]
    check.instance('P', 'InterruptQueue.value', len(rets) == 1 and ast.unparse(
        rets[0].value) == 'Interrupt(self.pop())', where_fn(iq_value),
        'each yield receives one Interrupt(cause)')
    push = an.callee(IQUEUE, 'push')
    ok = True
    for path in an.paths(push):
        if path.normal:
            raised = [e for e in path.events if e.kind == 'store' and e['path'] ==
                      'self.__usimpy_flag__._value']
            woke = [e for e in path.events if is_call_to(e, '__trigger__')]
            ok &= len(raised) == len(woke)
    check.instance('P', 'InterruptQueue.push:wakes', ok, where_fn(push.fn),
                   'raising the interrupt flag triggers its waiters')
    for name, want in (('all_events', 'len(events) == count'),
                       ('any_events', 'count or not events')):
        method = an.method(CONDITION, name)
        rets = [n for n in ast.walk(method.node) if isinstance(n, ast.Return)]
        check.instance('P', 'Condition.%s' % name, len(rets) == 1 and
                       equal_bool(rets[0].value, want), where_fn(method),
                       'evaluator == `%s`' % want)
    for cls, ev in (('usim.py.events.AllOf', 'all_events'),
                    ('usim.py.events.AnyOf', 'any_events')):
        init = an.method(cls, '__init__')
        check.instance('P', '%s:evaluator' % cls.rsplit('.', 1)[-1],
                       'self.%s' % ev in ast.unparse(init.node), where_fn(init),
                       'uses %s' % ev)
    chk = an.method(CONDITION, '_check_events')
    waits = [n for n in ast.walk(chk.node) if isinstance(n, ast.Await)]
    ok = len(waits) == 1 and ast.unparse(waits[0].value).replace(' ', '') == \
        'AnyFlag(*(event.__usimpy_flag__foreventinunobserved))'
    check.instance('P', 'Condition._check_events:waits-any-unobserved', ok, where_fn(chk),
                   'waits until any not yet observed member fires')
    succ = [n for n in ast.walk(chk.node) if isinstance(n, ast.Call)
            and ast.unparse(n.func) == 'self.succeed']
    check.instance('P', 'Condition._check_events:value', len(succ) == 1 and ast.unparse(
        succ[0].args[0]) == 'ConditionValue(*self._flatten_values(self._events))',
        where_fn(chk), 'fires with exactly the members that fired by then (flattened)')
    fails = [n for n in ast.walk(chk.node) if isinstance(n, ast.Call)
             and ast.unparse(n.func) == 'self.fail']
    check.instance('P', 'Condition._check_events:failure', len(fails) == 2 and all(
        ast.unparse(f.args[0]) == 'event.value' for f in fails), where_fn(chk),
        'a failed member fails the condition with its exception')
    # ---- U ------------------------------------------------------------------
    until = an.callee(ENV, 'until')
    upaths = an.paths(until)
    past = [p for p in upaths if p.kind == 'raise' and p.outcome[1].cls == 'ext:ValueError']
    ok = bool(past) and all(any(e.kind == 'test' and isinstance(e.node, ast.Compare)
                                and isinstance(e.node.ops[0], ast.Lt)
                                and ast.unparse(e.node.left) == 'until'
                                and rules.is_current_time(e.node.comparators[0], until.fn)
                                and e['value'] is True for e in p.events) for p in past)
    check.instance('U', 'until:past-rejected', ok, where_fn(until.fn),
                   '`until < now` raises ValueError')
    waits = {}
    for path in upaths:
        for event in path.events:
            if event.kind == 'susp' and event['how'] == 'await' and event.depth == 0:
                waits[ast.unparse(event['expr'])] = True
    check.instance('U', 'until:waits', set(waits) == {'until.__usimpy_flag__',
                                                      'time >= until'}, where_fn(until.fn),
                   'waits for the event\'s flag or for time >= until: %s' % sorted(waits))
    stops = [n for n in ast.walk(until.fn.node) if isinstance(n, ast.Raise)
             and n.exc is not None and ast.unparse(n.exc) == 'StopSimulation']
    handlers = [ast.unparse(h.type) for n in ast.walk(until.fn.node)
                if isinstance(n, ast.Try) for h in n.handlers]
    check.instance('U', 'until:stop-absorbed', len(stops) == 1 and
                   'StopSimulation' in handlers, where_fn(until.fn),
                   'StopSimulation ends the environment\'s scope and is absorbed: %s'
                   % handlers)
    supp = an.method(ENVSCOPE, '_is_suppressed')
    expr = [n for n in ast.walk(supp.node) if isinstance(n, ast.Return)]
    param = supp.node.args.args[1].arg
    check.instance('U', 'EnvironmentScope._is_suppressed', len(expr) == 1 and equal_bool(
        expr[0].value, 'isinstance(%s, StopSimulation) or super()._is_suppressed(%s)'
        % (param, param)), where_fn(supp), 'absorbs StopSimulation, else the base rule')
    runm = an.callee(ENV, 'run')
    kinds = {}
    for path in an.paths(runm):
        active = [e for e in path.events if e.kind == 'test' and
                  'is_active' in ast.unparse(e.node)]
        if not active:
            continue
        inside = active[0]['value'] == ('not' not in ast.unparse(active[0].node))
        if inside:
            kinds['inside'] = path.kind == 'raise' and path.outcome[1].cls.endswith(
                'NotCompatibleError')
        elif path.kind == 'return':
            kinds['returns'] = ast.unparse(path.outcome[1]) == 'until.value' and any(
                is_call_to(e, 'run') or (e.kind == 'call' and isinstance(e.node, ast.Call)
                                         and ast.unparse(e.node.func) == 'usim_run')
                for e in path.events)
    check.instance('U', 'run:inside-refused', kinds.get('inside') is True, where_fn(runm.fn),
                   'env.run inside a usim simulation raises NotCompatibleError')
    check.instance('U', 'run:returns-event-value', kinds.get('returns') is True,
                   where_fn(runm.fn), 'run(until=event) returns the event\'s value')
    check.stats.update(an.stats())
