"""
C15 -- run() ends at quiescence, reports failures and keeps simulations isolated.

Structural clauses decided (DESIGN.md section 5/C15):
  X  thread confinement: the state handle is an instance of a ``threading.local`` subclass;
     its ``loop`` slot is written only by ``__init__``/``assign``; no other module level or
     class level *mutable* object can hold simulation state (every such binding is
     classified; two type caches and two inert singletons are the named exceptions); no
     ``global``/``nonlocal`` writes
  P  ``assign`` restores the previous loop in a ``finally`` around its yield; ``Loop.run``
     drives the events inside ``with assign(self)``; ``usim.run`` builds one loop with
     ``start`` and the activities in argument order and runs it once
  Q  quiescence: ``_run_events`` leaves only when the wait queue tests empty
  H  transparency: the kernel's only handler is ``except StopIteration`` which raises
     ActivityLeak iff a value was returned -- a root's exception leaves run() unchanged
  O  roots are queued at ``start`` by in-order iteration over the argument tuple
Real OS-thread interleavings are made irrelevant by confinement, which is what is checked.
"""
import ast

from ..engine import Analysis, is_call_to, is_suspension, short, where_fn, tested, key_truth
from ..model import AnalysisError
from ..types import Callee, Frame
from .. import rules
from . import _scope

PROP = 'C15'
LOOP = 'usim._core.loop.Loop'
HANDLER = 'usim._core.handler.StateHandler'
HANDLER_MOD = 'usim._core.handler'

#: module/class level mutable objects that are allowed, each with its reason
ALLOWED_MUTABLE = {
    ('usim._basics._resource_level.ResourceLevels', '__specialisation_cache__'):
        'weak cache of generated *types* keyed by field names; holds no simulation state',
    ('usim._primitives.concurrent_exception.Concurrent', '__specialisations__'):
        'weak cache of generated exception *types*; holds no simulation state',
}
#: singletons whose only state is an inert waiter list
INERT_SINGLETONS = {
    'usim._primitives.timing.Eternity':
        'never true and never triggered: parked waiters are only removed again by their '
        'own unsubscribe (C08/C: never rises)',
    'usim._primitives.timing.Instant':
        'always true: subscribers are never parked (C01/L6 subscribe table)',
}


def _is_immutable_literal(node) -> bool:
    if isinstance(node, ast.Constant):
        return True
    if isinstance(node, ast.Tuple):
        return all(_is_immutable_literal(e) or isinstance(e, (ast.Name, ast.Attribute))
                   for e in node.elts)
    if isinstance(node, ast.BinOp):
        return _is_immutable_literal(node.left) or _is_immutable_literal(node.right)
    if isinstance(node, ast.JoinedStr):
        return True
    return False


def _loop_stores(path):
    """[(index, event)] of stores into the `loop` attribute of the state handle on a path
    (inside the context manager that `assign` provides, whatever its form)"""
    return [(i, e) for i, e in enumerate(path.events)
            if e.kind == 'store' and isinstance(e.node, ast.Attribute)
            and e.node.attr == 'loop' and e.data.get('value') is not None]


#: the one object besides the state handle that remembers a loop, with the reason
LOOP_KEEPERS = {
    'usim.py.core.Environment.__aenter__':
        'a SimPy environment is entered once (not re-entrant) and belongs to the run that '
        'entered it',
}


def _block_scoped_manager(an: Analysis, fn) -> bool:
    """``__enter__`` of a private context manager class: what it remembers lives from the
    entry of one ``with`` block to its exit, inside one activation sequence of one run"""
    return fn.name in ('__enter__', '__aenter__') and fn.cls is not None and \
        fn.cls.name.startswith('_') and not fn.cls.name.startswith('__') and (
            an.p.find_method(fn.cls.qn, '__exit__') is not None
            or an.p.find_method(fn.cls.qn, '__aexit__') is not None)


def check_loop_never_kept(check, an: Analysis, rule: str):
    """
    Which loop is "the current one" is asked of the state handle every time: no object
    keeps the loop it once saw in an attribute (it would keep scheduling into a finished
    run when it is used in the next one).  Decided for every attribute store of the
    package by the value that reaches it on the path.
    """
    n_stores, bad = 0, None
    for fn in an.p.functions.values():
        if isinstance(fn.node, ast.Lambda) or fn.module.name == HANDLER_MOD:
            continue
        stores = [n for n in rules._walk_own(fn.node) if isinstance(
            n, (ast.Assign, ast.AnnAssign, ast.AugAssign)) and any(
            isinstance(t, ast.Attribute) for t in (
                n.targets if isinstance(n, ast.Assign) else [n.target])
            for t in ([t] if not isinstance(t, ast.Tuple) else t.elts))]
        if not stores or not any(
                isinstance(n, ast.Attribute) and n.attr == 'loop' or
                isinstance(n, ast.Name) and 'loop' in n.id.lower()
                for n in ast.walk(fn.node)):
            continue
        owner = an.p.enclosing_self_class(fn)
        try:
            paths = an.paths(Callee(fn, owner.qn if owner else None))
        except AnalysisError:
            continue
        for path in paths:
            for index, event in enumerate(path.events):
                if event.kind != 'store' or event.fn is not fn or \
                        not isinstance(event.node, ast.Attribute) or \
                        event.data.get('value') is None:
                    continue
                n_stores += 1
                kept = rules.normalise_state_aliases(
                    rules.value_text(path, index, event.data['value']))
                if kept in ('__USIM_STATE__.loop', '__LOOP_STATE__.loop') and \
                        fn.qn not in LOOP_KEEPERS and not _block_scoped_manager(an, fn):
                    bad = bad or (fn, path, index)
    check.instance(rule, 'the-current-loop-is-never-kept', bad is None and n_stores > 0,
                   where_fn(bad[0]) if bad else 'usim/**',
                   'no attribute store of the package keeps the loop read from the state '
                   'handle (%d stores on paths looked at; named exception: %s)%s' % (
                       n_stores, ', '.join(short(q) for q in LOOP_KEEPERS),
                       '' if bad is None else ': %s does' % short(bad[0].qn)),
                   path=rules.path_lines(bad[1], bad[2]) if bad else None, analysed=n_stores)


def check_assign_restores(check, an: Analysis, rule: str):
    """
    Around the events of a run the state handle names the running loop, and whatever ends
    the run -- also an exception -- the loop named before is put back: decided on the paths
    of Loop.run with the context of `StateHandler.assign` run in place (a generator context
    manager or a context manager object)
    """
    assign = an.callee(HANDLER, 'assign')
    run_m = an.callee(LOOP, 'run')
    inline = lambda callee, depth: callee.fn.qn.startswith(HANDLER_MOD)  # noqa: E731
    paths = an.inlined_paths(run_m, inline, 2)
    verdict, n, bad = True, 0, None
    for path in paths:
        stores = _loop_stores(path)
        ran = [i for i, e in enumerate(path.events) if is_call_to(e, '_run_events')
               and e.kind in ('call', 'enter', 'susp')]
        if not stores and not ran:
            continue
        n += 1
        ok = len(stores) == 2 and bool(ran) and stores[0][0] < ran[0] < stores[1][0]
        if ok:
            (first, set_), (last, reset) = stores
            handle = rules.value_text(path, first, set_.node.value)
            ok = handle == rules.value_text(path, last, reset.node.value) and \
                rules.value_text(path, first, set_['value']) == 'self'
            reads = []
            held = rules.value_expr(path, last, reset['value'], trace=reads)
            ok = ok and rules.normalise_state_aliases(ast.unparse(held)) == \
                '%s.loop' % handle and bool(reads) and min(reads) <= first
        if not ok:
            verdict = False
            bad = bad or path
    # ... and whatever leaves the managed block: a generator context manager is judged on
    # its own paths as well, the block raising any class its handlers name (a forced close,
    # KeyboardInterrupt, SystemExit are ways out like any other)
    if assign.fn.kind == 'ctxgen':
        for path in an.paths(assign):
            holes = [i for i, e in enumerate(path.events) if e.kind == 'hole']
            if not holes:
                continue
            n += 1
            stores = [(i, e) for i, e in _loop_stores(path) if e.fn is assign.fn]
            before = [x for x in stores if x[0] < holes[0]]
            after = [x for x in stores if x[0] > holes[0]]
            ok = bool(before) and len(after) == 1
            if ok:
                reads = []
                held = rules.value_expr(path, after[0][0], after[0][1]['value'], trace=reads)
                ok = rules.normalise_state_aliases(ast.unparse(held)) == 'self.loop' and \
                    bool(reads) and min(reads) <= before[0][0]
            if not ok:
                verdict = False
                bad = bad or path
    check.instance(rule, 'StateHandler.assign:restores', verdict and n >= 2,
                   where_fn(assign.fn), 'every way out of the managed block (%d paths of '
                   'Loop.run incl. exceptions) stores the previously saved loop back' % n,
                   path=rules.path_lines(bad) if bad else None, analysed=n)


def run(check, an: Analysis):
    check.rule('X', 'thread confinement: state handle is thread-local; no other module/class '
                    'level mutable object can hold simulation state')
    check.rule('P', 'assign() restores the previous loop in finally; Loop.run and usim.run '
                    'use it once')
    check.rule('Q', '_run_events leaves only when the wait queue tests empty')
    check.rule('H', 'the kernel only handles StopIteration (ActivityLeak iff a value was '
                    'returned)')
    check.rule('O', 'roots are queued at `start` in argument order')
    check.rule('T', '`till` is reached: the deadline `until(time == till)` is notified at once '
                    'exactly when it already holds (also for start == till), and a root '
                    'activity failing while the deadline closes the simulation is still '
                    'reported (rules shared with C07 and C05)')
    an.cls(HANDLER)
    # ---- X ------------------------------------------------------------------
    handler_cls = an.cls(HANDLER)
    check.instance('X', 'StateHandler:threading.local',
                   'ext:threading.local' in handler_cls.mro, where_fn(
                       an.method(HANDLER, '__init__')),
                   'MRO of the state handle class: %s' % handler_cls.mro)
    # attributes kept in slots live in the object, not in the per-thread dictionary of a
    # threading.local: they would be one value shared by all threads
    slotted = [(entry, _slot_names(an.p.classes[entry])) for entry in handler_cls.mro
               if entry in an.p.classes and _slot_names(an.p.classes[entry])]
    check.instance('X', 'StateHandler:per-thread-attributes', not slotted,
                   where_fn(an.method(HANDLER, '__init__')),
                   'no class of the state handle declares slots for its attributes: %s'
                   % (slotted or 'none'))
    module = an.p.modules[HANDLER_MOD]
    values = module.assigns.get('__USIM_STATE__', [])
    ok = len(values) == 1 and isinstance(values[0][0], ast.Call) and \
        ast.unparse(values[0][0]) == 'StateHandler()'
    check.instance('X', '__USIM_STATE__', ok, HANDLER_MOD, 'the one state handle is a '
                   'StateHandler() instance')
    # (a context manager object handed out by `assign` does the writing for it)
    managers = {t[1] for t in an.te.ret_type(an.callee(HANDLER, 'assign')) if t[0] == 'inst'
                and an.p.find_method(t[1], '__enter__') and an.p.find_method(t[1], '__exit__')}
    for fn, stmt, target, recvs in rules.attribute_stores(an, 'loop', HANDLER):
        ok = fn.cls is not None and (
            (rules.owned_by(an, fn, HANDLER) and fn.name in ('__init__', 'assign'))
            or (fn.cls.qn in managers and fn.name in ('__enter__', '__exit__')))
        check.instance('X', 'loop-writer:%s' % short(fn.qn), ok,
                       '%s:%d' % (fn.module.relpath, stmt.lineno),
                       'the current loop is set by %s' % short(fn.qn), nontrivial=False)
    # every alias of the state object is an import of this one
    for mod in an.p.modules.values():
        for name, binding in mod.bindings.items():
            if binding[0] == 'import' and binding[2] == '__USIM_STATE__' and \
                    binding[1] != HANDLER_MOD:
                resolved = an.p.resolve_binding(binding)
                check.instance('X', 'alias:%s.%s' % (mod.name, name),
                               resolved[0] == 'assign' and resolved[2] == HANDLER_MOD,
                               mod.relpath, 're-export of the one state handle',
                               nontrivial=False)
    # classification of all module level and class level bindings
    n_bind = 0
    for mod in sorted(an.p.modules.values(), key=lambda m: m.name):
        for name, entries in sorted(mod.assigns.items()):
            for value, stmt in entries:
                n_bind += 1
                verdict, why = _classify(an, mod, name, value, None)
                if verdict != 'ok':
                    check.instance('X', 'module-state:%s.%s' % (mod.name, name), False,
                                   '%s:%d' % (mod.relpath, stmt.lineno), why)
    for cls in sorted(an.p.classes.values(), key=lambda c: c.qn):
        for name, value in sorted(cls.attrs.items()):
            n_bind += 1
            verdict, why = _classify(an, cls.module, name, value, cls)
            if verdict != 'ok':
                check.instance('X', 'class-state:%s.%s' % (short(cls.qn), name), False,
                               '%s:%d' % (cls.module.relpath, value.lineno), why)
    check.instance('X', 'bindings-classified', n_bind > 50, 'usim/**',
                   '%d module/class level assignments classified: classes, functions, '
                   'constants, TypeVars, stateless or inert singletons, the thread-local '
                   'state handle and two named type caches' % n_bind, analysed=n_bind)
    for (cls_qn, attr), reason in sorted(ALLOWED_MUTABLE.items()):
        cls = an.cls(cls_qn)
        present = attr in cls.attrs
        check.instance('X', 'named-exception:%s.%s' % (short(cls_qn), attr), present,
                       cls.module.relpath, reason, nontrivial=False)
    n_global = 0
    for fn in an.p.functions.values():
        if isinstance(fn.node, ast.Lambda):
            continue
        for node in ast.walk(fn.node):
            if isinstance(node, (ast.Global, ast.Nonlocal)):
                n_global += 1
                check.instance('X', 'global-write:%s' % short(fn.qn), False,
                               '%s:%d' % (fn.module.relpath, node.lineno),
                               '`%s` lets a function rebind shared state'
                               % ast.unparse(node))
    check.instance('X', 'no-global-statements', n_global == 0, 'usim/**',
                   'no global/nonlocal statement in %d functions' % len(an.p.functions),
                   analysed=len(an.p.functions))
    check_loop_never_kept(check, an, 'X')
    # ---- P ------------------------------------------------------------------
    check_assign_restores(check, an, 'P')
    run_m = an.callee(LOOP, 'run')
    verdict = False
    for path in an.paths(run_m):
        if path.normal:
            def manager(index, event):
                # the context expression, a local that holds it followed to its value
                return rules.value_expr(path, index, event.node.items[0].context_expr)

            def assigned(index, event):
                expr = manager(index, event)
                return isinstance(expr, ast.Call) and isinstance(expr.func, ast.Attribute) \
                    and expr.func.attr == 'assign'
            enter = [i for i, e in enumerate(path.events)
                     if e.kind in ('ctx-enter', 'with-enter') and assigned(i, e)]
            leave = [i for i, e in enumerate(path.events)
                     if e.kind in ('ctx-exit', 'with-exit') and assigned(i, e)]
            events = [i for i, e in enumerate(path.events)
                      if is_call_to(e, '_run_events') and e.depth == 0]
            arg_ok = bool(enter) and [ast.unparse(a) for a in manager(
                enter[0], path.events[enter[0]]).args] == ['self']
            verdict = len(enter) == 1 and len(events) == 1 and arg_ok and \
                enter[0] < events[0] < leave[-1]
    check.instance('P', 'Loop.run:inside-assign', verdict, where_fn(run_m.fn),
                   '_run_events() runs inside `with __LOOP_STATE__.assign(self)`')
    from . import _run
    run_fn, _acts, rps = _run.run_paths(an)
    ok = bool(rps) and all(
        len(rp.loops) == 1 and len(rp.runs) == 1 and rp.loops[0] < rp.runs[0]
        and rp.initial in ('activities', 'root') and rp.start == 'start' for rp in rps)
    check.instance('P', 'usim.run:till-is-None-test', bool(rps) and all(
        rp.limited is not None for rp in rps), where_fn(run_fn),
        'whether a `till` was given is decided by `is None` on every path: 0 is a date')
    check.instance('P', 'usim.run:one-loop', ok, where_fn(run_fn),
                   'loop = Loop(*activities, start=start); loop.run() exactly once on every '
                   'path (%d normal paths)' % len(rps), analysed=len(rps))
    # ---- Q ------------------------------------------------------------------
    run_events = an.callee(LOOP, '_run_events')
    verdict, n = True, 0
    for path in an.paths(run_events):
        if path.normal:
            n += 1
            tests = [(i, e) for i, e in enumerate(path.events) if e.kind == 'test']
            last = tests[-1:] if tests else []
            verdict &= bool(last) and key_truth(last[0][1]) is False and \
                rules.value_text(path, last[0][0], last[0][1].node) in (
                    'activations', 'self._activations')
    check.instance('Q', '_run_events:ends-at-quiescence', verdict and n > 0,
                   where_fn(run_events.fn), 'on all %d normal exits the last decision '
                   'taken is that the wait queue is empty' % n, analysed=n)
    # ---- H ------------------------------------------------------------------
    loop_mod = an.p.modules['usim._core.loop']
    handlers = [(t, h) for m, t, h in an.p.all_handlers() if m is loop_mod]
    names = [ast.unparse(h.type) if h.type is not None else '<bare>' for _t, h in handlers]
    check.instance('H', 'loop:only-StopIteration-handled', names == ['StopIteration'],
                   loop_mod.relpath, 'handlers in the kernel: %s' % names)
    run_events_h = an.callee(LOOP, '_run_events')
    outcomes = {}
    forms, guard_ok, n_resume = set(), True, 0
    for path in an.paths(run_events_h):
        resumes = rules.activation_resumes(path)
        for index, kind, subject in resumes:
            n_resume += 1
            node = path.events[index].node
            args = [rules.value_text(path, index, a) for a in node.args]
            forms.add((kind, tuple(a.replace(subject, 'A') for a in args)))
            unsignalled = rules.path_atoms(path, 0, index).get(
                ('isnone', '%s.signal' % subject))
            guard_ok &= unsignalled is (kind == 'send')
        caught = [(i, e) for i, e in enumerate(path.events) if e.kind == 'handler'
                  and 'StopIteration' in e['exc'] and resumes and i > resumes[-1][0]]
        if not caught:
            continue
        at, handler = caught[0]
        name = handler.node.name
        has_value = rules.path_atoms(path, at).get(('truth', '%s.args' % name)) \
            if name else None
        leak = path.kind == 'raise' and path.outcome[1].cls.endswith('ActivityLeak')
        if has_value is not None:
            outcomes[has_value] = outcomes.get(has_value, leak) and leak \
                if has_value else outcomes.get(has_value, False) or leak
    check.instance('H', '_run_coroutine:leak-iff-value', outcomes == {True: True,
                                                                     False: False},
                   where_fn(run_events_h.fn), 'a finished activity raises ActivityLeak '
                   'exactly when it returned a value: %s' % outcomes)
    # the coroutine is driven by send/throw and nothing else
    check.instance('H', '_run_coroutine:send-or-throw', forms == {
        ('send', ('None',)), ('throw', ('A.signal',))} and guard_ok and n_resume > 0,
        where_fn(run_events_h.fn), 'activities are resumed by send(None) without a '
        'signal, throw(signal) with one (%d resumptions on paths): %s' % (
            n_resume, sorted(forms)))
    # ---- O ------------------------------------------------------------------
    init = an.callee(LOOP, '__init__')
    vararg = init.fn.node.args.vararg.arg if init.fn.node.args.vararg else None
    ok, n_push, n_paths = True, 0, 0
    for path in an.paths(init):
        if not path.normal:
            continue
        n_paths += 1
        end = len(path.events)
        # what ends up as the wait queue and as the clock of the new loop
        final = {}
        for index, event in enumerate(path.events):
            if event.kind == 'store' and event['path'] in ('self._activations', 'self.time') \
                    and event['value'] is not None:
                final[event['path']] = (index, event['value'])
        ok &= 'self.time' in final and rules.value_text(
            path, final['self.time'][0], final['self.time'][1]) == 'start'
        queue = final.get('self._activations')
        made = queue is not None and rules.value_text(path, queue[0], queue[1]) \
            == 'WaitQueue()'
        ok &= bool(made)
        queue_names = {'self._activations'}
        if queue is not None and isinstance(queue[1], ast.Name):
            queue_names.add(queue[1].id)
        for it in rules.iterations(path):
            ok &= it.source == vararg
            pushes = []
            for pos, event in it.events():
                node = event.node
                if event.kind in ('call', 'enter') and isinstance(node, ast.Call):
                    func = rules.value_expr(path, pos, node.func, keep=tuple(queue_names))
                    if isinstance(func, ast.Attribute) and func.attr == 'push' and \
                            ast.unparse(func.value) in queue_names:
                        pushes.append((pos, node))
            n_push += len(pushes)
            ok &= len(pushes) == 1
            for pos, node in pushes:
                args = [rules.value_text(path, pos, a) for a in node.args]
                key_now = args[:1] == ['self.time'] and 'self.time' in final and \
                    final['self.time'][0] < pos
                ok &= len(args) == 2 and (args[0] == 'start' or key_now) and \
                    args[1] == 'Activation(%s)' % it.var
        ok &= all(rules.loop_completed(path, it.node) for it in rules.iterations(path))
    check.instance('O', 'Loop.__init__:roots-in-order', ok and n_push > 0 and n_paths > 0,
                   where_fn(init.fn), 'for coroutine in coroutines: push(start, '
                   'Activation(coroutine)) into the loop\'s own new wait queue, with '
                   'time = start (%d pushes on %d paths)' % (n_push, n_paths))
    # ---- T ------------------------------------------------------------------
    from . import c07
    c07.check_immediacy(check, an, 'T')
    c07.check_run_root(check, an, 'T')
    _scope.check_child_failure_recorded(check, an, 'T')
    # run(till=...) ends the simulation by closing its root tasks: a root that is closed
    # while it waits at the end of a scope of its own must take its children with it, or
    # they keep the loop busy beyond `till` (closing sequence, rule shared with C04)
    from . import c04
    c04.check_close_on_every_exit(check, an, 'T', _scope.scope_receivers(an))
    # the kernel rules every suspending operation rests on (shared; see _scope)
    from . import _scope as _kernel
    _kernel.check_kernel_core(check, an)
    from . import _scope as _sc
    _sc.check_scope_core(check, an, skip=('close',))
    check.stats.update(an.stats())


def _restores_saved(first, second, fn) -> bool:
    """``outer, self.loop = self.loop, loop`` ... ``self.loop = outer``"""
    stmt = first.get('stmt')
    value = second.get('value')
    if not isinstance(value, ast.Name) or stmt is None:
        return False
    if isinstance(stmt, ast.Assign) and isinstance(stmt.targets[0], ast.Tuple) and \
            isinstance(stmt.value, ast.Tuple):
        for target, src in zip(stmt.targets[0].elts, stmt.value.elts):
            if isinstance(target, ast.Name) and target.id == value.id and \
                    ast.unparse(src) == 'self.loop':
                return True
    for saved in rules.local_values(fn, value.id):
        if saved is not None and ast.unparse(saved) == 'self.loop':
            return True
    return False


_STR_METHODS = frozenset(('upper', 'lower', 'strip', 'lstrip', 'rstrip', 'casefold', 'title',
                         'format', 'replace', 'capitalize'))


def _classify(an: Analysis, module, name, value, cls):
    """('ok'|'bad', reason) for one module/class level assignment"""
    if value is None:
        return 'ok', 'tuple unpacking of constants'
    if cls is not None and (cls.qn, name) in ALLOWED_MUTABLE:
        return 'ok', 'named type cache'
    if name in ('__all__', '__slots__', '__fields__') or name.startswith('__') and \
            name.endswith('__') and _is_immutable_literal(value):
        return 'ok', 'dunder constant'
    if _is_immutable_literal(value):
        return 'ok', 'immutable literal'
    if isinstance(value, (ast.Name, ast.Attribute)):
        return 'ok', 'alias of a class/function/constant'
    if isinstance(value, ast.Subscript):
        return 'ok', 'typing alias'
    if isinstance(value, ast.Lambda):
        return 'ok', 'function'
    if isinstance(value, ast.IfExp):
        return 'ok', 'conditional alias'
    if isinstance(value, ast.Dict):
        # constant lookup tables: never stored into anywhere in the package
        stores = rules.attribute_method_calls(an, name, cls.qn) if cls is not None else []
        mutated = [s for s in stores if s[2] == 'subscript' and s[3] != 'Load'
                   or (s[2] == 'call' and s[3] in ('update', 'pop', 'clear', 'setdefault',
                                                   'popitem', '__setitem__'))]
        if mutated:
            return 'bad', 'a class level dict is mutated at %s:%d' % (
                mutated[0][0].module.relpath, mutated[0][1].lineno)
        if cls is None:
            # a module level dict: written through its name anywhere in the module?
            for node in ast.walk(module.tree):
                hit = None
                if isinstance(node, ast.Subscript) and isinstance(node.value, ast.Name) \
                        and node.value.id == name and isinstance(node.ctx,
                                                                 (ast.Store, ast.Del)):
                    hit = node
                elif isinstance(node, ast.Call) and isinstance(node.func, ast.Attribute) \
                        and isinstance(node.func.value, ast.Name) \
                        and node.func.value.id == name and node.func.attr in (
                            'update', 'pop', 'clear', 'setdefault', 'popitem',
                            '__setitem__', '__delitem__'):
                    hit = node
                if hit is not None:
                    if _import_time_registry(an, module, name):
                        return 'ok', 'a registry filled while the module is imported'
                    return 'bad', 'a module level dict is written at %s:%d: state that ' \
                                  'outlives a simulation' % (module.relpath, hit.lineno)
            for other in an.p.modules.values():
                binding = other.bindings.get(name)
                if other is not module and binding and binding[0] == 'import' and \
                        binding[1] == module.name and any(
                        isinstance(n, ast.Subscript) and isinstance(n.value, ast.Name)
                        and n.value.id == name and isinstance(n.ctx, (ast.Store, ast.Del))
                        for n in ast.walk(other.tree)):
                    return 'bad', 'a module level dict is written from %s' % other.relpath
        return 'ok', 'constant table'
    if isinstance(value, ast.Call):
        text = ast.unparse(value.func)
        short_name = text.split('.')[-1]
        if cls is not None and not value.args and not value.keywords and any(
                entry in ('ext:enum.Enum', 'ext:enum.IntEnum', 'ext:enum.Flag',
                          'ext:enum.IntFlag') for entry in cls.mro):
            binding = an.p.resolve_dotted(module, value.func)
            if binding == ('ext', 'enum.auto'):
                return 'ok', 'member of an enumeration (a constant)'
        if short_name in ('TypeVar', 'namedtuple', 'NamedTuple', 'float', 'int', 'frozenset',
                          'tuple', 'str', 'property'):
            return 'ok', 'immutable value'
        if text in ('os.environ.get', 'os.getenv', 'environ.get', 'getenv'):
            return 'ok', 'a string from the process environment (immutable)'
        if short_name in _STR_METHODS and isinstance(value.func, ast.Attribute) and \
                isinstance(value.func.value, ast.Call) and _classify(
                    an, module, name, value.func.value, cls)[1] in (
                    'immutable value', 'a string from the process environment (immutable)'):
            return 'ok', 'immutable value'  # a string method applied to such a string
        if short_name in _STR_METHODS and isinstance(value.func, ast.Attribute) and \
                isinstance(value.func.value, (ast.Name, ast.Constant)):
            # a string method applied to a module level string
            inner = value.func.value
            if isinstance(inner, ast.Constant) and isinstance(inner.value, str):
                return 'ok', 'immutable value'
            entries = module.assigns.get(inner.id, []) if isinstance(inner, ast.Name) else []
            if entries and all(_classify(an, module, inner.id, v, cls)[1] in (
                    'immutable literal', 'immutable value',
                    'a string from the process environment (immutable)')
                    for v, _s in entries):
                return 'ok', 'immutable value'
        if short_name in ('__make_init__', '__binary_op__', '__comparison_op__'):
            return 'ok', 'generated function'
        if isinstance(value.func, ast.Attribute) and value.func.attr == 'get' and \
                isinstance(value.func.value, ast.Name) and cls is None:
            # a lookup in a module level table of classes / constants selects one of them
            tables = module.assigns.get(value.func.value.id, [])
            if tables and all(isinstance(v, ast.Dict) and all(
                    isinstance(x, (ast.Name, ast.Attribute, ast.Constant))
                    for x in v.values) for v, _s in tables) and all(
                    isinstance(a, (ast.Name, ast.Attribute, ast.Constant, ast.Call))
                    for a in value.args[1:]):
                return 'ok', 'alias selected from a constant table'
        if isinstance(value.func, ast.Name) and value.func.id == 'staticmethod' and \
                len(value.args) == 1 and isinstance(value.args[0], ast.Call):
            return _classify(an, module, name, value.args[0], cls)
        binding = an.p.resolve_dotted(module, value.func)
        if binding and binding[0] == 'ext' and binding[1] in (
                'operator.attrgetter', 'operator.itemgetter', 'operator.methodcaller') and \
                all(isinstance(a, ast.Constant) for a in value.args) and \
                all(isinstance(kw.value, ast.Constant) for kw in value.keywords):
            return 'ok', 'an accessor of the operator module over constants (immutable)'
        if binding == ('ext', 'builtins.object') and not value.args and not value.keywords:
            return 'ok', 'a bare object(): a marker without any attribute to write'
        if binding[0] == 'class':
            qn = binding[1]
            if qn == HANDLER:
                return 'ok', 'the thread-local state handle'
            if qn in INERT_SINGLETONS:
                return 'ok', 'inert singleton'
            info = an.p.classes[qn]
            state = [s for entry in info.mro if entry in an.p.classes
                     for s in _slot_names(an.p.classes[entry])]
            assigns_state = any(
                isinstance(n, ast.Attribute) and isinstance(n.ctx, ast.Store)
                for entry in info.mro if entry in an.p.classes
                for m in an.p.classes[entry].methods.values() for n in ast.walk(m.node))
            if not state and not assigns_state:
                return 'ok', 'stateless singleton'
            return 'bad', 'module level instance of %s carries state %s' % (short(qn), state)
        return 'bad', 'module/class level object created by %s(...)' % text
    if isinstance(value, (ast.List, ast.Set, ast.ListComp, ast.DictComp, ast.SetComp)):
        if cls is None and _import_time_registry(an, module, name):
            return 'ok', 'a registry filled while the module is imported (by decorators ' \
                         'applied at class creation): the same for every simulation'
        return 'bad', 'module/class level mutable container'
    return 'ok', 'other expression'


def _import_time_registry(an: Analysis, module, name: str) -> bool:
    """a module level container that only decorators touch: every mention of the name is
    inside module level functions of its own module, and each of those functions is
    mentioned only as a decorator of a definition at module or class level -- they run
    while the module is imported, never during a simulation"""
    for other in an.p.modules.values():
        if other is module:
            continue
        binding = other.bindings.get(name)
        if binding and binding[0] == 'import' and binding[1] == module.name:
            return False  # handed out to another module
    holders = set()
    for stmt in module.tree.body:
        mentions = [n for n in ast.walk(stmt) if isinstance(n, ast.Name) and n.id == name]
        if not mentions:
            continue
        if isinstance(stmt, ast.FunctionDef):
            holders.add(stmt.name)
        elif isinstance(stmt, (ast.Assign, ast.AnnAssign)) and all(
                isinstance(n.ctx, ast.Store) for n in mentions):
            continue  # the definition itself
        else:
            return False
    if not holders:
        return False
    decorators = set()
    for node in ast.walk(module.tree):
        if isinstance(node, (ast.FunctionDef, ast.AsyncFunctionDef, ast.ClassDef)):
            for deco in node.decorator_list:
                decorators.update(id(n) for n in ast.walk(deco))
    owners = {}
    for top in module.tree.body:
        for node in ast.walk(top):
            owners[id(node)] = top
    for node in ast.walk(module.tree):
        if isinstance(node, ast.Name) and node.id in holders and id(node) not in decorators:
            return False  # called or passed around somewhere else
    for other in an.p.modules.values():
        if other is not module and any(
                b[0] == 'import' and b[1] == module.name and b[2] in holders
                for b in other.bindings.values() if len(b) > 2):
            return False
    # a decorator inside a function body would run during a simulation
    for node in ast.walk(module.tree):
        if isinstance(node, (ast.FunctionDef, ast.AsyncFunctionDef)):
            for inner in ast.walk(node):
                if inner is not node and isinstance(
                        inner, (ast.FunctionDef, ast.AsyncFunctionDef, ast.ClassDef)):
                    for deco in inner.decorator_list:
                        if any(isinstance(n, ast.Name) and n.id in holders
                               for n in ast.walk(deco)):
                            return False
    return True


def _slot_names(cls) -> list:
    if cls.slots is None:
        return []
    if isinstance(cls.slots, ast.Constant):
        return [cls.slots.value] if cls.slots.value else []
    if isinstance(cls.slots, (ast.Tuple, ast.List)):
        return [e.value for e in cls.slots.elts if isinstance(e, ast.Constant)]
    return ['?']
