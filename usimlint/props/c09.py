"""
C09 -- Lock: mutual exclusion, re-entrancy, FIFO hand-off, always released.

Structural clauses decided (DESIGN.md section 5/C09):
  X/D  ownership is written only by the lock itself; the caller becomes owner only under
       ``_owner is None``; ``__release__`` stores the next waiter or None
  P/H  the wait in ``__aenter__`` is covered for *every* signal class: a designated owner
       passes the lock on, nobody swallows the signal, a non-designated waiter never
       releases
  R    re-entrancy bookkeeping: +1 on every successful entry, -1 and release-iff-zero on
       exit; ``__aexit__`` never suspends and never swallows
  F    FIFO discipline of the waiter list (``append`` / ``pop(0)`` / ``remove``)
  B    ``available`` == the no-wait condition of ``__aenter__``
"""
import ast

from ..engine import Analysis, is_call_to, is_suspension, short, where_fn, key_truth
from ..model import AnalysisError
from ..paths import SIGNALS
from ..types import Callee
from .. import rules
from ..norm import equal_algebra

PROP = 'C09'
LOCK = 'usim._primitives.locks.Lock'
NOTIFICATION = 'usim._primitives.notification.Notification'


def _activity_read_position(path, index, expr):
    """position in the path at which ``expr`` read `loop.activity`, or None"""
    event = path.events[index]
    text = rules.normalise_state_aliases(ast.unparse(expr))
    if text == rules.CURRENT_ACTIVITY or text == 'loop.activity' and \
            rules.value_text(path, index, expr) == rules.CURRENT_ACTIVITY:
        return index
    if isinstance(expr, ast.Name):
        bind = event.data.get('bind')
        if bind and expr.id in bind:
            arg, enter_index = bind[expr.id]
            return _activity_read_position(path, enter_index, arg)
        found = rules.reaching_store(path, index, expr.id)
        if found is not None and found[1].data.get('value') is not None:
            return _activity_read_position(path, found[0], found[1]['value'])
    elif rules.value_text(path, index, expr) == rules.CURRENT_ACTIVITY:
        return index
    return None


def _owner_compare(event, path, index, ops=(ast.Eq, ast.Is, ast.IsNot, ast.NotEq)):
    """('same'|'differs', read position) if the test compares the owner with the activity"""
    node = event.node
    if not (isinstance(node, ast.Compare) and len(node.ops) == 1
            and isinstance(node.ops[0], ops)):
        return None
    left, right = node.left, node.comparators[0]
    texts = (rules.value_text(path, index, left), rules.value_text(path, index, right))
    if 'self._owner' not in texts:
        return None
    other = right if texts[0] == 'self._owner' else left
    read_at = _activity_read_position(path, index, other)
    if read_at is None:
        return None
    equal_op = isinstance(node.ops[0], (ast.Eq, ast.Is))
    value = event['value']
    return ('same' if value == equal_op else 'differs'), read_at


def check_waiting_fifo(check, an: Analysis, rule='F'):
    """queue discipline of Notification._waiting (shared by C09, C10, C02)"""
    allowed = {'append', 'remove', 'copy', 'clear'}
    uses = rules.attribute_method_calls(an, '_waiting', NOTIFICATION)
    n = 0
    for fn, node, kind, detail in uses:
        construct = '%s:_waiting.%s' % (short(fn.qn), detail or kind)
        where = '%s:%d' % (fn.module.relpath, node.lineno)
        if kind == 'call':
            n += 1
            if detail == 'pop':
                ok = len(node.args) == 1 and isinstance(node.args[0], ast.Constant) \
                    and node.args[0].value == 0
                check.instance(rule, construct, ok, where,
                               'waiters are taken from the front: %s' % ast.unparse(node))
            elif detail in ('index', 'count', '__len__', '__contains__'):
                continue
            elif detail in allowed:
                check.instance(rule, construct, True, where,
                               'order preserving mutator %s' % ast.unparse(node)[:60],
                               nontrivial=False)
            elif detail in ('insert', 'appendleft', 'reverse', 'sort', 'popleft', 'extend',
                            'extendleft', 'rotate'):
                check.instance(rule, construct, False, where,
                               'mutator %s breaks the FIFO discipline of the waiter list'
                               % ast.unparse(node)[:60])
            else:
                raise AnalysisError('unclassified operation on Notification._waiting: %s at %s'
                                    % (ast.unparse(node)[:60], where))
        elif kind == 'arg' and detail in ('len', 'list', 'bool', 'tuple'):
            continue
        elif kind == 'subscript':
            if detail != 'Load':
                check.instance(rule, construct, False, where,
                               'indexed store/delete on the waiter list re-orders waiters: %s'
                               % ast.unparse(node)[:60])
        elif kind in ('other', 'attr', 'arg', 'iter', 'alias'):
            # reads (truth tests, len, repr, iteration over a copy) are fine
            pass
    stores = rules.attribute_stores(an, '_waiting', NOTIFICATION)
    for fn, stmt, target, recvs in stores:
        where = '%s:%d' % (fn.module.relpath, stmt.lineno)
        ok = fn.name == '__init__' and isinstance(stmt, ast.Assign) and \
            isinstance(stmt.value, ast.List) and not stmt.value.elts
        check.instance(rule, '%s:_waiting=' % short(fn.qn), ok, where,
                       'the waiter list is (only) created empty as a list in __init__: %s'
                       % ast.unparse(stmt)[:60])
    return n


def run(check, an: Analysis):
    check.rule('X', 'ownership: only the lock writes _owner; caller becomes owner only '
                    'under `_owner is None`; __release__ stores next waiter or None')
    check.rule('P', 'hand-off under signals: every exceptional exit of the wait re-raises; '
                    'a designated owner releases first; a non-designated waiter never does')
    check.rule('R', 're-entrancy: depth +1 per successful entry, -1 per exit, release iff '
                    'depth reaches 0; __aexit__ never suspends and never swallows')
    check.rule('F', 'FIFO discipline of Notification._waiting (append / pop(0) / remove)')
    check.rule('B', '`available` is true exactly under the no-wait condition of __aenter__')
    an.cls(LOCK)
    # the nesting counter: the attribute the constructor sets to the number 0
    linit = an.method(LOCK, '__init__')
    counters = [ast.unparse(t) for n in ast.walk(linit.node)
                if isinstance(n, (ast.Assign, ast.AnnAssign)) and isinstance(
                    n.value, ast.Constant) and n.value.value == 0
                and not isinstance(n.value.value, bool)
                for t in (n.targets if isinstance(n, ast.Assign) else [n.target])
                if ast.unparse(t).startswith('self.')]
    DEPTH = counters[0] if len(counters) == 1 else 'self._depth'
    aenter = an.callee(LOCK, '__aenter__')
    aexit = an.callee(LOCK, '__aexit__')
    release = an.callee(LOCK, '__release__')
    fn_enter = aenter.fn

    # ---- X: writers of _owner -------------------------------------------------
    writers = rules.attribute_stores(an, '_owner', LOCK)
    for fn, stmt, target, recvs in writers:
        where = '%s:%d' % (fn.module.relpath, stmt.lineno)
        ok = rules.owned_by(an, fn, LOCK) and \
            fn.name in ('__init__', '__aenter__', '__release__')
        check.instance('X', 'writer:%s' % short(fn.qn), ok, where,
                       '_owner written by %s' % short(fn.qn), nontrivial=False)
    check.floor('X', 4)
    enter_paths = an.paths(aenter)
    # the caller takes the lock only when it is free
    n_take = 0
    for path in enter_paths:
        for index, event in enumerate(path.events):
            if event.kind == 'store' and event['path'] == 'self._owner' and event.depth == 0:
                n_take += 1
                free = rules.fact_value(event, ('isnone', 'self._owner'))
                if free is None:
                    # `owner = self._owner; if owner is None:` -- a read of this atomic block
                    free = rules.path_atoms(path, 0, index).get(('isnone', 'self._owner'))
                value_ok = event['value'] is not None and rules.value_text(
                    path, index, event['value']) == rules.CURRENT_ACTIVITY
                check.instance(
                    'X', 'take:__aenter__@%s' % ('free' if free else 'not-free'),
                    bool(free) and value_ok, event.where,
                    'store of the current activity into _owner dominated by '
                    '`_owner is None` (fact=%s, value is current activity=%s)'
                    % (free, value_ok), path=rules.path_lines(path, index))
    check.instance('X', 'take:present', n_take > 0, where_fn(fn_enter),
                   '__aenter__ records the caller as owner of a free lock')
    # __release__: next waiter or None
    for path in an.paths(release):
        for index, event in enumerate(path.events):
            if event.kind == 'store' and event['path'] == 'self._owner':
                handler = any(e.kind == 'handler' and 'NoSubscribers' in e['exc']
                              for e in path.events[:index])
                awoken = any(is_call_to(e, '__awake_next__') and e.get('exit') == 'normal'
                             for e in path.events[:index])
                source = _stored_source(path, index, event['value'])
                if source == 'none':
                    ok = handler and not awoken
                    what = 'None stored only when there is no waiter (NoSubscribers handler)'
                else:
                    ok = awoken and not handler and source == 'next-waiter'
                    what = 'next owner is the waiter returned by __awake_next__ (%s)' % source
                check.instance('X', 'release:%s' % ('None' if source == 'none' else 'next'),
                               ok, event.where, what, path=rules.path_lines(path, index))
    for path in an.paths(release):
        if not path.normal:
            continue
        n_store = sum(1 for e in path.events
                      if e.kind == 'store' and e['path'] == 'self._owner')
        awoken = any(is_call_to(e, '__awake_next__') and e.get('exit') == 'normal'
                     for e in path.events)
        check.instance('X', 'release:stores-once/%s' % ('waiter' if awoken else 'nobody'),
                       n_store == 1, where_fn(release.fn),
                       'every way through __release__ records the new owner exactly once '
                       '(stores=%d)' % n_store, path=rules.path_lines(path))
    # ---- P: every signal at the wait ------------------------------------------
    n_wait = 0
    for path in enter_paths:
        for index, event in enumerate(path.events):
            if event.kind != 'susp' or event.depth != 0 or event['exit'] == 'normal':
                continue
            if event['exit'] not in SIGNALS:
                continue
            n_wait += 1
            cls = event['exit']
            construct = 'wait-exit:%s' % cls.rsplit('.', 1)[-1].replace('ext:', '')
            rest = path.events[index + 1:]
            reraised = path.kind == 'raise' and path.outcome[1].cls == cls
            designation = None
            fresh_read = False
            for offset, later in enumerate(rest):
                if later.kind == 'test':
                    found = _owner_compare(later, path, index + 1 + offset)
                    if found:
                        designation, read_at = found
                        # `loop.activity` read *after* the wait: when the waiter is closed
                        # by force, the running activity is the one that closes it
                        fresh_read = read_at > index
            released = any(is_call_to(e, '__release__') for e in rest)
            if not reraised:
                ok, what = False, 'the signal does not leave __aenter__ unchanged'
            elif designation is None:
                ok, what = False, ('no test whether the caller is the designated owner '
                                   'covers this exit (handler too narrow or test dropped)')
            elif fresh_read and cls == 'ext:GeneratorExit':
                ok, what = False, ('the designation test reads `loop.activity` after the '
                                   'wait: a forced close is thrown from *another* '
                                   'activity\'s turn, so the closed waiter is not '
                                   '`loop.activity` and a designated owner would not pass '
                                   'the lock on')
            elif designation == 'same' and not released:
                ok, what = False, 'designated owner leaves without passing the lock on'
            elif designation == 'differs' and released:
                ok, what = False, 'a waiter that does not own the lock releases it'
            else:
                ok, what = True, 'designated=%s released=%s re-raised' % (
                    designation, released)
            check.instance('P', '%s/%s' % (construct, designation), ok, event.where, what,
                           path=rules.path_lines(path, index))
    check.instance('P', 'wait:present', n_wait >= len(SIGNALS), where_fn(fn_enter),
                   'a contended lock is waited for (%d signal exits of the wait)' % n_wait)
    # normal wake-up: no release, no ownership store (hand-over is by __release__)
    for path in enter_paths:
        if path.normal and any(e.kind == 'susp' and e.depth == 0 and e['exit'] == 'normal'
                               and is_suspension(e) for e in path.events):
            stored = any(e.kind == 'store' and e['path'] == 'self._owner' for e in path.events)
            released = any(is_call_to(e, '__release__') for e in path.events)
            check.instance('P', 'wake-normal', not stored and not released, where_fn(fn_enter),
                           'a woken waiter neither overwrites the owner set by __release__ '
                           'nor releases', path=rules.path_lines(path))
    # ---- R: re-entrancy ---------------------------------------------------------
    for path in enter_paths:
        if not path.normal:
            continue
        ups = [e for e in path.events if e.kind == 'store' and e['path'] == DEPTH
               and e.depth == 0]
        ok = len(ups) == 1 and isinstance(ups[0]['aug'], ast.Add) and \
            _const_value(ups[0]['value']) == 1
        waited = any(e.kind == 'susp' and is_suspension(e) for e in path.events)
        check.instance('R', 'enter:+1/%s' % ('waited' if waited else 'nowait'), ok,
                       where_fn(fn_enter),
                       'exactly one `_depth += 1` on the successful path',
                       path=rules.path_lines(path))
    summ = an.it.summary(aexit, 'none')
    for which in ('none', 'genexit', 'exc'):
        summ = an.it.summary(aexit, which)
        check.instance('R', 'aexit:no-suspension{%s}' % which, summ.susp == 'NEVER',
                       where_fn(aexit.fn), '__aexit__ summary is %s' % summ.susp)
        check.instance('R', 'aexit:no-swallow{%s}' % which, summ.ret_truth == 'never',
                       where_fn(aexit.fn), '__aexit__ returns a false value (%s)'
                       % summ.ret_truth)
        for path in an.paths(aexit, which):
            if not path.normal:
                continue
            downs = [(i, e) for i, e in enumerate(path.events) if e.kind == 'store'
                     and e['path'] == DEPTH and e.depth == 0]
            released = any(is_call_to(e, '__release__') and e.depth == 0 and
                           e.kind != 'leave' for e in path.events)
            # the new depth in terms of the old one, and the test `new depth == 0`
            is_zero, n_zero, minus_one = None, 0, False
            if len(downs) == 1:
                at, down = downs[0]
                new_depth = _attr_update(path, at, down, DEPTH)
                minus_one = new_depth is not None and equal_algebra(new_depth, 'OLD_ - 1')
                for pos in range(at + 1, len(path.events)):
                    test = path.events[pos]
                    if test.kind != 'test' or test.depth != 0:
                        continue
                    truth = _zero_test(path, pos, test, DEPTH, at, new_depth)
                    if truth is not None:
                        n_zero += 1
                        is_zero = truth
            ok = len(downs) == 1 and minus_one and n_zero == 1 and (is_zero == released)
            check.instance('R', 'aexit:-1,release-iff-zero{%s}/%s' % (
                which, 'zero' if is_zero else 'nested'), ok,
                where_fn(aexit.fn),
                'one `_depth -= 1`; `__release__()` iff `_depth == 0` '
                '(decrements=%d released=%s)' % (len(downs), released),
                path=rules.path_lines(path))
    # ---- F -------------------------------------------------------------------------
    check_waiting_fifo(check, an)
    check.floor('F', 5)
    # __awake_next__ hands to the head and schedules exactly that waiter
    awake = an.callee(NOTIFICATION, '__awake_next__')
    for path in an.paths(awake):
        if path.kind != 'return':
            continue
        pops = [e for e in path.events if e.kind == 'call' and
                isinstance(e.node, ast.Call) and isinstance(e.node.func, ast.Attribute)
                and e.node.func.attr == 'pop']
        sched = [e for e in path.events if is_call_to(e, 'schedule')]
        check.instance('F', '__awake_next__:schedules-popped', len(pops) == 1 and
                       len(sched) == 1, where_fn(awake.fn),
                       'one pop, one schedule of the popped waiter on the success path',
                       path=rules.path_lines(path))
    # ---- B: available ----------------------------------------------------------------
    from ..norm import function_predicate, bool_term, equivalent_terms
    avail = an.callee(LOCK, 'available')

    def symbol(node):
        return rules.normalise_state_aliases(ast.unparse(node))
    got = function_predicate(avail.fn.node, symbol)
    want = bool_term(ast.parse('self._owner is None or self._owner is %s'
                               % rules.CURRENT_ACTIVITY, mode='eval').body, symbol)
    want_eq = bool_term(ast.parse('self._owner is None or self._owner == %s'
                                  % rules.CURRENT_ACTIVITY, mode='eval').body, symbol)
    check.instance('B', 'available:predicate', got is not None and (
        equivalent_terms(got, want) or equivalent_terms(got, want_eq)), where_fn(avail.fn),
        '`available` == (owner is None or owner is the current activity)')
    nowait = set()
    for path in enter_paths:
        if path.normal and not any(e.kind == 'susp' and is_suspension(e)
                                   for e in path.events):
            nowait.add(_enter_condition(path))
    check.instance('B', 'nowait-conditions', nowait == {'free', 'own'}, where_fn(fn_enter),
                   '__aenter__ proceeds without waiting exactly when free or already owned: '
                   '%s' % sorted(nowait))
    check_forced_close_tolerated(check, an, 'R')
    # every lock has a wait queue of its own, made when the lock is made: a queue that comes
    # from a class attribute or from the default of a parameter is one object shared by all
    # locks, and a release of one lock would wake a waiter of another
    made = rules.constructor_field(an, LOCK, '_notification')
    init = an.method(LOCK, '__init__')
    fresh = isinstance(made, ast.Call) and not any(
        isinstance(n, ast.Name) and n.id in {a.arg for a in init.node.args.args[1:] +
                                             init.node.args.kwonlyargs}
        for n in ast.walk(made))
    check.instance('X', 'Lock.__init__:_notification', fresh, where_fn(init),
                   'the wait queue is constructed per lock by its constructor: %s' % (
                       ast.unparse(made) if made is not None else None))
    # the kernel rules every suspending operation rests on (shared; see _scope)
    from . import _scope as _kernel
    _kernel.check_kernel_core(check, an)
    from . import _scope as _sc
    _sc.check_until_core(check, an)
    check.stats.update(an.stats())


def check_forced_close_tolerated(check, an: Analysis, rule: str):
    """
    a holder that is force-closed (GeneratorExit) has its block unwound by the *closing*
    activity: on that way through ``Lock.__aexit__`` no assertion about who owns the lock
    is evaluated (it would fail and replace the close), and the lock is still given up
    """
    aexit = an.callee(LOCK, '__aexit__')
    verdict, n, bad = True, 0, None
    for path in an.paths(aexit, 'genexit'):
        n += 1
        for index, event in enumerate(path.events):
            if event.kind == 'assert' and event.get('key') is not None and \
                    not event.get('known') and '_owner' in repr(event['key']):
                verdict, bad = False, bad or (path, index)
    check.instance(rule, '__aexit__{genexit}:no-ownership-assertion', verdict and n > 0,
                   where_fn(aexit.fn), 'on a forced close the ownership assertion is not '
                   'evaluated (%d paths)' % n,
                   path=rules.path_lines(*bad) if bad else None, analysed=n)


def _stored_source(path, index, value, depth=4):
    """'none' / 'next-waiter' / 'other': where the value stored as owner comes from (the
    value that reaches the store on this path, through locals, helpers and their results)"""
    if value is None:
        return 'other'
    found = rules.value_expr(path, index, value)
    if isinstance(found, ast.Constant) and found.value is None:
        return 'none'
    if isinstance(found, ast.Subscript) and isinstance(found.slice, ast.Constant) and \
            found.slice.value == 0 and isinstance(found.value, ast.Call) and \
            isinstance(found.value.func, ast.Attribute) and \
            found.value.func.attr == '__awake_next__' and not found.value.args:
        return 'next-waiter'
    return 'other'


def _relative(path, pos, expr, attr, store_pos, new_text):
    """``expr`` (evaluated at ``pos``) over OLD_: reads of ``attr`` before the store at
    ``store_pos`` are OLD_, later ones the stored new value"""
    import copy

    def rename(tree, symbol):
        class Sub(ast.NodeTransformer):
            def visit_Attribute(self, node):
                if ast.unparse(node) == attr and isinstance(node.ctx, ast.Load):
                    return ast.parse(symbol, mode='eval').body
                return self.generic_visit(node)
        return Sub().visit(copy.deepcopy(tree))

    def expand(tree, at):
        symbol = 'OLD_' if at <= store_pos else '(%s)' % new_text
        tree = rename(tree, symbol)

        class Names(ast.NodeTransformer):
            def visit_Name(self, node):
                if not isinstance(node.ctx, ast.Load) or node.id == 'OLD_':
                    return node
                found = rules.reaching_store(path, at, node.id)
                if found is None or found[1].data.get('value') is None or \
                        found[1].data.get('aug') is not None:
                    return node
                return expand(found[1]['value'], found[0])
        return Names().visit(tree)
    return expand(expr, pos)


def _attr_update(path, at, store, attr):
    """text of the value stored into ``attr`` over OLD_ (its value before the store)"""
    value = store['value']
    if value is None:
        return None
    if store['aug'] is not None:
        op = {ast.Add: '+', ast.Sub: '-'}.get(type(store['aug']))
        if op is None:
            return None
        return 'OLD_ %s (%s)' % (op, ast.unparse(_relative(path, at, value, attr, at, 'OLD_')))
    return ast.unparse(_relative(path, at, value, attr, at, 'OLD_'))


def _zero_test(path, pos, test, attr, store_pos, new_text):
    """truth of `new value of attr == 0` decided by this test event, else None"""
    node = test.node
    if not (isinstance(node, ast.Compare) and len(node.ops) == 1 and
            isinstance(node.ops[0], (ast.Eq, ast.NotEq))) or new_text is None:
        return None
    tree = _relative(path, pos, node, attr, store_pos, new_text)
    diff = '(%s) - (%s)' % (ast.unparse(tree.left), ast.unparse(tree.comparators[0]))
    try:
        same = equal_algebra(diff, new_text) or equal_algebra(diff, '-(%s)' % new_text)
    except Exception:
        same = False
    if not same:
        return None
    value = bool(test['value'])
    return value if isinstance(node.ops[0], ast.Eq) else not value


def _const_value(node):
    return node.value if isinstance(node, ast.Constant) else None


def _first_of_awake_next(fn, name: str) -> bool:
    """``name, _ = self._notification.__awake_next__()`` -- first element of the pair"""
    for node in ast.walk(fn.node):
        if isinstance(node, ast.Assign) and isinstance(node.value, ast.Call) and \
                isinstance(node.value.func, ast.Attribute) and \
                node.value.func.attr == '__awake_next__':
            target = node.targets[0]
            if isinstance(target, (ast.Tuple, ast.List)) and target.elts and \
                    isinstance(target.elts[0], ast.Name) and target.elts[0].id == name:
                return True
    return False


def _enter_condition(path) -> str:
    if rules.path_atoms(path).get(('isnone', 'self._owner')) is True:
        return 'free'
    for index, event in enumerate(path.events):
        if event.kind == 'test':
            found = _owner_compare(event, path, index)
            if found and found[0] == 'same':
                return 'own'
    return 'other'
