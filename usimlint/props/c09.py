"""
C09 -- Lock: mutual exclusion, re-entrancy, FIFO hand-off, always released.

Structural clauses decided (DESIGN.md section 5/C09):
  X/D  ownership is written only by the lock itself; the caller becomes owner only under
       ``_owner is None``; ``__release__`` stores the next waiter or None
  P/H  the wait in ``__aenter__`` is covered for *every* signal class: a designated owner
       passes the lock on, nobody swallows the signal, a non-designated waiter never
       releases
  R    re-entrancy bookkeeping: +1 on every successful entry, -1 and release-iff-zero on
       exit; ``__aexit__`` never suspends and never swallows
  F    FIFO discipline of the waiter list (``append`` / ``pop(0)`` / ``remove``)
  B    ``available`` == the no-wait condition of ``__aenter__``
"""
import ast

from ..engine import Analysis, is_call_to, is_suspension, short, where_fn
from ..model import AnalysisError
from ..paths import SIGNALS
from ..types import Callee
from .. import rules

PROP = 'C09'
LOCK = 'usim._primitives.locks.Lock'
NOTIFICATION = 'usim._primitives.notification.Notification'


def _owner_compare(event, fn, ops=(ast.Eq, ast.Is, ast.IsNot, ast.NotEq)):
    """('same'|'differs', ...) if the test compares self._owner with the current activity"""
    node = event.node
    if not (isinstance(node, ast.Compare) and len(node.ops) == 1
            and isinstance(node.ops[0], ops)):
        return None
    left, right = node.left, node.comparators[0]
    texts = (ast.unparse(left), ast.unparse(right))
    if 'self._owner' not in texts:
        return None
    other = right if texts[0] == 'self._owner' else left
    if not rules.is_current_activity(other, fn):
        return None
    equal_op = isinstance(node.ops[0], (ast.Eq, ast.Is))
    value = event['value']
    return 'same' if value == equal_op else 'differs'


def check_waiting_fifo(check, an: Analysis, rule='F'):
    """queue discipline of Notification._waiting (shared by C09, C10, C02)"""
    allowed = {'append', 'remove', 'copy', 'clear'}
    uses = rules.attribute_method_calls(an, '_waiting', NOTIFICATION)
    n = 0
    for fn, node, kind, detail in uses:
        construct = '%s:_waiting.%s' % (short(fn.qn), detail or kind)
        where = '%s:%d' % (fn.module.relpath, node.lineno)
        if kind == 'call':
            n += 1
            if detail == 'pop':
                ok = len(node.args) == 1 and isinstance(node.args[0], ast.Constant) \
                    and node.args[0].value == 0
                check.instance(rule, construct, ok, where,
                               'waiters are taken from the front: %s' % ast.unparse(node))
            elif detail in ('index', 'count', '__len__', '__contains__'):
                continue
            elif detail in allowed:
                check.instance(rule, construct, True, where,
                               'order preserving mutator %s' % ast.unparse(node)[:60],
                               nontrivial=False)
            elif detail in ('insert', 'appendleft', 'reverse', 'sort', 'popleft', 'extend',
                            'extendleft', 'rotate'):
                check.instance(rule, construct, False, where,
                               'mutator %s breaks the FIFO discipline of the waiter list'
                               % ast.unparse(node)[:60])
            else:
                raise AnalysisError('unclassified operation on Notification._waiting: %s at %s'
                                    % (ast.unparse(node)[:60], where))
        elif kind == 'arg' and detail in ('len', 'list', 'bool', 'tuple'):
            continue
        elif kind == 'subscript':
            if detail != 'Load':
                check.instance(rule, construct, False, where,
                               'indexed store/delete on the waiter list re-orders waiters: %s'
                               % ast.unparse(node)[:60])
        elif kind in ('other', 'attr', 'arg', 'iter', 'alias'):
            # reads (truth tests, len, repr, iteration over a copy) are fine
            pass
    stores = rules.attribute_stores(an, '_waiting', NOTIFICATION)
    for fn, stmt, target, recvs in stores:
        where = '%s:%d' % (fn.module.relpath, stmt.lineno)
        ok = fn.name == '__init__' and isinstance(stmt, ast.Assign) and \
            isinstance(stmt.value, ast.List) and not stmt.value.elts
        check.instance(rule, '%s:_waiting=' % short(fn.qn), ok, where,
                       'the waiter list is (only) created empty as a list in __init__: %s'
                       % ast.unparse(stmt)[:60])
    return n


def run(check, an: Analysis):
    check.rule('X', 'ownership: only the lock writes _owner; caller becomes owner only '
                    'under `_owner is None`; __release__ stores next waiter or None')
    check.rule('P', 'hand-off under signals: every exceptional exit of the wait re-raises; '
                    'a designated owner releases first; a non-designated waiter never does')
    check.rule('R', 're-entrancy: depth +1 per successful entry, -1 per exit, release iff '
                    'depth reaches 0; __aexit__ never suspends and never swallows')
    check.rule('F', 'FIFO discipline of Notification._waiting (append / pop(0) / remove)')
    check.rule('B', '`available` is true exactly under the no-wait condition of __aenter__')
    an.cls(LOCK)
    aenter = an.callee(LOCK, '__aenter__')
    aexit = an.callee(LOCK, '__aexit__')
    release = an.callee(LOCK, '__release__')
    fn_enter = aenter.fn

    # ---- X: writers of _owner -------------------------------------------------
    writers = rules.attribute_stores(an, '_owner', LOCK)
    for fn, stmt, target, recvs in writers:
        where = '%s:%d' % (fn.module.relpath, stmt.lineno)
        ok = fn.cls is not None and fn.cls.qn == LOCK and \
            fn.name in ('__init__', '__aenter__', '__release__')
        check.instance('X', 'writer:%s' % short(fn.qn), ok, where,
                       '_owner written by %s' % short(fn.qn), nontrivial=False)
    check.floor('X', 4)
    enter_paths = an.paths(aenter)
    # the caller takes the lock only when it is free
    n_take = 0
    for path in enter_paths:
        for index, event in enumerate(path.events):
            if event.kind == 'store' and event['path'] == 'self._owner' and event.depth == 0:
                n_take += 1
                free = rules.fact_value(event, ('isnone', 'self._owner'))
                value_ok = event['value'] is not None and \
                    rules.is_current_activity(event['value'], fn_enter)
                check.instance(
                    'X', 'take:__aenter__@%s' % ('free' if free else 'not-free'),
                    bool(free) and value_ok, event.where,
                    'store of the current activity into _owner dominated by '
                    '`_owner is None` (fact=%s, value is current activity=%s)'
                    % (free, value_ok), path=rules.path_lines(path, index))
    check.instance('X', 'take:present', n_take > 0, where_fn(fn_enter),
                   '__aenter__ records the caller as owner of a free lock')
    # __release__: next waiter or None
    for path in an.paths(release):
        for index, event in enumerate(path.events):
            if event.kind == 'store' and event['path'] == 'self._owner':
                value = event['value']
                handler = any(e.kind == 'handler' and 'NoSubscribers' in e['exc']
                              for e in path.events[:index])
                awoken = any(is_call_to(e, '__awake_next__') and e.get('exit') == 'normal'
                             for e in path.events[:index])
                if isinstance(value, ast.Constant) and value.value is None:
                    ok = handler and not awoken
                    what = 'None stored only when there is no waiter (NoSubscribers handler)'
                else:
                    source = rules.local_values(release.fn, ast.unparse(value)) \
                        if isinstance(value, ast.Name) else []
                    ok = awoken and not handler and isinstance(value, ast.Name)
                    what = 'next owner is the waiter returned by __awake_next__'
                    if ok:
                        # the stored name must be the *first* element of the awoken pair
                        ok = _first_of_awake_next(release.fn, value.id)
                check.instance('X', 'release:%s' % ('None' if isinstance(
                    value, ast.Constant) else 'next'), ok, event.where, what,
                    path=rules.path_lines(path, index))
    for path in an.paths(release):
        if not path.normal:
            continue
        n_store = sum(1 for e in path.events
                      if e.kind == 'store' and e['path'] == 'self._owner')
        awoken = any(is_call_to(e, '__awake_next__') and e.get('exit') == 'normal'
                     for e in path.events)
        check.instance('X', 'release:stores-once/%s' % ('waiter' if awoken else 'nobody'),
                       n_store == 1, where_fn(release.fn),
                       'every way through __release__ records the new owner exactly once '
                       '(stores=%d)' % n_store, path=rules.path_lines(path))
    # ---- P: every signal at the wait ------------------------------------------
    n_wait = 0
    for path in enter_paths:
        for index, event in enumerate(path.events):
            if event.kind != 'susp' or event.depth != 0 or event['exit'] == 'normal':
                continue
            if event['exit'] not in SIGNALS:
                continue
            n_wait += 1
            cls = event['exit']
            construct = 'wait-exit:%s' % cls.rsplit('.', 1)[-1].replace('ext:', '')
            rest = path.events[index + 1:]
            reraised = path.kind == 'raise' and path.outcome[1].cls == cls
            designation = None
            fresh_read = False
            for later in rest:
                if later.kind == 'test':
                    found = _owner_compare(later, fn_enter)
                    if found:
                        designation = found
                        node = later.node
                        other = node.comparators[0] if ast.unparse(node.left) == \
                            'self._owner' else node.left
                        # `loop.activity` read *after* the wait: when the waiter is closed
                        # by force, the running activity is the one that closes it
                        fresh_read = not isinstance(other, ast.Name)
            released = any(is_call_to(e, '__release__') for e in rest)
            if not reraised:
                ok, what = False, 'the signal does not leave __aenter__ unchanged'
            elif designation is None:
                ok, what = False, ('no test whether the caller is the designated owner '
                                   'covers this exit (handler too narrow or test dropped)')
            elif fresh_read and cls == 'ext:GeneratorExit':
                ok, what = False, ('the designation test reads `loop.activity` after the '
                                   'wait: a forced close is thrown from *another* '
                                   'activity\'s turn, so the closed waiter is not '
                                   '`loop.activity` and a designated owner would not pass '
                                   'the lock on')
            elif designation == 'same' and not released:
                ok, what = False, 'designated owner leaves without passing the lock on'
            elif designation == 'differs' and released:
                ok, what = False, 'a waiter that does not own the lock releases it'
            else:
                ok, what = True, 'designated=%s released=%s re-raised' % (
                    designation, released)
            check.instance('P', '%s/%s' % (construct, designation), ok, event.where, what,
                           path=rules.path_lines(path, index))
    check.instance('P', 'wait:present', n_wait >= len(SIGNALS), where_fn(fn_enter),
                   'a contended lock is waited for (%d signal exits of the wait)' % n_wait)
    # normal wake-up: no release, no ownership store (hand-over is by __release__)
    for path in enter_paths:
        if path.normal and any(e.kind == 'susp' and e.depth == 0 and e['exit'] == 'normal'
                               and is_suspension(e) for e in path.events):
            stored = any(e.kind == 'store' and e['path'] == 'self._owner' for e in path.events)
            released = any(is_call_to(e, '__release__') for e in path.events)
            check.instance('P', 'wake-normal', not stored and not released, where_fn(fn_enter),
                           'a woken waiter neither overwrites the owner set by __release__ '
                           'nor releases', path=rules.path_lines(path))
    # ---- R: re-entrancy ---------------------------------------------------------
    for path in enter_paths:
        if not path.normal:
            continue
        ups = [e for e in path.events if e.kind == 'store' and e['path'] == 'self._depth'
               and e.depth == 0]
        ok = len(ups) == 1 and isinstance(ups[0]['aug'], ast.Add) and \
            _const_value(ups[0]['value']) == 1
        waited = any(e.kind == 'susp' and is_suspension(e) for e in path.events)
        check.instance('R', 'enter:+1/%s' % ('waited' if waited else 'nowait'), ok,
                       where_fn(fn_enter),
                       'exactly one `_depth += 1` on the successful path',
                       path=rules.path_lines(path))
    summ = an.it.summary(aexit, 'none')
    for which in ('none', 'genexit', 'exc'):
        summ = an.it.summary(aexit, which)
        check.instance('R', 'aexit:no-suspension{%s}' % which, summ.susp == 'NEVER',
                       where_fn(aexit.fn), '__aexit__ summary is %s' % summ.susp)
        check.instance('R', 'aexit:no-swallow{%s}' % which, summ.ret_truth == 'never',
                       where_fn(aexit.fn), '__aexit__ returns a false value (%s)'
                       % summ.ret_truth)
        for path in an.paths(aexit, which):
            if not path.normal:
                continue
            downs = [e for e in path.events if e.kind == 'store'
                     and e['path'] == 'self._depth' and e.depth == 0]
            zero = [e for e in path.events if e.kind == 'test' and
                    e.get('key') == ('eq', 'self._depth', '0')]
            released = any(is_call_to(e, '__release__') and e.depth == 0 for e in path.events)
            ok = len(downs) == 1 and isinstance(downs[0]['aug'], ast.Sub) and \
                _const_value(downs[0]['value']) == 1 and len(zero) == 1 and \
                (zero[0]['value'] == released)
            check.instance('R', 'aexit:-1,release-iff-zero{%s}/%s' % (
                which, 'zero' if (zero and zero[0]['value']) else 'nested'), ok,
                where_fn(aexit.fn),
                'one `_depth -= 1`; `__release__()` iff `_depth == 0` '
                '(decrements=%d released=%s)' % (len(downs), released),
                path=rules.path_lines(path))
    # ---- F -------------------------------------------------------------------------
    check_waiting_fifo(check, an)
    check.floor('F', 5)
    # __awake_next__ hands to the head and schedules exactly that waiter
    awake = an.callee(NOTIFICATION, '__awake_next__')
    for path in an.paths(awake):
        if path.kind != 'return':
            continue
        pops = [e for e in path.events if e.kind == 'call' and
                isinstance(e.node, ast.Call) and isinstance(e.node.func, ast.Attribute)
                and e.node.func.attr == 'pop']
        sched = [e for e in path.events if is_call_to(e, 'schedule')]
        check.instance('F', '__awake_next__:schedules-popped', len(pops) == 1 and
                       len(sched) == 1, where_fn(awake.fn),
                       'one pop, one schedule of the popped waiter on the success path',
                       path=rules.path_lines(path))
    # ---- B: available ----------------------------------------------------------------
    avail = an.callee(LOCK, 'available')
    paths = an.paths(avail)
    nowait = set()
    for path in enter_paths:
        if path.normal and not any(e.kind == 'susp' and is_suspension(e)
                                   for e in path.events):
            nowait.add(_enter_condition(path, fn_enter))
    for path in paths:
        if path.kind != 'return':
            continue
        free = [e for e in path.events if e.kind == 'test'
                and e.get('key') == ('isnone', 'self._owner')]
        value = path.outcome[1]
        if free and free[0]['value']:
            ok = isinstance(value, ast.Constant) and value.value is True
            what = 'free lock -> True'
            cond = 'free'
        else:
            ok = isinstance(value, ast.Compare) and len(value.ops) == 1 and \
                isinstance(value.ops[0], (ast.Is, ast.Eq)) and \
                ast.unparse(value.left) == 'self._owner' and \
                rules.is_current_activity(value.comparators[0], avail.fn) and bool(free)
            what = 'held lock -> `_owner is <current activity>`'
            cond = 'own'
        check.instance('B', 'available:%s' % cond, ok and cond in nowait,
                       where_fn(avail.fn),
                       '%s; __aenter__ does not wait under {%s}' % (what, ', '.join(
                           sorted(nowait))), path=rules.path_lines(path))
    check.instance('B', 'nowait-conditions', nowait == {'free', 'own'}, where_fn(fn_enter),
                   '__aenter__ proceeds without waiting exactly when free or already owned: '
                   '%s' % sorted(nowait))
    check.stats.update(an.stats())


def _const_value(node):
    return node.value if isinstance(node, ast.Constant) else None


def _first_of_awake_next(fn, name: str) -> bool:
    """``name, _ = self._notification.__awake_next__()`` -- first element of the pair"""
    for node in ast.walk(fn.node):
        if isinstance(node, ast.Assign) and isinstance(node.value, ast.Call) and \
                isinstance(node.value.func, ast.Attribute) and \
                node.value.func.attr == '__awake_next__':
            target = node.targets[0]
            if isinstance(target, (ast.Tuple, ast.List)) and target.elts and \
                    isinstance(target.elts[0], ast.Name) and target.elts[0].id == name:
                return True
    return False


def _enter_condition(path, fn) -> str:
    for event in path.events:
        if event.kind == 'test' and event.get('key') == ('isnone', 'self._owner') \
                and event['value']:
            return 'free'
    for event in path.events:
        if event.kind == 'test':
            found = _owner_compare(event, fn)
            if found == 'same':
                return 'own'
    return 'other'
