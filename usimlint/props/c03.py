"""
C03 -- the kernel never fails on its own: no leaked signal, internal error or livelock.

Structural clauses decided (DESIGN.md section 5/C03):
  H  no-swallow: a handler that can catch an internal signal re-raises it on every path,
     unless an identity test shows it is the signal the function created itself, or the
     function is one of the named sinks (task wrapper; Scope.__aexit__, whose suppression
     is C05/C07's identity rule; the SimPy process driver, whose try body cannot suspend)
  P  every created signal is revoked / unsubscribed: local wake-ups on every exit of their
     function, attribute-held scope signals in ``_disable_interrupts``, task cancellations
     registered before they are scheduled and revoked by the wrapper
  S  subscribe protocol: whatever ``__subscribe__`` does with (waiter, interrupt), the
     matching ``__unsubscribe__`` undoes: parked in the list it searches, or marked
     ``scheduled`` so that it is revoked
  D  revoked activations are skipped; ``Activation.__bool__``/``Interrupt.revoke``/
     ``Loop.schedule`` agree on the flags
  spin  immediacy <=> truth (a false condition never notifies at once, so a connective
     around it cannot spin at one virtual time)
  forced-close, typestate (shared with C04/C06) and the schedule precondition (C01/L3)
Absence of livelock for arbitrary programs needs a ranking argument and is not decided.
"""
import ast

from ..engine import Analysis, is_call_to, is_suspension, short, where_fn, tested, key_truth
from ..model import AnalysisError
from ..norm import equal_bool
from ..paths import SIGNALS, GENEXIT, CORE_INTERRUPT, CANCEL_TASK, CANCEL_SCOPE
from ..types import Callee, Frame, _walk_own
from .. import rules
from . import _scope, c01, c07

PROP = 'C03'
LOOP = 'usim._core.loop.Loop'
NOTIFICATION = 'usim._primitives.notification.Notification'
SIGNAL_CLASSES = (CORE_INTERRUPT, CANCEL_TASK, CANCEL_SCOPE)

#: functions that legitimately end a signal (one named symbol each, with its reason)
SINKS = {
    'usim._primitives.context.Scope.__aexit__':
        'absorbs only what _is_suppressed identifies as the scope\'s own signal (C05/E, '
        'C07/suppress decide that)',
    'usim.py.events.Process._run_payload':
        'the try body drives a plain generator and contains no suspension point, so no '
        'usim signal can arrive inside it',
}


def _handler_can_see_signal(an: Analysis, module, handler) -> bool:
    for cls in an.te.exception_classes(handler.type, module):
        for sig in SIGNALS:
            if an.p.is_subclass(sig, cls):
                return True
    return False


def run(check, an: Analysis):
    check.rule('H', 'handlers that can catch an internal signal re-raise it unless it is '
                    'identified as the function\'s own (identity test) or the function is a '
                    'named sink')
    check.rule('P', 'every created signal is revoked/unsubscribed on every exit')
    check.rule('S', '__subscribe__/__unsubscribe__ agree per class on where a subscriber is '
                    'parked or that it is marked scheduled')
    check.rule('D', 'revoked activations are skipped; flag plumbing of Activation/Interrupt/'
                    'Loop.schedule')
    check.rule('spin', 'a subscriber is notified at once exactly when the condition holds')
    check.rule('L3', 'nothing is scheduled into the past (kernel assertion never fires)')
    check.rule('forced-close', 'after GeneratorExit no path reaches another suspension')
    check.rule('typestate', 'the not-started predicate is sound on this interpreter')
    check.rule('A', 'the kernel\'s own consistency assertions hold: Lock.__aexit__ asserts '
                    'that the leaving activity owns the lock, which is what the Lock '
                    'discipline (C09: taken only when free, handed over FIFO, released only '
                    'by a designated owner) guarantees')
    check.rule('X', 'every way out of a scope -- normal, failing, interrupted or force-closed '
                    '-- runs the closing sequence once: its own signals are withdrawn and its '
                    'children closed, so that nothing is delivered to an activity that left '
                    'the scope (rule shared with C04)')
    wrapper = _scope.wrapper_callee(an)

    # ---- H ------------------------------------------------------------------
    check_handlers(check, an, 'H')
    # no handler may be narrower than BaseException where protocol state is protected:
    # that is decided per primitive by the pairing rules (C09/C11/C12/C13); here only
    # the order of the wrapper's handlers (specific before generic)
    handlers = [h for n in ast.walk(wrapper.fn.node) if isinstance(n, ast.Try)
                for h in n.handlers]
    names = [ast.unparse(h.type) if h.type is not None else '<bare>' for h in handlers]
    generic = [i for i, h in enumerate(handlers)
               if h.type is None or ast.unparse(h.type) in ('BaseException', 'Exception')]
    ok = bool(generic) and all(i < generic[0] for i, n in enumerate(names)
                               if n in ('CancelTask', 'GeneratorExit'))
    check.instance('H', 'wrapper:handler-order', ok and {'CancelTask', 'GeneratorExit'} <=
                   set(names), where_fn(wrapper.fn), 'specific handlers before the generic '
                   'one: %s' % names)

    # a scope absorbs each of its own signals (else they leak out of run())
    _scope.check_suppression(check, an, 'H')
    _scope.check_foreign_signal_leaves_exit(check, an, 'H')
    # ---- P ------------------------------------------------------------------
    _check_signal_lifecycles(check, an, wrapper)
    check_own_wakeup_is_fresh(check, an, 'P')
    # ---- S ------------------------------------------------------------------
    _check_subscribe_protocol(check, an)
    # ---- D ------------------------------------------------------------------
    run_events = an.callee(LOOP, '_run_events')
    n = 0
    for path in an.paths(run_events):
        for index, _kind, subject in rules.activation_resumes(path):
            event = path.events[index]
            n += 1
            # the popped activation was tested true with nothing in between
            ok = False
            for pos in range(index - 1, -1, -1):
                before = path.events[pos]
                if before.kind == 'test' and \
                        rules.value_text(path, pos, before.node) == subject:
                    ok = before['value'] is True
                    break
                if before.kind == 'susp':
                    break
            if not ok:
                check.instance('D', '_run_events:skips-revoked', False, event.where,
                               'an activation is run without testing whether its '
                               'signal was revoked', path=rules.path_lines(path, index))
    check.instance('D', '_run_events:skips-revoked', n > 0, where_fn(run_events.fn),
                   'every resumption of a coroutine is dominated by the truth test of the popped '
                   'activation (%d resumptions on paths)' % n, analysed=n)
    check_activation_flags(check, an, 'D')
    schedule = an.callee(LOOP, 'schedule')
    verdict, n, n_given = True, 0, 0
    for path in an.paths(schedule):
        if not path.normal:
            continue
        given = [e for e in path.events if e.kind == 'test'
                 and e.get('key') == ('isnone', 'signal')]
        marked = any(e.kind == 'store' and e['path'] == 'signal.scheduled'
                     and isinstance(e['value'], ast.Constant) and e['value'].value is True
                     for e in path.events)
        queued = any(is_call_to(e, 'push') or (
            e.kind == 'call' and isinstance(e.node, ast.Call)
            and rules.text_at(path, e, e.node.func) == 'self._pending.append') for e in path.events)
        n += 1
        if given and not key_truth(given[-1]):
            verdict &= marked
            n_given += 1
        verdict &= queued
    check.instance('D', 'Loop.schedule:marks-signal', verdict and n > 0 and n_given > 0,
                   where_fn(schedule.fn), 'every way through schedule queues the activation '
                   'and marks a given signal as scheduled (%d paths)' % n, analysed=n)
    # ---- spin -----------------------------------------------------------------
    c07.check_immediacy(check, an, 'spin')
    # the kernel's own waiting loop gives the others a turn in every round
    _scope.check_await_children_progress(check, an, 'spin')
    # ---- shared ---------------------------------------------------------------
    c01._check_schedule_preconditions(check, an)
    n = _scope.check_forced_close(check, an, only_modules=('usim._', 'usim.__'))
    _scope.check_typestate(check, an)
    # ---- X --------------------------------------------------------------------
    from ..report import SubCheck
    from . import c04
    c04.check_close_on_every_exit(SubCheck(check, 'X', 'Scope'), an, 'P',
                                  _scope.scope_receivers(an))
    check.floor('X', 30)
    # ---- A --------------------------------------------------------------------
    from . import c09
    c09.run(SubCheck(check, 'A', 'Lock'), an)
    check.floor('A', 30)
    # ... as do Done.__set_done__ (a task is finalised once: Task.__close__ leaves a task
    # alone that already has its outcome) and the Queue (a message is only taken under the
    # read mutex: no pop from an empty buffer escapes as IndexError)
    c04.check_task_close(SubCheck(check, 'A', 'Task'), an, 'F')
    escaping = [path for path in an.paths(wrapper) if not path.normal]
    check.instance('A', 'Task:wrapper:nothing-escapes', not escaping, where_fn(wrapper.fn),
                   'every path of the task wrapper ends normally: no signal delivered to a '
                   'task leaves it towards run()',
                   path=rules.path_lines(escaping[0]) if escaping else None)
    from . import c10, c08
    c10.run(SubCheck(check, 'A', 'Queue'), an)
    c08.check_subscription_paired(SubCheck(check, 'A', 'Notification'), an, 'S')
    from . import _scope as _sc
    _sc.check_scope_core(check, an, skip=('close', 'foreign', 'task-close'))
    check.stats.update(an.stats())


def _own_signal_identified(path, index, handler, fn) -> bool:
    """after the handler entry an identity test shows the caught object is a local signal"""
    if not handler.name:
        return False
    for event in path.events[index + 1:]:
        if event.kind == 'test' and event.get('key') is not None and \
                event['key'][0] == 'is' and handler.name in event['key'][1:]:
            other = event['key'][2] if event['key'][1] == handler.name else event['key'][1]
            position = rules.event_index(path, event)
            value = rules.value_expr(path, position, ast.Name(id=other, ctx=ast.Load()))
            created = isinstance(value, ast.Call) and \
                ast.unparse(value.func) in ('Interrupt', 'CoreInterrupt')
            if created and key_truth(event) is True:
                return True
    return False


def check_handlers(check, an: Analysis, rule: str):
    """every handler of the package that can catch an internal signal re-raises it, unless
    it identified the signal as its own (the task wrapper is the one designated sink)"""
    wrapper = _scope.wrapper_callee(an)
    n_handlers = 0
    for module, try_node, handler in an.p.all_handlers():
        if not _handler_can_see_signal(an, module, handler):
            continue
        fn = an.p.enclosing_function(module, try_node)
        if fn is None:
            continue
        n_handlers += 1
        where = '%s:%d' % (module.relpath, handler.lineno)
        construct = '%s:except %s' % (short(fn.qn), ast.unparse(handler.type)
                                      if handler.type is not None else '<bare>')
        if fn is wrapper.fn:
            check.instance(rule, construct, True, where,
                           'designated sink: the task wrapper records the outcome',
                           nontrivial=False)
            continue
        if fn.qn in SINKS:
            ok = True
            detail = 'named sink: %s' % SINKS[fn.qn]
            if fn.qn.endswith('_run_payload'):
                body_suspends = any(isinstance(n, (ast.Await, ast.AsyncWith, ast.AsyncFor,
                                                   ast.Yield, ast.YieldFrom))
                                    for stmt in try_node.body for n in ast.walk(stmt))
                ok = not body_suspends
                detail += ' (try body suspension free: %s)' % ok
            check.instance(rule, construct, ok, where, detail, nontrivial=False)
            continue
        owner = an.p.enclosing_self_class(fn)
        recvs = [owner.qn] if owner is not None else [None]
        if fn.kind == 'ctxgen':
            pass
        verdict, bad, n_caught = True, None, 0
        whichs = ['none', 'exc:ext:Exception', 'genexit'] if fn.name == '__aexit__' \
            else [None]
        for recv in recvs:
            callee = Callee(fn, recv)
            for which in whichs:
                for path in an.paths(callee, which):
                    for index, event in enumerate(path.events):
                        if event.kind != 'handler' or event.node is not handler or \
                                event['exc'] not in SIGNALS:
                            continue
                        n_caught += 1
                        exc = event['excobj']
                        reraised = path.kind == 'raise' and path.outcome[1].cls == exc.cls
                        if reraised:
                            continue
                        if _own_signal_identified(path, index, handler, fn):
                            continue
                        verdict = False
                        bad = bad or (path, index)
        check.instance(rule, construct, verdict, where,
                       'caught internal signals are re-raised or identified as own '
                       '(%d catches on paths)' % n_caught,
                       path=rules.path_lines(*bad) if bad else None, analysed=n_caught)
    check.floor(rule, 8, 'handlers that can see an internal signal')


def check_activation_flags(check, an: Analysis, rule: str):
    """an activation counts unless its signal was revoked: nothing else can take a queued
    wake-up back (a trigger scheduled for a date stays scheduled)"""
    act_bool = an.method('usim._core.loop.Activation', '__bool__')
    from ..norm import function_predicate, bool_term as _bt, equivalent_terms as _eqv
    try:
        got = function_predicate(act_bool.node)
    except Exception:
        got = None
    check.instance(rule, 'Activation.__bool__', got is not None and _eqv(got, _bt(ast.parse(
        'self.signal is None or not self.signal._revoked', mode='eval').body)),
        where_fn(act_bool), 'an activation counts unless its signal was revoked')
    revoke = an.method('usim._core.loop.Interrupt', 'revoke')
    # on every way through: revoking a signal that is not scheduled *yet* still has to
    # disarm it (a scope that has closed may be told to cancel itself afterwards)
    n_paths, unset = 0, None
    for path in an.paths(an.callee('usim._core.loop.Interrupt', 'revoke')):
        if not path.normal:
            continue
        n_paths += 1
        stores = [e for e in path.events if e.kind == 'store'
                  and e.data.get('path') == 'self._revoked']
        if not stores or not all(isinstance(e.data.get('value'), ast.Constant)
                                 and e.data['value'].value is True for e in stores):
            unset = unset or (path, len(path.events) - 1)
    check.instance(rule, 'Interrupt.revoke', unset is None and n_paths > 0, where_fn(revoke),
                   'revoking sets the flag the loop tests, on every way through '
                   '(%d paths)' % n_paths,
                   path=rules.path_lines(*unset) if unset else None, analysed=n_paths)
    init = an.method('usim._core.loop.Interrupt', '__init__')
    inits = {ast.unparse(n_.targets[0]): ast.unparse(n_.value)
             for n_ in ast.walk(init.node) if isinstance(n_, ast.Assign)}
    check.instance(rule, 'Interrupt.__init__', inits.get('self._revoked') == 'False' and
                   inits.get('self.scheduled') == 'False', where_fn(init),
                   'a fresh signal is neither revoked nor scheduled')


def check_own_wakeup_is_fresh(check, an: Analysis, rule: str):
    """
    postpone() and suspend() wake their caller by a signal made for this one pause: the
    signal handed to the loop is an Interrupt constructed on the very path that schedules
    it.  (A signal kept from an earlier pause and armed again would bring a revoked
    activation that is still queued back to life -- ahead of everything scheduled since.)
    """
    module = 'usim._primitives.notification'
    for name in ('postpone', 'suspend'):
        fn = an.fn('%s.%s' % (module, name))
        callee = Callee(fn, None)
        frame = Frame(fn, None)
        n, bad = 0, None
        for path in an.paths(callee):
            for index, event in enumerate(path.events):
                if event.kind != 'call' or not is_call_to(event, 'schedule') or \
                        not isinstance(event.node, ast.Call):
                    continue
                call = event.node
                signal = [kw.value for kw in call.keywords if kw.arg == 'signal'] or \
                    list(call.args[1:2])
                if not signal:
                    continue
                n += 1
                made = rules.value_expr(path, index, signal[0])
                fresh = isinstance(made, ast.Call) and any(
                    term[0] == 'cls' and an.p.is_subclass(term[1], CORE_INTERRUPT)
                    for term in an.te.expr_type(made.func, frame))
                if not fresh:
                    bad = bad or (path, index)
        check.instance(rule, '%s:wakes-by-a-signal-of-its-own' % name, bad is None and n > 0,
                       where_fn(fn), 'the signal scheduled for the caller is an Interrupt '
                       'constructed for this pause (%d schedule sites on paths)' % n,
                       path=rules.path_lines(*bad) if bad else None, analysed=n)


def _check_signal_lifecycles(check, an: Analysis, wrapper, rule: str = 'P', only=None):
    created = []
    for fn, frame in rules.all_frames(an):
        if isinstance(fn.node, ast.Lambda):
            continue
        for node in _walk_own(fn.node):
            if isinstance(node, ast.Call):
                for term in an.te.expr_type(node.func, frame):
                    if term[0] == 'cls' and an.p.is_subclass(term[1], CORE_INTERRUPT):
                        created.append((fn, node, term[1]))
    for fn, node, cls in created:
        if only is not None and not only(fn, cls):
            continue
        where = '%s:%d' % (fn.module.relpath, node.lineno)
        construct = '%s:%s(...)' % (short(fn.qn), cls.rsplit('.', 1)[-1])
        holder = _assigned_to(fn, node)
        if holder is None:
            check.instance(rule, construct, False, where,
                           'a signal is created but not kept: it can never be revoked')
            continue
        kind, name = holder
        if kind == 'attr' and fn.cls is not None and \
                not an.p.is_subclass(fn.cls.qn, _scope.SCOPE) and \
                an.p.find_method(fn.cls.qn, '__exit__') is not None:
            # a context manager object keeps its wake-up in an attribute: every way through
            # its __exit__ withdraws it
            leave = Callee(an.p.find_method(fn.cls.qn, '__exit__'), fn.cls.qn)
            target = 'self.%s' % name
            verdict, n_paths, bad = True, 0, None
            for which in ('none', 'genexit', 'exc:ext:Exception', 'exc:' + CORE_INTERRUPT):
                for path in an.paths(leave, which):
                    n_paths += 1
                    withdrawn = False
                    for index, event in enumerate(path.events):
                        call = event.node
                        if event.kind in ('call', 'enter') and isinstance(call, ast.Call) \
                                and isinstance(call.func, ast.Attribute):
                            if call.func.attr == 'revoke' and rules.value_text(
                                    path, index, call.func.value) == target:
                                withdrawn = True
                            elif call.func.attr == '__unsubscribe__' and target in [
                                    rules.value_text(path, index, a) for a in call.args]:
                                withdrawn = True
                    if not withdrawn:
                        verdict, bad = False, bad or path
            check.instance(rule, construct, verdict and n_paths > 0, where,
                           'the signal kept in `%s` is withdrawn on every way through '
                           '%s.__exit__ (%d paths)' % (target, fn.cls.name, n_paths),
                           path=rules.path_lines(bad) if bad else None, analysed=n_paths)
            continue
        if kind == 'attr':
            ok = fn.name == '__init__' and name in ('_cancel_self', '_interrupt')
            check.instance(rule, construct, ok, where,
                           'attribute-held scope signal `%s`: released by '
                           '_disable_interrupts on every exit (C04/P, C07/P)' % name,
                           nontrivial=False)
            continue
        owner = an.p.enclosing_self_class(fn)
        callee = Callee(fn, owner.qn if owner else None)
        paths = an.paths(callee)
        if cls == CANCEL_TASK and rules.owned_by(an, fn, _scope.TASK):
            # registered in _cancellations before it is scheduled; revoked by the wrapper
            ok_reg = True
            for path in paths:
                sched = [i for i, e in enumerate(path.events) if is_call_to(e, 'schedule')]
                reg = [i for i, e in enumerate(path.events) if e.kind == 'call'
                       and isinstance(e.node, ast.Call)
                       and rules.text_at(path, e, e.node.func) == 'self._cancellations.append']
                if sched:
                    ok_reg &= bool(reg) and reg[0] < sched[0]
            revoked, body_ok = True, True
            for path in an.paths(wrapper):
                if path.normal and not any(tested(e, ('isnone', 'self._result'), False)
                                           for e in path.events[:3]):
                    loop = [(i, e) for i, e in enumerate(path.events)
                            if e.kind in ('iter-next', 'iter-end') and '_cancellations' in
                            rules.value_text(path, i, e.node.iter)]
                    revoked &= bool(loop) and loop[-1][1].kind == 'iter-end'
                    for (i, e), (j, _n) in zip(loop, loop[1:]):
                        if e.kind == 'iter-next':
                            var = ast.unparse(e.node.target)
                            body_ok &= any(
                                x.kind in ('call', 'enter') and isinstance(x.node, ast.Call)
                                and ast.unparse(x.node.func) == '%s.revoke' % var
                                for x in path.events[i:j])
            check.instance(rule, construct, ok_reg and revoked and body_ok, where,
                           'registered before scheduling (%s); every terminal path of the '
                           'wrapper revokes all registered cancellations (%s, %s)' % (
                               ok_reg, revoked, body_ok), analysed=len(paths))
            continue
        # local wake-up: scheduled/subscribed, then revoked/unsubscribed on every exit --
        # decided where the signal lives: in this function, or in its callers when the
        # function hands the armed signal on (a helper that returns it)
        roots = _signal_roots(an, fn, node)
        for root in roots:
            verdict, bad, n, n_paths = True, None, 0, 0
            root_owner = an.p.enclosing_self_class(root)
            for path in an.paths(Callee(root, root_owner.qn if root_owner else None)):
                n_paths += 1
                armed = None
                for index, event in enumerate(path.events):
                    if event.kind != 'call' or not isinstance(event.node, ast.Call):
                        continue
                    call = event.node
                    operands = list(call.args) + [kw.value for kw in call.keywords]
                    if event.get('exit') == 'normal' and (
                            is_call_to(event, 'schedule') or is_call_to(event, '__subscribe__')
                            or (isinstance(call.func, ast.Attribute)
                                and call.func.attr == '__subscribe__')) and \
                            any(_is_node(rules.value_expr(path, index, a), node)
                                for a in operands):
                        armed = index
                        n += 1
                    elif armed is not None and isinstance(call.func, ast.Attribute) and (
                            (call.func.attr == 'revoke' and _is_node(
                                rules.value_expr(path, index, call.func.value), node))
                            or (call.func.attr == '__unsubscribe__' and any(
                                _is_node(rules.value_expr(path, index, a), node)
                                for a in operands))):
                        armed = None
                if armed is not None:
                    verdict = False
                    bad = bad or (path, armed)
            check.instance(rule, construct if root is fn else '%s@%s' % (
                               construct, short(root.qn)), verdict and n > 0, where,
                           'local signal `%s` is disarmed on every exit after it was armed '
                           '(%d armings on %d paths of %s)' % (
                               name, n, n_paths, short(root.qn)),
                           path=rules.path_lines(*bad) if bad else None, analysed=n_paths)
    if only is None:
        check.floor(rule, 6, 'signal creation sites')
    else:
        check.floor(rule, 1, 'signal creation sites')


_is_node = rules.is_source_node


def _signal_roots(an: Analysis, fn, node, depth: int = 3):
    """the functions in which the signal created by ``node`` lives on: ``fn`` itself, or
    the callers of a helper that returns the signal (possibly inside a tuple)"""
    owner = an.p.enclosing_self_class(fn)
    hands_on = False
    for path in an.paths(Callee(fn, owner.qn if owner else None)):
        if path.kind == 'return' and path.outcome[1] is not None:
            value = rules.value_expr(path, len(path.events), path.outcome[1])
            if any(_is_node(sub, node) for sub in ast.walk(value)):
                hands_on = True
    if not hands_on or depth <= 0:
        return [fn]
    roots = []
    for caller, _call, _frame in rules.call_sites_of(an, fn.qn):
        # the caller sees the creation through the helper's events on its own paths
        if caller not in roots:
            roots.append(caller)
    return roots or [fn]


def _assigned_to(fn, call):
    for node in ast.walk(fn.node):
        if isinstance(node, ast.Call) and node is not call and isinstance(
                node.func, (ast.Attribute, ast.Name)):
            # made in the argument list of a private helper (`self._deliver(Signal(...))`):
            # the helper, which rule paths run in place, keeps it in its parameter
            name = node.func.attr if isinstance(node.func, ast.Attribute) else node.func.id
            receiver = ast.unparse(node.func.value) if isinstance(
                node.func, ast.Attribute) else 'self'
            if name.startswith('_') and not name.startswith('__') and receiver == 'self':
                for pos, arg in enumerate(node.args):
                    if arg is call:
                        return 'local', 'argument %d of %s' % (pos, name)
                for kw in node.keywords:
                    if kw.value is call and kw.arg:
                        return 'local', kw.arg
        if isinstance(node, ast.Assign) and node.value is call:
            target = node.targets[0]
            if isinstance(target, ast.Name):
                return 'local', target.id
            if isinstance(target, ast.Attribute) and ast.unparse(target.value) == 'self':
                return 'attr', target.attr
    return None


def _passes_name(call, name) -> bool:
    for arg in list(call.args) + [kw.value for kw in call.keywords]:
        if isinstance(arg, ast.Name) and arg.id == name:
            return True
    return False


def _check_subscribe_protocol(check, an: Analysis):
    classes = [NOTIFICATION] + an.p.subclasses(NOTIFICATION)
    seen = set()
    for qn in sorted(classes):
        if qn.startswith('usim.py.'):
            continue
        sub = an.p.find_method(qn, '__subscribe__')
        unsub = an.p.find_method(qn, '__unsubscribe__')
        key = (sub.qn, unsub.qn)
        own_override = (sub.cls.qn == qn or unsub.cls.qn == qn)
        if key in seen and not own_override:
            continue
        seen.add(key)
        label = qn.rsplit('.', 1)[-1]
        parked, marked_ok, n_sub = set(), True, 0
        for path in an.inlined_paths(Callee(sub, qn), c01._inline_sync, 4):
            if not path.normal:
                continue
            n_sub += 1
            park = [e for e in path.events if e.kind == 'call' and isinstance(
                e.node, ast.Call) and rules.text_at(path, e, e.node.func) == 'self._waiting.append']
            sched = [e for e in path.events if is_call_to(e, 'schedule')
                     and isinstance(e.node, ast.Call) and e.node.args
                     and rules.text_at(path, e, e.node.args[0]) == 'waiter']
            for event in park:
                parked.add(event.recv)
            if sched and not park:
                # schedule() marks the signal itself when it is given one
                with_signal = all(len(e.node.args) > 1 or any(
                    kw.arg == 'signal' for kw in e.node.keywords) for e in sched)
                marked_ok &= with_signal
            elif not park and not sched:
                marked_ok = False
        removed, revokes, n_unsub = set(), False, 0
        idle = None
        for path in an.inlined_paths(Callee(unsub, qn), c01._inline_sync, 4):
            if not path.normal:
                continue
            n_unsub += 1
            acted = False
            for event in path.events:
                if event.kind in ('call', 'enter') and isinstance(event.node, ast.Call):
                    text = rules.text_at(path, event, event.node.func)
                    if text == 'self._waiting.remove':
                        removed.add(event.recv)
                        acted = True
                    elif text == 'interrupt.revoke':
                        revokes = True
                        acted = True
            if not acted and idle is None:
                idle = path
        # a subscription is either still parked or its delivery is under way: whichever
        # way unsubscribing goes, it takes the pair out of a list or revokes the signal
        check.instance('S', '%s:unsubscribe-acts-on-every-path' % label, idle is None
                       and n_unsub > 0, where_fn(unsub),
                       'no way through __unsubscribe__ leaves both the waiter lists and the '
                       'signal untouched (%d paths)' % n_unsub,
                       path=rules.path_lines(idle) if idle is not None else None,
                       analysed=n_unsub)
        ok = parked <= removed and marked_ok and revokes and n_sub > 0 and n_unsub > 0
        check.instance('S', '%s:subscribe/unsubscribe' % label, ok, where_fn(sub),
                       'parks in the waiter lists of %s, unsubscribe removes from %s; '
                       'immediate deliveries carry the signal (%s); scheduled signals are '
                       'revoked (%s)' % (sorted(p.rsplit('.', 1)[-1] for p in parked),
                                         sorted(r.rsplit('.', 1)[-1] for r in removed),
                                         marked_ok, revokes), analysed=n_sub + n_unsub)
    check.floor('S', 3)
