"""
C02 -- the trace is a function of the program alone (deterministic FIFO turn order).

Structural clauses decided (DESIGN.md section 5/C02):
  T  determinism taint: no import of random/secrets/uuid/time/datetime; threading only in
     the state handler; the environment is read for the one documented selector only; no
     iteration over an address-ordered collection (set, frozenset, WeakSet) unless its
     consumer is order-insensitive; ``id()``/``hash()`` only inside ``__repr__``
  F  FIFO turns: the loop's pending deque and the per-key deques only see
     append/popleft; waiters are woken in subscription order
  S  the two wait-queue classes are observationally equal (same methods, same deque per
     key, same append, min-pop, same truth/len); the selector raises on unknown values
  D  debug purity: every ``assert`` is effect free; ``if __debug__:`` blocks only define
     functions that do nothing but raise; ``__debug__`` is read nowhere else
Hash-seed dependence inside user payloads or third-party libraries is not decided.
"""
import ast

from ..engine import Analysis, is_call_to, short, where_fn
from ..model import AnalysisError
from ..types import Callee, Frame, _walk_own
from .. import rules
from .c09 import check_waiting_fifo

PROP = 'C02'
LOOP = 'usim._core.loop.Loop'
HQ = 'usim._core.waitq.HQWaitQueue'
SD = 'usim._core.waitq.SDWaitQueue'
NOTIFICATION = 'usim._primitives.notification.Notification'
FORBIDDEN_MODULES = {'random', 'secrets', 'uuid', 'time', 'datetime'}
SET_TYPES = {'set', 'frozenset', 'WeakSet'}
ORDER_INSENSITIVE = {'all', 'any', 'set', 'frozenset', 'sum', 'len', 'max', 'min', 'sorted'}

#: iterations over address-ordered collections that are accepted, with the reason
#: one named class: the metaclass that builds and matches Concurrent[...] types
ALLOWED_SET_ITERATION = {
    'usim._primitives.concurrent_exception.MetaConcurrent':
        'the frozenset of specialisations is only used to build the class *name* and a tuple '
        'that is consumed by all()/any() in the matching predicate (C17): no event order '
        'depends on it',
}


def _set_typed(an: Analysis, expr, frame) -> bool:
    for term in an.te.expr_type(expr, frame):
        if term[0] == 'cont' and term[1] in SET_TYPES:
            return True
        if term[0] == 'ext' and term[1] in SET_TYPES:
            return True
    return False


def run(check, an: Analysis):
    check.rule('T', 'no nondeterminism source flows into scheduling: imports, environment, '
                    'address-ordered iteration, id()/hash()')
    check.rule('F', 'loop deques and waiter lists are FIFO (append / popleft / pop(0))')
    check.rule('S', 'HQWaitQueue and SDWaitQueue are observationally equal; selector strict')
    check.rule('D', 'asserts are effect free; `if __debug__:` only defines raising stubs')
    # ---- T: imports --------------------------------------------------------------
    n_imports = 0
    for module in sorted(an.p.modules.values(), key=lambda m: m.name):
        for node in ast.walk(module.tree):
            names = []
            if isinstance(node, ast.Import):
                names = [alias.name.split('.')[0] for alias in node.names]
            elif isinstance(node, ast.ImportFrom) and node.level == 0 and node.module:
                names = [node.module.split('.')[0]]
            for name in names:
                n_imports += 1
                if name in FORBIDDEN_MODULES:
                    check.instance('T', 'import:%s:%s' % (module.name, name), False,
                                   '%s:%d' % (module.relpath, node.lineno),
                                   'module `%s` is a source of nondeterminism' % name)
                elif name == 'threading' and module.name != 'usim._core.handler':
                    check.instance('T', 'import:%s:threading' % module.name, False,
                                   '%s:%d' % (module.relpath, node.lineno),
                                   'threads outside the state handler')
                elif name == 'os' and module.name != 'usim._core.waitq':
                    check.instance('T', 'import:%s:os' % module.name, False,
                                   '%s:%d' % (module.relpath, node.lineno),
                                   'the environment is read outside the wait-queue selector')
    check.instance('T', 'imports-audited', n_imports > 20, 'usim/**',
                   '%d import statements: none of %s; threading only in the state handler; '
                   'os only in the wait-queue selector' % (n_imports,
                                                          sorted(FORBIDDEN_MODULES)),
                   analysed=n_imports)
    # weak references: what they still hold depends on when the collector ran -- every
    # weak container of the package is named here with the reason why that cannot be seen
    weak_ok = {
        ('usim._basics.tracked', 'self._listeners'):
            'walked in insertion order; an entry only vanishes together with the last '
            'reference to the comparison, which then has no waiter to wake',
        ('usim._basics._resource_level', '__specialisation_cache__'):
            'cache of generated level types, keyed by field names: a miss builds an equal '
            'type',
        ('usim._primitives.concurrent_exception', '__specialisations__'):
            'cache of generated exception types (C17 decides what a miss means)',
    }
    n_weak = 0
    for module in an.p.modules.values():
        parents = {}
        for node in ast.walk(module.tree):
            for child in ast.iter_child_nodes(node):
                parents[id(child)] = node
        for node in ast.walk(module.tree):
            if not (isinstance(node, ast.Call) and isinstance(node.func,
                                                              (ast.Name, ast.Attribute))):
                continue
            try:
                binding = an.p.resolve_dotted(module, node.func)
            except Exception:
                binding = None
            if not binding or binding[0] != 'ext' or not binding[1].startswith('weakref.'):
                continue
            n_weak += 1
            holder = parents.get(id(node))
            target = None
            if isinstance(holder, ast.Assign) and len(holder.targets) == 1:
                target = ast.unparse(holder.targets[0])
            elif isinstance(holder, ast.AnnAssign):
                target = ast.unparse(holder.target)
            check.instance('T', 'weak:%s:%s' % (module.name, target),
                           (module.name, target) in weak_ok,
                           '%s:%d' % (module.relpath, node.lineno),
                           weak_ok.get((module.name, target),
                                       'a weak container or reference that is not on the '
                                       'reviewed list: what it holds depends on when the '
                                       'garbage collector ran'))
    check.instance('T', 'weak-references-audited', n_weak >= 3, 'usim/**',
                   '%d constructions of weakref objects, each named with its reason' % n_weak,
                   analysed=n_weak)
    waitq = an.p.modules['usim._core.waitq']
    env_reads = [n for n in ast.walk(waitq.tree) if isinstance(n, ast.Attribute)
                 and ast.unparse(n) == 'os.environ']
    keys = set()
    ok_env = bool(env_reads)
    for node in ast.walk(waitq.tree):
        if isinstance(node, ast.Call) and ast.unparse(node.func) == 'os.environ.get':
            keys.add(ast.unparse(node.args[0]))
    other_os = [n for n in ast.walk(waitq.tree) if isinstance(n, ast.Attribute)
                and isinstance(n.value, ast.Name) and n.value.id == 'os'
                and n.attr != 'environ']
    check.instance('T', 'environment:one-selector', ok_env and len(keys) == 1 and
                   not other_os, waitq.relpath,
                   'os.environ is read through .get(%s) only' % sorted(keys))
    # ---- T: address ordered iteration ------------------------------------------------
    n_iter = 0
    for fn, frame in rules.all_frames(an):
        if isinstance(fn.node, ast.Lambda):
            continue
        parents = {}
        for node in _walk_own(fn.node):
            for child in ast.iter_child_nodes(node):
                parents[id(child)] = node
        for node in _walk_own(fn.node):
            iters = []
            if isinstance(node, (ast.For, ast.AsyncFor)):
                iters.append((node.iter, node))
            elif isinstance(node, ast.comprehension):
                iters.append((node.iter, node))
            elif isinstance(node, ast.Call) and isinstance(node.func, ast.Name) and \
                    node.func.id in ('list', 'tuple', 'next', 'iter', 'enumerate', 'zip',
                                     'map', 'takewhile') and node.args:
                iters.append((node.args[-1] if node.func.id in ('map', 'takewhile')
                              else node.args[0], node))
            elif isinstance(node, ast.Starred):
                iters.append((node.value, node))
            for expr, site in iters:
                n_iter += 1
                if not _set_typed(an, expr, frame):
                    continue
                where = '%s:%d' % (fn.module.relpath, getattr(site, 'lineno', fn.lineno))
                construct = '%s:iterates-%s' % (short(fn.qn), ast.unparse(expr)[:30])
                owner = an.p.enclosing_self_class(fn)
                if owner is not None and owner.qn in ALLOWED_SET_ITERATION:
                    check.note('accepted %s: %s' % (construct,
                                                    ALLOWED_SET_ITERATION[owner.qn]))
                    continue
                if _consumer_is_order_insensitive(site, parents):
                    check.instance('T', construct, True, where,
                                   'address-ordered iteration consumed by an '
                                   'order-insensitive function', nontrivial=False)
                    continue
                check.instance('T', construct, False, where,
                               'iteration order of a set/WeakSet depends on memory addresses '
                               'and hash seeds; its elements are processed in that order')
    check.instance('T', 'iterations-audited', n_iter > 30, 'usim/**',
                   '%d iteration sites typed; none iterates a set/frozenset/WeakSet in an '
                   'order-sensitive way' % n_iter, analysed=n_iter)
    # the listeners of tracked values in particular
    tracked_init = an.method('usim._basics.tracked.Tracked', '__init__')
    made = [n for n in ast.walk(tracked_init.node) if isinstance(n, ast.Assign)
            and ast.unparse(n.targets[0]) == 'self._listeners']
    kind = ast.unparse(made[0].value.func) if made and isinstance(made[0].value, ast.Call) \
        else '?'
    check.instance('T', 'Tracked._listeners:insertion-ordered', kind in (
        'WeakKeyDictionary', 'dict', 'list', 'WeakValueDictionary', 'OrderedDict'),
        where_fn(tracked_init), 'listeners are kept in a %s (iteration in creation order)'
        % kind)
    # id()/hash()
    for fn in an.p.functions.values():
        if isinstance(fn.node, ast.Lambda):
            continue
        for node in _walk_own(fn.node):
            if isinstance(node, ast.Call) and isinstance(node.func, ast.Name) and \
                    node.func.id in ('id', 'hash'):
                ok = fn.name in ('__repr__', '__str__')
                check.instance('T', '%s:%s()' % (short(fn.qn), node.func.id), ok,
                               '%s:%d' % (fn.module.relpath, node.lineno),
                               'addresses/hashes are used for display only',
                               nontrivial=False)
    # ---- F ------------------------------------------------------------------
    for attr in ('_pending',):
        for fn, node, kind, detail in rules.attribute_method_calls(an, attr, LOOP):
            if kind == 'call':
                ok = detail in ('append',)
                check.instance('F', '%s:%s.%s' % (short(fn.qn), attr, detail), ok,
                               '%s:%d' % (fn.module.relpath, node.lineno),
                               'producers append to the pending deque')
    from . import c01
    c01.check_drain(check, an, an.callee(LOOP, '_run_events'), 'F')
    # both wait-queue backends are the same queue: smallest key, its own bucket, removed
    c01._check_waitqueues(check, an, 'S')
    # one date, one bucket: the turn order among wake-ups for the same date is the order
    # in which they were asked for only if the date is the queue key as given
    c01.check_schedule_keys(check, an, 'S')
    for qn in (HQ, SD):
        push = an.method(qn, 'push')
        ops = sorted({n.func.attr for n in ast.walk(push.node) if isinstance(n, ast.Call)
                      and isinstance(n.func, ast.Attribute)
                      and n.func.attr in ('append', 'appendleft', 'insert', 'extend')})
        check.instance('F', '%s.push:append' % qn.rsplit('.', 1)[-1], ops == ['append'],
                       where_fn(push), 'items join their key\'s deque at the right end')
    check_waiting_fifo(check, an)
    awake_all = an.method(NOTIFICATION, '__awake_all__')
    walked = set()
    for path in an.paths(an.callee(NOTIFICATION, '__awake_all__')):
        for index, event in enumerate(path.events):
            if event.kind in ('iter-next', 'iter-end') and event.depth == 0:
                source = rules.value_expr(path, index, event.node.iter)
                if isinstance(source, ast.Call) and ast.unparse(source.func) == 'reversed' \
                        and len(source.args) == 1:
                    # any fixed traversal of the list is deterministic; which waiter goes
                    # first is not part of any property statement
                    source = source.args[0]
                walked.add(rules.normalise_state_aliases(ast.unparse(source)))
    ok = bool(walked) and walked <= {'self._waiting.copy()', 'list(self._waiting)',
                                     'self._waiting[:]', 'tuple(self._waiting)'}
    check.instance('F', '__awake_all__:list-order', ok, where_fn(awake_all),
                   'all waiters are scheduled by a fixed traversal of a copy of the '
                   '(insertion ordered) waiter list')
    # ---- S ------------------------------------------------------------------
    hq, sd = an.cls(HQ), an.cls(SD)
    public = lambda cls: sorted(n for n in cls.methods if n not in ('__init__', '__repr__'))
    check.instance('S', 'same-interface', public(hq) == public(sd),
                   hq.module.relpath, 'methods: %s / %s' % (public(hq), public(sd)))
    truth = []
    for cls, want in ((hq, 'bool(self._keys)'), (sd, 'bool(self._data)')):
        callee = an.callee(cls.qn, '__bool__')
        good = True
        for path in an.paths(callee):
            if path.kind == 'return':
                good &= rules.value_text(path, len(path.events) - 1,
                                         path.outcome[1]) == want
        truth.append(good)
    check.instance('S', 'same-truth', all(truth), hq.module.relpath,
                   'non-empty iff a key is queued (keys and deques are created together: '
                   'C01/L2)')
    # push: append to the key's deque, creating it (empty) on KeyError -- in both classes
    shapes = []
    for cls in (hq, sd):
        callee = an.callee(cls.qn, 'push')
        params = [a.arg for a in callee.fn.node.args.args[1:]]
        good, kinds = True, set()
        for path in an.paths(callee):
            if not path.normal:
                continue
            missed = any(e.kind == 'handler' and e['exc'] == 'ext:KeyError'
                         for e in path.events)
            appends = [(i, e) for i, e in enumerate(path.events) if e.kind == 'call'
                       and isinstance(e.node, ast.Call)
                       and isinstance(e.node.func, ast.Attribute)
                       and e.node.func.attr == 'append' and e.get('exit') == 'normal']
            created = [(i, e) for i, e in enumerate(path.events) if e.kind == 'store'
                       and e.get('base') is not None and rules.value_text(
                           path, i, e.node.value) == 'self._data']
            item_ok = len(appends) == 1 and [ast.unparse(a) for a in
                                             appends[0][1].node.args] == [params[1]]
            if missed:
                kinds.add('create')
                fresh = len(created) == 1 and rules.value_text(
                    path, created[0][0], created[0][1]['value']) in ('deque()',
                                                                     'collections.deque()')
                good &= item_ok and fresh
            else:
                kinds.add('existing')
                target = rules.value_text(path, appends[0][0],
                                          appends[0][1].node.func.value) if appends else ''
                good &= item_ok and not created and target == 'self._data[%s]' % params[0]
        shapes.append(good and kinds == {'create', 'existing'})
    check.instance('S', 'same-push', all(shapes), hq.module.relpath,
                   'both append the item to `_data[key]` and create a fresh empty deque on '
                   'KeyError: %s' % shapes)
    outcomes = {case: _selected(waitq.tree.body, case) for case in ('SD', '', 'other')}
    sel_ok = outcomes == {'SD': 'SDWaitQueue', '': 'HQWaitQueue', 'other': 'raise'}
    check.instance('S', 'selector:strict', sel_ok, waitq.relpath,
                   'USIM_WAITQUEUE selects HQ or SD and anything else raises: %s' % outcomes)
    # ---- G ------------------------------------------------------------------
    # no activity is left to the garbage collector (whose timing depends on unrelated
    # allocations): every way out of a scope closes its children (rule shared with C04)
    from . import c04, _scope
    check.rule('G', 'no activity is finalised by the garbage collector: every way out of a '
                    'scope runs the closing sequence (rule shared with C04)')
    c04.check_close_on_every_exit(check, an, 'G', _scope.scope_receivers(an))
    # a wake-up that changes nothing still re-queues the woken transfers behind everybody
    # made runnable in between: the pipe re-plans only when demand exceeds its throughput
    from . import c13
    c13.check_scale(check, an, 'G')
    # ---- D ------------------------------------------------------------------
    n_assert, bad_assert = 0, []
    for fn, frame in rules.all_frames(an):
        if isinstance(fn.node, ast.Lambda):
            continue
        owner = an.p.enclosing_self_class(fn)
        for node in _walk_own(fn.node):
            if isinstance(node, ast.Assert):
                n_assert += 1
                reason = _impure_expression(an, node.test, frame) or (
                    _impure_expression(an, node.msg, frame) if node.msg is not None else None)
                if reason and not _accepted_assert(fn, node):
                    bad_assert.append((fn, node, reason))
    for fn, node, reason in bad_assert:
        check.instance('D', '%s:assert@%s' % (short(fn.qn), ast.unparse(node.test)[:30]),
                       False, '%s:%d' % (fn.module.relpath, node.lineno),
                       'assertion with a side effect (%s): behaviour differs under -O'
                       % reason)
    check.instance('D', 'asserts-pure', not bad_assert and n_assert >= 30, 'usim/**',
                   '%d assert statements, all tests and messages effect free' % n_assert,
                   analysed=n_assert)
    n_blocks = 0
    for module, node, cls in an.p.debug_blocks:
        n_blocks += 1
        ok = True
        why = []
        for stmt in node.body:
            if not isinstance(stmt, ast.FunctionDef):
                ok = False
                why.append('contains %s' % type(stmt).__name__)
                continue
            body = [s for s in stmt.body if not (isinstance(s, ast.Expr) and isinstance(
                s.value, ast.Constant))]
            if not all(_only_raises(s) for s in body):
                ok = False
                why.append('%s does more than raise' % stmt.name)
        if node.orelse:
            ok = False
            why.append('has an else branch')
        check.instance('D', 'debug-block:%s@%d' % (module.name, node.lineno), ok,
                       '%s:%d' % (module.relpath, node.lineno),
                       'defines only misuse stubs that raise' if ok else '; '.join(why))
    check.floor('D', 5, '`if __debug__:` blocks')
    reads = []
    for module in an.p.modules.values():
        for node in ast.walk(module.tree):
            if isinstance(node, ast.Name) and node.id == '__debug__':
                reads.append((module, node))
    check.instance('D', '__debug__:only-in-blocks', len(reads) == n_blocks, 'usim/**',
                   '%d reads of __debug__, all as the test of a definition block' % len(reads))
    # the kernel rules every suspending operation rests on (shared; see _scope)
    from . import _scope as _kernel
    _kernel.check_kernel_core(check, an)
    from . import _scope as _sc
    _sc.check_until_core(check, an)
    check.stats.update(an.stats())


_HARMLESS_CALLS = ('len', 'repr', 'str', 'type', 'isinstance', 'bool', 'id', 'format')


def _only_raises(stmt) -> bool:
    if isinstance(stmt, ast.Raise):
        return True
    if isinstance(stmt, ast.If):
        return all(_only_raises(s) for s in stmt.body + stmt.orelse)
    if isinstance(stmt, (ast.Assign, ast.AnnAssign)) and stmt.value is not None:
        # a temporary for the message: a local name bound to an effect free expression
        targets = stmt.targets if isinstance(stmt, ast.Assign) else [stmt.target]
        names = [e for t in targets for e in (t.elts if isinstance(t, ast.Tuple) else [t])]
        return all(isinstance(n, ast.Name) for n in names) and all(
            not isinstance(n, (ast.Await, ast.Yield, ast.YieldFrom, ast.NamedExpr, ast.Lambda))
            and (not isinstance(n, ast.Call) or (isinstance(n.func, ast.Name)
                                                 and n.func.id in _HARMLESS_CALLS))
            for n in ast.walk(stmt.value))
    return False


def _consumer_is_order_insensitive(site, parents) -> bool:
    """the value produced by iterating is handed to all/any/set/frozenset/sum/len/..."""
    node = site
    for _ in range(4):
        parent = parents.get(id(node))
        if parent is None:
            return False
        if isinstance(parent, ast.Call) and isinstance(parent.func, ast.Name) and \
                parent.func.id in ORDER_INSENSITIVE:
            return True
        if isinstance(parent, (ast.SetComp,)):
            return True
        if isinstance(parent, (ast.GeneratorExp, ast.ListComp, ast.comprehension)):
            node = parent
            continue
        if isinstance(node, ast.Call) and node.func is not None and \
                isinstance(parent, ast.Call):
            node = parent
            continue
        return False
    return False


def _impure_expression(an: Analysis, expr, frame):
    """reason if evaluating ``expr`` may have an effect, else None"""
    for node in ast.walk(expr):
        if isinstance(node, (ast.Await, ast.Yield, ast.YieldFrom, ast.NamedExpr)):
            return type(node).__name__
        if isinstance(node, ast.Call):
            callees, externals = an.te.resolve_callees(node, frame)
            for callee in callees:
                if callee.fn.name in ('__init__', '__new__'):
                    if not an.it._init_is_local(callee):
                        return 'constructs %s with effects' % callee
                elif not an.it.is_pure(callee):
                    return 'calls %s' % callee
            for ext in externals:
                if ext[0] in ('construct', 'callable'):
                    continue
                name = ext[-1].split('.')[-1]
                from ..paths import PURE_EXTERNALS
                if name not in PURE_EXTERNALS and ext[0] != 'unknown':
                    return 'calls %s' % ext[-1]
                if ext[0] == 'unknown':
                    return 'calls unresolved %s' % ext[-1]
        if isinstance(node, (ast.Compare, ast.BinOp)):
            left = node.left
            for qn in an.te.classes_of(an.te.expr_type(left, frame)):
                from ..types import _CMPOP, _BINOP
                op = node.ops[0] if isinstance(node, ast.Compare) else node.op
                name = (_CMPOP if isinstance(node, ast.Compare) else _BINOP).get(
                    type(op).__name__)
                method = an.p.find_method(qn, name) if name else None
                if method is not None:
                    callee = Callee(method, qn)
                    if not an.it.is_pure(callee) and not _builds_comparison(an, callee):
                        return 'operator %s of %s' % (name, short(qn))
    return None


def _builds_comparison(an: Analysis, callee: Callee) -> bool:
    """
    Tracked comparison operators build an AsyncComparison whose only effect is a weak
    registration as listener that dies with the temporary (named exception of DESIGN 5/C02)
    """
    return callee.fn.cls is not None and \
        callee.fn.cls.qn == 'usim._basics.tracked.Tracked' and \
        callee.fn.name in ('__lt__', '__le__', '__eq__', '__ne__', '__ge__', '__gt__')


def _accepted_assert(fn, node) -> bool:
    return False


# ------------------------------------------------------- module level selection
_SETTING = "os.environ.get(QUEUETYPE_KEY, '').upper()"


def _selected(body, case: str):
    """
    what the module level statements bind ``WaitQueue`` to when the (upper-cased) setting
    is 'SD', '' or anything else: a class name, 'raise', or '?' when a statement that
    matters is not understood.  Tests compare the setting with string constants.
    """
    bound = [None]
    aliases = {}

    def expand(expr):
        import copy

        class Sub(ast.NodeTransformer):
            def visit_Name(self, node):
                if isinstance(node.ctx, ast.Load) and node.id in aliases:
                    return copy.deepcopy(aliases[node.id])
                return node
        return Sub().visit(copy.deepcopy(expr))

    def lookup(value):
        """name selected by `TABLE.get(<setting>, default)` / `TABLE[<setting>]` for a dict
        display of string keys and names"""
        table = key = default = None
        if isinstance(value, ast.Call) and isinstance(value.func, ast.Attribute) and \
                value.func.attr == 'get' and 1 <= len(value.args) <= 2 and \
                not value.keywords:
            table, key = expand(value.func.value), value.args[0]
            default = value.args[1] if len(value.args) == 2 else ast.Constant(value=None)
        elif isinstance(value, ast.Subscript):
            table, key = expand(value.value), value.slice
        if not (isinstance(table, ast.Dict) and all(
                isinstance(k, ast.Constant) and isinstance(k.value, str)
                and isinstance(v, ast.Name) for k, v in zip(table.keys, table.values))):
            return None
        if ast.unparse(expand(key)) != setting():
            return '?'
        for k, v in zip(table.keys, table.values):
            if case != 'other' and k.value == case:
                return v.id
        if default is None:
            return 'raise'  # KeyError
        return default.id if isinstance(default, ast.Name) else '?'

    def setting():
        return ast.unparse(expand(ast.parse(_SETTING, mode='eval').body))

    def truth(test):
        if isinstance(test, ast.UnaryOp) and isinstance(test.op, ast.Not):
            inner = truth(test.operand)
            return None if inner is None else not inner
        if isinstance(test, ast.BoolOp):
            values = [truth(v) for v in test.values]
            if any(v is None for v in values):
                return None
            return all(values) if isinstance(test.op, ast.And) else any(values)
        if isinstance(test, ast.Compare) and len(test.ops) == 1 and \
                isinstance(test.left, ast.Name) and test.left.id == 'WaitQueue' and \
                isinstance(test.ops[0], (ast.Is, ast.IsNot, ast.Eq, ast.NotEq)) and \
                isinstance(test.comparators[0], ast.Name) and bound[0] is not None:
            # what was just selected, compared with a marker
            same = bound[0] == test.comparators[0].id
            return same if isinstance(test.ops[0], (ast.Is, ast.Eq)) else not same
        if isinstance(test, ast.Compare) and len(test.ops) == 1 and \
                ast.unparse(expand(test.left)) == setting():
            op, right = test.ops[0], test.comparators[0]
            if isinstance(op, (ast.Eq, ast.NotEq)) and isinstance(right, ast.Constant) \
                    and isinstance(right.value, str):
                same = case != 'other' and case == right.value
                return same if isinstance(op, ast.Eq) else not same
            if isinstance(op, (ast.In, ast.NotIn)) and \
                    isinstance(right, (ast.Tuple, ast.List, ast.Set)) and all(
                    isinstance(e, ast.Constant) and isinstance(e.value, str)
                    for e in right.elts):
                inside = case != 'other' and case in [e.value for e in right.elts]
                return inside if isinstance(op, ast.In) else not inside
            table = expand(right) if isinstance(op, (ast.In, ast.NotIn)) else None
            if isinstance(table, ast.Dict) and all(
                    isinstance(k, ast.Constant) and isinstance(k.value, str)
                    for k in table.keys):
                # membership in a module level table of the known settings
                inside = case != 'other' and case in [k.value for k in table.keys]
                return inside if isinstance(op, ast.In) else not inside
        return None

    def run(stmts):
        """'raise' | '?' | None (fell through)"""
        for stmt in stmts:
            if isinstance(stmt, ast.If):
                mentions = any(isinstance(n, ast.Name) and n.id == 'WaitQueue'
                               for n in ast.walk(stmt)) or \
                    setting() in ast.unparse(expand(stmt.test))
                if not mentions:
                    continue
                value = truth(stmt.test)
                if value is None:
                    return '?'
                result = run(stmt.body if value else stmt.orelse)
                if result is not None:
                    return result
            elif isinstance(stmt, ast.Raise):
                return 'raise'
            elif isinstance(stmt, (ast.Assign, ast.AnnAssign)):
                targets = stmt.targets if isinstance(stmt, ast.Assign) else [stmt.target]
                if any(ast.unparse(t) == 'WaitQueue' for t in targets):
                    if isinstance(stmt.value, ast.Name):
                        bound[0] = stmt.value.id
                    else:
                        looked_up = lookup(stmt.value)
                        if looked_up in (None, '?'):
                            return '?'
                        if looked_up == 'raise':
                            return 'raise'
                        bound[0] = looked_up
                elif len(targets) == 1 and isinstance(targets[0], ast.Name) and \
                        stmt.value is not None:
                    # a module level name for (part of) the setting
                    aliases[targets[0].id] = expand(stmt.value)
            elif any(isinstance(n, ast.Name) and n.id == 'WaitQueue'
                     and isinstance(n.ctx, (ast.Store, ast.Del)) for n in ast.walk(stmt)) \
                    and not isinstance(stmt, (ast.FunctionDef, ast.ClassDef,
                                              ast.AsyncFunctionDef)):
                return '?'
        return None

    result = run(body)
    return result if result is not None else (bound[0] or '?')
